"""Transmitter side for the C01 check: turns a ServiceDecoder history (TLC output) into the line protocol of
harness/drv_service.c.  Encoding knowledge only (EN 300 706 packet formats, EIA-608 byte pairs, VPS, WSS); the
bytes of `Arbitrary` lines and all free details (row contents, triplets, packet numbers inside a row group) are a
pure function of (seed, step index), so a stored (seed, history) or the script itself replays exactly."""
import random
from vlib import ttx

# sliced service ids / lines (src/sliced.h)
ID_TTX, ID_VPS, ID_WSS, ID_CC1, ID_CC2, ID_CPR = 0x3, 0x4, 0x400, 0x20, 0x40, 0x800
DT = dict(reg=0, same=1, back=2, jump=3)
EV = ["close", "ttx", "cc", "net", "trig", "x20", "asp", "pinfo", "netid", "x200", "ltime", "progid"]   # bit i <-> type name
ANY = 0x3F7F

# page universe (matches spec/MC_ServiceDecoder.tla PagesG)
BTT, AIT, MPT, MIP, MOT1, MOT2, GPOP, POP, DRCS, GDRCS, TRIG, HEXPG = 0x1F0, 0x1F1, 0x1F2, 0x1FD, 0x1FE, 0x2FE, 0x15A, 0x15B, 0x15C, 0x15D, 0x1E7, 0x1AB
SPECIAL = {BTT, AIT, MPT, MIP, MOT1, MOT2, GPOP, POP, DRCS, GDRCS, TRIG, HEXPG}
KIND = {BTT: "btt", AIT: "ait", MPT: "mpt", MIP: "mip", MOT1: "mot", MOT2: "mot", GPOP: "pop", POP: "pop", DRCS: "drcs", GDRCS: "drcs",
        TRIG: "trig", HEXPG: "hex"}

PATTERNS = [   # id -> (text, casefold, regexp)
    ("A", 0, 0), ("zvbi verif", 1, 0), (".*", 0, 1), ("[A-Z]+[0-9]*\\(x\\)|^$", 1, 1), ("((a|b)*c{2,}[^]]\\", 0, 1),
    ("\\1(\\w+)\\s\\1€Ж+?", 1, 1),
]

HFLAG = dict(none=0, subt=ttx.C6_SUBTITLE, news=ttx.C5_NEWSFLASH, supp=ttx.C7_SUPPRESS, inhibit=ttx.C10_INHIBIT)

# caption encoding tables (EIA-608), as in checks/c08.py
MISC = dict(RCL=0x20, BS=0x21, DER=0x24, FON=0x28, RDC=0x29, TR=0x2A, RTD=0x2B, EDM=0x2C, CR=0x2D, ENM=0x2E, EOC=0x2F)
PACROW = {0: (1, 0), 1: (1, 1), 2: (2, 0), 3: (2, 1), 4: (5, 0), 5: (5, 1), 6: (6, 0), 7: (6, 1), 8: (7, 0), 9: (7, 1), 10: (0, 0),
          11: (3, 0), 12: (3, 1), 13: (4, 0), 14: (4, 1)}


def par(b):
    return ttx.par8(b)


def hx(bs):
    return "".join("%02x" % (b & 255) for b in bs)


def trip(addr, mode, data):
    return ttx.ham24((addr & 0x3F) | ((mode & 0x1F) << 6) | ((data & 0x7F) << 11))


class Conc:
    """concretiser for one history"""

    def __init__(self, seed, mode, station_packets):
        self.seed = seed
        self.serial = (mode == "serial")
        self.sp = station_packets          # {(carrier, val): hex}
        self.seen = []                     # page numbers sent so far
        self.open = {}                     # magazine -> page number of its last header
        self.valid = []                    # library of valid lines (id, line, bytes) for bit flipping

    def rnd(self, i, salt=0):
        return random.Random((self.seed * 1000003 + i) * 131 + salt)

    # ---------------------------------------------------------------- Teletext
    def ctrl(self, erase, fl="none"):
        return (ttx.C4_ERASE if erase else 0) | (ttx.C11_SERIAL if self.serial else 0) | HFLAG.get(fl, 0)

    def ham_row(self, m, pk, nibbles):
        return ttx.mrag(m, pk) + [ttx.ham8(n & 15) for n in nibbles[:40]]

    def toplink(self, pgno, sub=0, fn=0):
        return [pgno >> 8, (pgno >> 4) & 15, pgno & 15, (sub >> 12) & 15, (sub >> 8) & 15, (sub >> 4) & 15, sub & 15, fn]

    def row_packet(self, r, m, grp, cid, pg):
        """one packet of row group grp (1..6) for the page pg in transmission (0: none known)"""
        kind = KIND.get(pg, "lop")
        hostile = cid == 3
        extreme = cid == 2
        if kind in ("lop", "hex"):
            pk = {1: 1, 2: r.randrange(2, 9), 3: r.randrange(9, 17), 4: r.randrange(17, 24), 5: 24, 6: 25}[grp]
            if hostile:
                return ttx.mrag(m, pk) + [r.randrange(256) for _ in range(40)]
            txt = r.choice(["  ZVBI VERIF A A Aa  see page 150 or 1AB ", " www.example.org/x?y=1  mail a(at)b.cd  ", "\x0d\x1d\x07DOUBLE\x0c\x1c 100-200 >>> 101/2    ",
                            "\x11\x7f\x7f\x7f\x19\x7f\x1e\x7f\x7f hold \x1f \x08flash\x09 \x18conceal  ", "http://a.b.c  ftp://x.y  news:q  888  199"])
            codes = [ord(c) & 0x7F for c in txt.ljust(40)[:40]]
            if extreme:
                codes = [r.choice([0x0D, 0x0E, 0x0F, 0x0B, 0x0A, 0x1B, 0x7F, 0x1C, 0x1D, 0x00, 0x20]) if r.random() < 0.5 else c for c in codes]
            return ttx.row(m, pk, codes)
        if kind == "mot":
            if grp <= 2:       # rows 1..8 / 9..14: two nibbles per page (object link index, DRCS link index)
                pk = (1 if cid == 1 else r.randrange(1, 9)) if grp == 1 else r.randrange(9, 15)
                nib = [r.randrange(16) for _ in range(40)] if (hostile or extreme) else [1, 1] * 20
                return self.ham_row(m, pk, nib)
            if grp in (3, 5):  # object links, level 2.5 (19, 20) / 3.5 (22, 23)
                pk = r.choice([19, 20] if grp == 3 else [22, 23])
                nib = []
                for k in range(4):
                    tgt = GPOP if (pk in (19, 22) and k == 0) else POP
                    if extreme:
                        nib += [r.randrange(16) for _ in range(10)]
                    else:
                        nib += [tgt >> 8, (tgt >> 4) & 15, tgt & 15, 1, r.choice([1, 0, 2, 6, 8]), 1 | (2 << 2), 0, 0, 1, 0]
                if hostile:
                    return ttx.mrag(m, pk) + [r.randrange(256) for _ in range(40)]
                return self.ham_row(m, pk, nib)
            pk = 21 if grp == 4 else 24     # DRCS links
            nib = []
            for k in range(8):
                tgt = GDRCS if k == 0 else DRCS
                nib += [r.randrange(16) for _ in range(4)] if extreme else [tgt >> 8, (tgt >> 4) & 15, tgt & 15, 2]
            nib += [0] * 8
            if hostile:
                return ttx.mrag(m, pk) + [r.randrange(256) for _ in range(40)]
            return self.ham_row(m, pk, nib)
        if kind == "pop":
            if grp <= 2:       # pointer rows 1..4: designation nibble + 13 triplets
                pk = 1 if cid == 1 else r.randrange(1, 5)
                dc = 1 if pk <= 2 else r.choice([1, 0])
                body = [ttx.ham8(dc)]
                for k in range(13):
                    if hostile:
                        body += [r.randrange(256) for _ in range(3)]
                    elif extreme:
                        body += ttx.ham24(r.choice([506, 511, 0x1FF, 507, 0]) | (r.choice([506, 511, 12, 0]) << 9))
                    else:
                        body += ttx.ham24([0, 4, 8][(k - 1) % 3] | ([0, 4, 8][(k - 1) % 3] << 9))
                return ttx.mrag(m, pk) + body
            pk = 3 if cid == 1 else r.randrange(3, 26)
            return ttx.mrag(m, pk) + [ttx.ham8(0)] + self.triplets(r, 13, cid, obj=True)
        if kind == "drcs":
            pk = {1: 1, 2: 2, 3: r.randrange(3, 13), 4: r.randrange(13, 25), 5: 24, 6: r.randrange(1, 25)}[grp]
            if hostile:
                return ttx.mrag(m, pk) + [r.randrange(256) for _ in range(40)]
            if extreme:
                return ttx.mrag(m, pk) + [par(r.choice([0x40, 0x7F, 0x3F, 0x20])) for _ in range(40)]
            return ttx.mrag(m, pk) + [par(0x40 | r.randrange(64)) for _ in range(40)]
        if kind == "btt":
            if grp <= 4:
                pk = r.randrange(1, 21)
                nib = [r.randrange(16) for _ in range(40)] if (hostile or extreme) else [r.choice([8, 9, 1, 2, 4, 6, 0]) for _ in range(40)]
                return self.ham_row(m, pk, nib)
            pk = r.choice([21, 22, 23])
            nib = []
            for k in range(5):
                if extreme:
                    nib += [r.randrange(16) for _ in range(8)]
                else:
                    nib += self.toplink([AIT, MPT, AIT, 0x8FF, 0x100][k], 0, [2, 1, 2, 3, 0][k])
            if hostile:
                return ttx.mrag(m, pk) + [r.randrange(256) for _ in range(40)]
            return self.ham_row(m, pk, nib)
        if kind == "ait":
            pk = r.randrange(1, 24)
            out = ttx.mrag(m, pk)
            for k in range(2):
                tgt = r.choice([0x100, 0x101, 0x150, 0x200, 0x8FF, 0x0FF]) if not extreme else r.randrange(0x1000)
                out += [ttx.ham8(n) for n in self.toplink(tgt & 0xFFF, r.choice([0, 1, 0x3F7F]), r.randrange(16))]
                out += [par(ord(c)) for c in r.choice(["Nachrichten  ", "Sport \x00\x01\x7f    ", "            ", "ABCDEFGHIJKLM"])[:12]]
            if hostile:
                return ttx.mrag(m, pk) + [r.randrange(256) for _ in range(40)]
            return out
        if kind == "mpt":
            pk = r.randrange(1, 24)
            nib = [r.randrange(16) for _ in range(40)] if (hostile or extreme) else [r.randrange(10) for _ in range(40)]
            return self.ham_row(m, pk, nib)
        if kind == "mip":
            pk = r.randrange(1, 15) if grp <= 4 else r.randrange(15, 26)
            if hostile:
                return ttx.mrag(m, pk) + [r.randrange(256) for _ in range(40)]
            codes = [r.choice([0x01, 0x02, 0x70, 0x50, 0xE5, 0xE6, 0xE8, 0xEC, 0xF8, 0x7B, 0xD0, 0xE0, 0xFE, 0xFF, 0x00, 0x81]) if not extreme
                     else r.randrange(256) for _ in range(20)]
            nib = []
            for c in codes:
                nib += [c & 15, c >> 4]
            return self.ham_row(m, pk, nib)
        if kind == "trig":
            pk = r.randrange(1, 24)
            txt = r.choice(["<http://zapping.sf.net>[n:Zapping][e:20301231T235959][s:1f3][5450]", "<lid://a/b>[name:x][t:p][v:1][expires:20000101]",
                            "<http://" + "a" * 30, "[[[[<>]]]]<<<a>[n:" + "N" * 20, "<x>[e:99999999T999999][s:][n:][????][CHK]          "])
            if extreme:
                txt = "".join(r.choice("<>[]:/.aT0129") for _ in range(40))
            if hostile:
                return ttx.mrag(m, pk) + [r.randrange(256) for _ in range(40)]
            return ttx.row(m, pk, [ord(c) & 0x7F for c in txt.ljust(40)[:40]])
        return ttx.row(m, 1, [0x20] * 40)

    # a coherent Level 2.5 enhancement: active position, DRCS mode, normal and global DRCS character, G2 / G0 characters,
    # POP and GPOP object invocations, full row colour, diacritical mark, termination marker (only in the last packet)
    # (an invocation that cannot be resolved makes the formatter drop the whole enhancement: DRCS and objects on different pages)
    TYP = [(41, 0x04, 0), (48, 0x18, 0x40), (10, 0x0D, 0x40 | 3), (11, 0x0D, 2), (5, 0x0F, 0x41), (42, 0x04, 0), (12, 0x0D, 0x40 | 0), (13, 0x0D, 0x40 | 1),
           (43, 0x01, 4), (3, 0x09, 0x5B), (20, 0x13, 0x61), (44, 0x07, 2), (63, 0x1F, 0x7F)]
    TYPOBJ = [(41, 0x04, 0), (5, 0x0F, 0x41), (42, 0x04, 0), (48, 0x11, 0), (43, 0x04, 0), (56, 0x12, 0), (44, 0x04, 2), (48, 0x13, 0),
              (45, 0x01, 4), (3, 0x09, 0x5B), (20, 0x13, 0x61), (46, 0x07, 2), (63, 0x1F, 0x7F)]
    # an object page: object definitions (active, adaptive, passive) each followed by content
    OBJ = [(40, 0x15, 0), (41, 0x04, 0), (6, 0x09, 0x4F), (63, 0x1F, 0x7F), (40, 0x16, 0), (7, 0x0F, 0x42), (8, 0x09, 0x51), (63, 0x1F, 0x7F),
           (40, 0x17, 0), (9, 0x09, 0x50), (12, 0x03, 0x20), (48, 0x12, 0x10), (63, 0x1F, 0x7F)]

    def triplets(self, r, n, cid, obj=False, good=13, last=False, odd=False):
        """n enhancement triplets (3 bytes each); the triplet at index `good` is uncorrectable"""
        typical = self.OBJ if obj else (self.TYPOBJ if odd else self.TYP)
        out = []
        for k in range(n):
            if k == good:
                out += [0xFF, 0x00, 0xFF] if r.random() < 0.5 else [r.randrange(256) ^ 0x55, 0x01, 0x02]
            elif cid == 1:
                t = typical[k % len(typical)]
                if t[1] == 0x1F and not (last or obj):
                    t = (45, 0x04, 1)
                out += trip(*t)
            elif cid == 2:
                a, mo, d = r.choice(typical)
                out += trip(r.choice([a, 63, 40, 39, 0, 62, 48, 56, 41]), r.choice([mo, 0x0D, 0x11, 0x12, 0x13, 0x15, 0x16, 0x17, 0x18]),
                            r.choice([d, 0x7F, 0x3F, 47, 48, 0x40 | 47, 0x70, 0x60]))
            else:
                out += ttx.ham24(r.randrange(1 << 18))
        return out

    def x26(self, r, m, dc, good, cid):
        return ttx.mrag(m, 26) + [ttx.ham8(dc)] + self.triplets(r, 13, cid, good=good, last=(dc == 15), odd=bool(self.open.get(m & 7, 0) & 1))

    def link6(self, pgno, sub, mag):
        m = ((pgno >> 8) & 7) ^ (mag & 7)
        return [ttx.ham8(pgno & 15), ttx.ham8((pgno >> 4) & 15), ttx.ham8(sub & 15), ttx.ham8(((sub >> 4) & 7) | ((m & 1) << 3)),
                ttx.ham8((sub >> 8) & 15), ttx.ham8(((sub >> 12) & 3) | (((m >> 1) & 1) << 2) | (((m >> 2) & 1) << 3))]

    def ext(self, r, m, packet, dc, cid):
        pk = ttx.mrag(m, packet) + [ttx.ham8(dc)]
        if packet == 27 and dc <= 3:
            for k in range(6):
                tgt = r.choice([0x100, 0x101, 0x150, 0x200, 0x1AB, 0x8FF, 0x1FF]) if cid != 3 else r.randrange(0x100, 0x900)
                pk += self.link6(tgt, r.choice([ANY, 0, 1, 0x3F7E]), m)
            pk += [ttx.ham8(r.choice([0x0F, 0x07, 0x00])), r.randrange(256), r.randrange(256)]
            return pk
        if packet == 27 and cid == 1:
            # X/27/4: links to GPOP, POP, GDRCS, DRCS (function in the two lsb), magazine relative
            for k, tgt in enumerate([GPOP, POP, GDRCS, DRCS, 0x1FF, 0x1FF]):
                mm = ((tgt >> 8) & 7) ^ (m & 7)
                t1 = (k & 3) | ((tgt & 15) << 7) | (mm << 12) | (((tgt >> 4) & 7) << 15)
                pk += ttx.ham24(t1) + ttx.ham24((r.choice([0xFFFF, 1, 3]) << 3) & 0x3FFFF)
            return (pk + [0] * 42)[:42]
        # X/28, M/29 and other designations: 13 triplets; typical = page function LOP / default coding, extreme = random valid triplets
        for k in range(13):
            if cid == 1 and k == 0:
                pk += ttx.ham24(0)                     # function 0 (LOP), coding 0
            elif cid == 3 and r.random() < 0.2:
                pk += [r.randrange(256) for _ in range(3)]
            else:
                pk += ttx.ham24(r.randrange(1 << 18) if cid != 1 else r.choice([0, 0x3FFFF, 0x155, 0x20000]))
        return pk[:42]

    # ---------------------------------------------------------------- caption
    def cc_ctrl(self, r, c, code):
        k = code["k"]
        f = 1 if c <= 2 else 2
        chbit = 8 if c in (2, 4) else 0
        fbit = 1 if f == 2 else 0
        if k in MISC:
            b = (0x14 | chbit | fbit, MISC[k])
        elif k == "RU":
            b = (0x14 | chbit | fbit, 0x25 + code["n"] - 2)
        elif k == "TO":
            b = (0x17 | chbit, 0x20 + code["n"])
        elif k == "OPT":
            b = (0x17 | chbit, r.choice([0x2D, 0x2E, 0x2F]))
        elif k == "MID":
            b = (0x11 | chbit, 0x20 | r.randrange(16))
        elif k == "SPC":
            b = (0x11 | chbit, 0x30 | r.randrange(16))
        elif k == "BGA":
            b = (0x10 | chbit, 0x20 | r.randrange(16))
        elif k == "EXT":
            b = (r.choice([0x12, 0x13]) | chbit, 0x20 | r.randrange(32))
        elif k == "PAC":
            hi, lo = PACROW[code["row"]]
            if code["indent"]:
                c2 = 0x40 | (lo << 5) | 0x10 | ((code["indent"] // 4) << 1) | r.randrange(2)
            else:
                c2 = 0x40 | (lo << 5) | (r.randrange(8) << 1) | r.randrange(2)
            b = (0x10 | chbit | hi, c2)
        else:
            raise ValueError(k)
        return f, [par(b[0]), par(b[1])]

    # ---------------------------------------------------------------- arbitrary lines
    def arbitrary(self, r, kind):
        """-> (id, line, bytes)"""
        ids = dict(ttx=(ID_TTX, 7, 42), cc1=(ID_CC1, 21, 2), cc2=(ID_CC2, 284, 2), vps=(ID_VPS, 16, 13), wss=(ID_WSS, 23, 2), cpr=(ID_CPR, 20, 3))
        if kind == "foreign":
            sid = r.choice([0, 0x2000, 0x4000, 0x8000, 0x100, 0x200, 0x80, 0x1000, 0x10000, 0x20000, 0x20000000, 0x40000000, 0x80000000])
            return sid, r.choice([0, 7, 21, 284, 335, 16, 23, 9999]), [r.randrange(256) for _ in range(56)]
        if kind == "mixed":
            sid = r.choice([ID_TTX | ID_VPS, ID_CC1 | ID_CC2 | 0x18, 0x18, 0x08, 0x10, ID_WSS | ID_CPR, 0xFFFFFFFF, 0x1, 0x2, ID_VPS | 0x1000])
            return sid, r.choice([0, 22, 335, 284, 21, 7, 318, 23, 0xFFFFFFFF]), [r.randrange(256) for _ in range(56)]
        sid, line, n = ids[kind]
        how = r.choice(["random", "flip", "zero", "ones", "valid-extreme"])
        pool = [v for v in self.valid if v[0] == sid]
        if how == "flip" and pool:
            _, line, bs = r.choice(pool)
            bs = list(bs)
            for _ in range(r.choice([1, 1, 2, 3])):
                bs[r.randrange(len(bs))] ^= 1 << r.randrange(8)
            return sid, line, bs
        if how == "zero":
            return sid, line, [0] * n
        if how == "ones":
            return sid, line, [0xFF] * n
        if how == "valid-extreme":
            if kind == "ttx":
                m, pk = r.randrange(1, 9), r.choice([0, 0, 26, 27, 28, 29, 30, 31, 25, 1])
                if pk == 0:     # header: hex page numbers, subcode 3F7F, all control bits
                    pg = (m << 8) | r.choice([0xFF, 0xFE, 0xFD, 0xF0, 0xAB, 0xE7, 0x00, 0x99, 0x9A, 0x5B, 0x5C])
                    bs = ttx.header(pg, r.choice([0x3F7F, 0, 0x3F7E, 0x2359, 0x0001]), r.randrange(256), national=r.randrange(8))
                    return sid, line, bs
                if pk in (26, 28, 29):
                    return sid, line, ttx.mrag(m, pk) + [ttx.ham8(r.randrange(16))] + sum((ttx.ham24(r.randrange(1 << 18)) for _ in range(13)), [])
                if pk >= 30:
                    return sid, line, ttx.mrag(m, pk) + [ttx.ham8(r.randrange(16)) for _ in range(40)]
                return sid, line, ttx.mrag(m, pk) + [ttx.ham8(r.randrange(16)) for _ in range(40)]
            if kind in ("cc1", "cc2"):
                c1 = r.choice([r.randrange(1, 0x10), r.randrange(0x10, 0x20), r.randrange(0x20, 0x80)])
                return sid, r.choice([line, line, 22, 335]), [par(c1), par(r.randrange(128))]
            if kind == "cpr":
                return sid, line, [r.randrange(256), r.randrange(256), r.randrange(256)]
        return sid, line, [r.randrange(256) for _ in range(n)]

    # ---------------------------------------------------------------- history -> script
    def lines_of(self, i, act):
        """sliced lines (id, line, bytes) of one line action"""
        r = self.rnd(i)
        a = act["a"]
        out = None
        if a == "TtxHeader":
            self.seen.append((act["pg"], act["sub"]))
            self.open[(act["pg"] >> 8) & 7] = act["pg"]
            out = (ID_TTX, 7, ttx.header(act["pg"], act["sub"], self.ctrl(act["erase"], act["fl"]), national=act["nat"]))
        elif a == "TtxSameHeader":
            out = (ID_TTX, 7, ttx.header(act["pg"], act["sub"], self.ctrl(r.random() < 0.5)))
        elif a == "TtxFiller":
            out = (ID_TTX, 7, ttx.header(((act["m"] & 7) << 8) | 0xFF, 0x3F7F, self.ctrl(False)))
        elif a == "TtxRow":
            out = (ID_TTX, 7, self.row_packet(r, act["m"], act["r"], act["c"], act["pg"]))
        elif a == "TtxRowBad":
            pk = self.row_packet(r, act["m"], act["r"], 1, 0)
            if act["kind"] == "rpar":
                pk[2 + r.randrange(40)] ^= 0x80
            else:
                pk[0] ^= 0x03          # two bit errors in the magazine / row address
            out = (ID_TTX, 7, pk)
        elif a == "TtxFlof":
            out = (ID_TTX, 7, self.ext(r, act["m"], 27, 0, 1))
        elif a == "TtxHeaderBad":
            pk = ttx.header(act["pg"], 0, self.ctrl(False))
            if act["what"] == "page":
                pk[2] ^= 0x03
            else:
                pk[r.choice([4, 5, 6, 7, 8, 9])] ^= 0x03
            out = (ID_TTX, 7, pk)
        elif a == "X26":
            n = act["n"]
            dc = act["dc"] if act["dc"] >= 0 else (min(n // 13, 15) if n >= 0 else 0)
            out = (ID_TTX, 7, self.x26(r, act["m"], dc, act["good"], r.choice([1, 1, 2, 3])))
        elif a == "Ext":
            out = (ID_TTX, 7, self.ext(r, act["m"], act["packet"], act["dc"], r.choice([1, 1, 2, 3])))
        elif a == "Station":
            bs = bytes.fromhex(self.sp[(act["c"], act["v"])])
            out = (ID_VPS, 16, list(bs)) if act["c"] == "vps" else (ID_TTX, 7, list(bs))
        elif a == "Wss":
            out = (ID_WSS, 23, list(dict(x=(0x08, 0x00), y=(0x07, 0x06), bad=(0x0F, 0x00))[act["w"]]))
        elif a == "WssCpr":
            out = (ID_CPR, 20, [0x00, 0x00, 0x00] if act["k"] == 0 else [0xC3, 0x5A, 0x7F])
        elif a == "CcCtrl":
            f, bs = self.cc_ctrl(r, act["c"], act["code"])
            out = (ID_CC1 if f == 1 else ID_CC2, 21 if f == 1 else 284, bs)
        elif a == "CcText":
            f = act["f"]
            out = (ID_CC1 if f == 1 else ID_CC2, 21 if f == 1 else 284, [par(act["c1"]), par(act["c2"]) if act["c2"] else 0x80])
        elif a == "CcNull":
            f = act["f"]
            out = (ID_CC1 if f == 1 else ID_CC2, 21 if f == 1 else 284, [0x80, 0x80])
        elif a in ("XdsStart", "XdsCont"):
            c1 = 2 * act["cls"] + (1 if a == "XdsStart" else 2)
            out = (ID_CC2, 284, [par(c1), par(act["typ"])])
        elif a == "XdsEnd":
            out = (ID_CC2, 284, [par(0x0F), par(act["c"] & 0x7F)])
        elif a == "XdsError":
            out = (ID_CC2, 284, [par(act["b1"]) ^ 0x80, par(act["b2"])])
        elif a == "Arbitrary":
            return [self.arbitrary(r, act["kind"])]
        else:
            raise ValueError(a)
        if len(self.valid) < 200:
            self.valid.append(out)
        return [out]

    def call_of(self, i, act):
        """driver command(s) of a read side / control action -> (list of lines, expectation dict or None)"""
        r = self.rnd(i, 7)
        a = act["a"]
        if a == "Fetch":
            pg, sub, exp = act["pg"], act["sub"], act.get("ok")
            if self.seen and r.random() < 0.3:        # every page number seen, incl. hex pages and subpages
                pg, sub = r.choice(self.seen)
                sub = r.choice([sub, ANY])
                exp = None
            rows = r.choice([25, 25, 25, 24, 1, 2])
            return ["F %x %x %x %x %x" % (pg, sub, act["lv"], rows, 1 if act["nav"] else 0)], exp
        if a == "FetchCc":
            return ["C %x %x" % (act["ch"], r.randrange(2))], None
        if a == "Unref":
            return ["U"], None
        if a == "Links":
            return ["K"], None
        if a == "Print":
            return ["P"], None
        if a == "Export":
            return ["E %s" % act["arg"]], None
        if a == "Render":
            return ["W %d" % act["arg"]], None
        if a == "Classify":
            return ["Y %x" % act["pg"]], None
        if a == "Title":
            return ["T %x %x" % (act["pg"], act["sub"])], None
        if a == "SearchNew":
            txt, cf, re_ = PATTERNS[act["pat"] % len(PATTERNS)]
            return ["S %x %x %x %x %s" % (act["pg"], act["sub"], cf, re_, ",".join("%x" % ord(c) for c in txt))], None
        if a == "SearchNext":
            return ["N %d" % act["dir"]], None
        if a == "SearchDelete":
            return ["Q"], None
        if a == "ChannelSwitched":
            return ["H"], None
        if a == "SetLevel":
            return ["V %d" % act["lv"]], None
        if a == "SetRegion":
            return ["Z %d" % act["r"]], None
        if a in ("Register", "Unregister"):
            mask = sum(1 << EV.index(t) for t in act["mask"])
            if a == "Unregister":
                return ["g %x %x" % (act["fn"], act["ud"])], None
            return ["G %x %x %x" % (act["fn"], act["ud"], mask)], None
        if a in ("StartProg", "Finish"):
            return [], None
        raise ValueError(a)


def compile_history(beh, seed, station_packets, audit=True, repeats=5):
    """-> (script lines, checks).  checks: list of (index of the answer among the driver's outputs, kind, expectation)."""
    cz = Conc(seed, beh.get("mode", "parallel"), station_packets)
    # what uninitialised stack / page buffer memory looks like in this behaviour (digits, letters, '/', 00, FF ...)
    script, checks = ["R %x" % random.Random(seed).choice([0x00, 0xFF, 0x31, 0x61, 0x2F, 0xA5, 0x40, 0x2E])], []
    nout = 0              # number of answers so far (the reset answer is consumed by the runner)
    frame, fdt = None, 0
    frames = []           # all frame commands, for the plateau phase

    def emit(cmd, kind=None, exp=None):
        nonlocal nout
        script.append(cmd)
        if kind:
            checks.append((nout, kind, exp))
        nout += 1

    def flush(exp):
        nonlocal frame
        cmd = "D %x %x" % (fdt, len(frame)) + "".join(" %x %x %s" % (sid & 0xFFFFFFFF, ln & 0xFFFFFFFF, hx(bs)) for sid, ln, bs in frame)
        frames.append(cmd)
        emit(cmd, "frame", None)
        if audit:
            emit("L", "cache", exp)
        frame = None

    for i, st in enumerate(beh["steps"]):
        act = st["act"]
        a = act["a"]
        if a == "BeginFrame":
            frame, fdt = [], DT[act["dt"]]
        elif a == "EndFrame":
            if frame is not None:
                flush(st["exp"])
        elif a == "Finish":
            if frame is not None:
                flush(None)
        elif frame is not None and a not in ("StartProg",):
            frame += cz.lines_of(i, act)
        else:
            cmds, exp = cz.call_of(i, act)
            for c in cmds:
                emit(c, "fetch" if a == "Fetch" else "call", exp if a == "Fetch" else None)
    if frame is not None:
        flush(None)
    # allocation plateau: the same transmission cycle again and again
    emit("U", "call")
    emit("M", "alloc0")
    for k in range(repeats):
        for c in frames:
            emit(c, None)
        emit("M", "alloc")
    if audit and repeats:
        emit("L", "final")
    emit("X", "del")
    return script, checks
