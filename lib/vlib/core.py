"""Check framework: context, violations, known-findings matching, evidence, exit codes.

Exit codes of bin/check:  0 held (possibly with KNOWN-FINDING lines) / 1 VIOLATION / 2 tool failure
"""
import os, sys, json, time, re, hashlib, tempfile, shutil, subprocess, traceback

VERIF = os.path.dirname(os.path.dirname(os.path.dirname(os.path.abspath(__file__))))
# VERIF_EVIDENCE_DIR: runs against scratch trees (bin/seedstatus) write their evidence and replays elsewhere
EVID = os.environ.get("VERIF_EVIDENCE_DIR") or os.path.join(VERIF, "evidence")
REPLAYS = os.path.join(EVID, "replays")


class Violation:
    def __init__(self, stage, key, detail="", replay=None):
        self.stage = stage      # e.g. "mc", "replay", "tv", "asan"
        self.key = key          # signature, matched against known-findings.json
        self.detail = detail
        self.replay = replay    # dict written to the replay file


class Ctx:
    def __init__(self, pid, tier, seed):
        self.pid = pid
        self.tier = tier
        self.seed = seed
        self.t0 = time.time()
        self.violations = []
        self.cov = dict(states=0, transitions=0, traces_validated_against_impl=0, samples=[],
                        evaluations=0, distinct_nontrivial=0, rule="", exhaustive=False,
                        checker_cmd="", mc_runs=[], actions_cover={})
        self.assumptions = []
        self._distinct = set()
        self.scratch = tempfile.mkdtemp(prefix="verif-%s-" % pid)
        self.level = "model_checking"
        self.notes = []

    # -------- measured counters
    def add_mc(self, r, label=""):
        """account an exhaustive/simulation TLC run"""
        self.cov["states"] += r.distinct
        self.cov["transitions"] += r.generated
        self.cov["mc_runs"].append(dict(run=label, distinct=r.distinct, generated=r.generated,
                                        depth=r.depth, wall_s=round(r.wall, 1), cmd=r.cmd))
        if r.coverage:
            self.cov["actions_cover"][label] = {k: v for k, v in r.coverage.items()}
        if not self.cov["checker_cmd"]:
            self.cov["checker_cmd"] = r.cmd

    def count_case(self, canon, nontrivial=True):
        """one evaluated case; `canon` any hashable/serialisable canonical form"""
        self.cov["evaluations"] += 1
        if nontrivial:
            h = hashlib.sha1(json.dumps(canon, sort_keys=True, default=str).encode()).digest()[:10]
            self._distinct.add(h)

    def validated(self, n=1):
        self.cov["traces_validated_against_impl"] += n

    def sample(self, s):
        if len(self.cov["samples"]) < 3:
            self.cov["samples"].append(s)

    def violate(self, stage, key, detail="", replay=None):
        self.violations.append(Violation(stage, key, detail, replay))

    def cleanup(self):
        shutil.rmtree(self.scratch, ignore_errors=True)


def load_findings():
    p = os.path.join(VERIF, "known-findings.json")
    if not os.path.exists(p):
        return []
    return json.load(open(p)).get("findings", [])


def match_finding(pid, v, findings):
    for f in findings:
        if f.get("property") != pid or f.get("status") != "known":
            continue
        if "key" in f and f["key"] == v.key:
            return f
        if "key_regex" in f and re.search(f["key_regex"], v.key):
            return f
    return None


def write_evidence(ctx, nviol):
    os.makedirs(EVID, exist_ok=True)
    cov = dict(ctx.cov)
    cov["distinct_nontrivial"] = len(ctx._distinct)
    if not cov["samples"]:
        cov["samples"] = ["(no sample recorded)"]
    ev = dict(property_id=ctx.pid, tier=ctx.tier, seed=ctx.seed, level=ctx.level, coverage=cov,
              assumptions=ctx.assumptions, wall_s=round(time.time() - ctx.t0, 2), violations=nviol)
    if ctx.notes:
        ev["notes"] = ctx.notes
    tmp = os.path.join(EVID, ".%s.json.tmp" % ctx.pid)
    json.dump(ev, open(tmp, "w"), indent=1, default=str)
    os.replace(tmp, os.path.join(EVID, ctx.pid + ".json"))


def finish(ctx):
    """report violations; returns exit code"""
    findings = load_findings()
    new = []
    seen_known = {}
    for v in ctx.violations:
        f = match_finding(ctx.pid, v, findings)
        if f:
            seen_known.setdefault(f.get("id", f.get("key", f.get("key_regex"))), f)
        else:
            new.append(v)
    for f in seen_known.values():
        print("KNOWN-FINDING: property=%s %s" % (ctx.pid, f.get("what", f.get("key", ""))))
    os.makedirs(REPLAYS, exist_ok=True)
    reported = set()
    n = 0
    for v in new:
        if v.key in reported:
            continue
        reported.add(v.key)
        n += 1
        path = os.path.join(REPLAYS, "%s-%s-%d-%d.json" % (ctx.pid, ctx.tier, ctx.seed, n))
        json.dump(dict(property=ctx.pid, stage=v.stage, key=v.key, detail=v.detail, seed=ctx.seed,
                       replay=v.replay), open(path, "w"), indent=1, default=str)
        print("VIOLATION property=%s replay=%s" % (ctx.pid, path))
        print("  stage=%s key=%s" % (v.stage, v.key))
        if v.detail:
            print("  " + str(v.detail)[:1500].replace("\n", "\n  "))
        if n >= 10:
            print("  ... (%d further distinct violations suppressed)" % (len(set(x.key for x in new)) - n))
            break
    write_evidence(ctx, len(set(x.key for x in new)))
    return 1 if new else 0


def run_driver(cmd, stdin_text=None, timeout=120, env=None, cwd=None):
    """Run an instrumented driver. Returns (rc, stdout, stderr, timed_out)."""
    try:
        p = subprocess.run(cmd, input=stdin_text, capture_output=True, text=True, timeout=timeout,
                           env=env, cwd=cwd, errors="replace")
        return p.returncode, p.stdout, p.stderr, False
    except subprocess.TimeoutExpired as ex:
        out = ex.stdout.decode(errors="replace") if isinstance(ex.stdout, bytes) else (ex.stdout or "")
        err = ex.stderr.decode(errors="replace") if isinstance(ex.stderr, bytes) else (ex.stderr or "")
        return -9, out, err, True


_SAN = re.compile(r"(ERROR: AddressSanitizer: ([\w-]+)|ERROR: LeakSanitizer: (detected memory leaks)|"
                  r"runtime error: ([^\n]+)|WARNING: ThreadSanitizer: ([\w -]+?) \()")


# Deliberate first-row indexing of 2-D arrays: the access stays inside the enclosing array object
# (DESIGN.md 8.3).  (source file, function, type fragment)
BOUNDS_ALLOW = [("teletext.c", "vbi_format_vt_page", "uint8_t[40]"),
                ("packet.c", "parse_mot", "ttx_pop_link"),
                ("packet.c", "parse_mot", "uint8_t[8]"),
                ("packet.c", "parse_mot", "unsigned char[8]")]


def sanitizer_reports(stderr, allow=BOUNDS_ALLOW):
    """Extract sanitizer findings as (kind, function, file:line) signatures from stderr."""
    out = []
    lines = stderr.split("\n")
    for i, ln in enumerate(lines):
        m = _SAN.search(ln)
        if not m:
            continue
        if m.group(2):
            kind = "asan:" + m.group(2)
        elif m.group(3):
            kind = "lsan:leak"
        elif m.group(4):
            msg = re.sub(r"0x[0-9a-f]+", "ADDR", m.group(4))
            msg = re.sub(r"-?\d+", "N", msg)
            kind = "ubsan:" + msg[:80]
        else:
            kind = "tsan:" + m.group(5).strip()
        # first frame inside /repo
        where = ""
        mm = re.match(r"^(\S+?):(\d+):(\d+): runtime error", ln)
        if mm:
            where = os.path.basename(mm.group(1)) + ":" + mm.group(2)
        fn = ""
        for j in range(i + 1, min(i + 40, len(lines))):
            m2 = re.search(r"#\d+ 0x[0-9a-f]+ in (\S+) (" + re.escape(os.environ.get("VERIF_REPO", "/repo")) + r"/\S+?):(\d+)", lines[j])
            if m2:
                fn = m2.group(1)
                if not where:
                    where = os.path.basename(m2.group(2)) + ":" + m2.group(3)
                break
        if kind.startswith("ubsan:index") and any(a[0] in where and a[1] == fn and a[2] in ln for a in allow):
            continue
        out.append((kind, fn or "?", where))
    return out


def report_sanitizers(ctx, stderr, replay=None, in_scope=True, limit=5):
    """Sanitizer reports are violations for the properties with a memory-safety clause
    (C01 C05 C07 C09 C10 C11 C19 C20); elsewhere they are only noted (they belong to C01)."""
    n = 0
    for (kind, fn, where) in sanitizer_reports(stderr):
        key = "%s:%s" % (kind, fn)
        if in_scope:
            i = stderr.find(where) if where else -1
            ctx.violate("sanitizer", key, stderr[max(0, i - 200):i + 2500] if i >= 0 else stderr[-2500:], replay)
        else:
            note = "sanitizer report outside this property's statement (see C01): %s at %s" % (key, where)
            if note not in ctx.notes:
                ctx.notes.append(note)
        n += 1
        if n >= limit:
            break
    return n


def pmap(fn, items, workers=16):
    """parallel map over threads (the work is done in subprocesses)"""
    import concurrent.futures as cf
    with cf.ThreadPoolExecutor(workers) as ex:
        return list(ex.map(fn, items))


def run_seq_driver(cmd, seqs, timeout=600, env=None, max_restarts=8, own_reset=False):
    """Drive a line-protocol executor over many independent sequences in one process.
    seqs: list of lists of command lines (the leading "R" is added here).  The driver must print
    one line {"reset":...} for every R.  Returns a list (one entry per sequence) of
    dict(lines=[parsed json], crashed=bool, stderr=str, rc=int).  When the process dies inside
    sequence j the remaining sequences are run in a fresh process (at most max_restarts times)."""
    out = [None] * len(seqs)
    first = 0
    restarts = 0
    while first < len(seqs):
        text = []
        for s in seqs[first:]:
            if not own_reset:
                text.append("R")     # with own_reset the sequence starts with its own "R ..." line
            text += s
        rc, so, se, to = run_driver(cmd, "\n".join(text) + "\n", timeout=timeout, env=env)
        segs = []
        for ln in so.split("\n"):
            if not ln.startswith("{"):
                continue
            try:
                o = json.loads(ln)
            except ValueError:
                continue
            if "reset" in o:
                segs.append([])
            elif segs:
                segs[-1].append(o)
        died = (rc != 0) or to
        n_done = len(segs)
        for j, sg in enumerate(segs):
            last = (j == n_done - 1)
            out[first + j] = dict(lines=sg, crashed=bool(died and last), stderr=se if (died and last) else "", rc=rc, timeout=to)
        if not died:
            # leak reports etc. arrive at exit with rc 0 only if exitcode is 0; attach stderr to the last one
            if se and out[first + n_done - 1] is not None:
                out[first + n_done - 1]["stderr"] = se
            break
        if n_done == 0:
            out[first] = dict(lines=[], crashed=True, stderr=se, rc=rc, timeout=to)
            n_done = 1
        first += n_done
        restarts += 1
        if restarts > max_restarts:
            for j in range(first, len(seqs)):
                out[j] = dict(lines=[], crashed=False, stderr="", rc=None, timeout=False, skipped=True)
            break
    for j in range(len(seqs)):
        if out[j] is None:
            out[j] = dict(lines=[], crashed=False, stderr="", rc=None, timeout=False, skipped=True)
    return out
