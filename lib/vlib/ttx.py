"""Teletext transmission coding written from EN 300 706 section 8 (Hamming 8/4, odd parity, Hamming 24/18)
and EN 300 708 (IDL format A CRC, PFC).  Encoding side only - used by the checks to build real packets."""


def ham8(d):
    """Hamming 8/4: bits (lsb first) P1 D1 P2 D2 P3 D3 P4 D4"""
    d1, d2, d3, d4 = d & 1, (d >> 1) & 1, (d >> 2) & 1, (d >> 3) & 1
    p1 = 1 ^ d1 ^ d3 ^ d4
    p2 = 1 ^ d1 ^ d2 ^ d4
    p3 = 1 ^ d1 ^ d2 ^ d3
    p4 = 1 ^ p1 ^ d1 ^ p2 ^ d2 ^ p3 ^ d3 ^ d4
    return p1 | d1 << 1 | p2 << 2 | d2 << 3 | p3 << 4 | d3 << 5 | p4 << 6 | d4 << 7


def par8(c):
    c &= 0x7F
    return c | (0x80 if bin(c).count("1") % 2 == 0 else 0)


def ham24(v):
    """Hamming 24/18 (EN 300 706 8.3): 18 data bits D1..D18 -> 3 bytes, lsb first:
    P1 P2 D1 P3 D2 D3 D4 P4 | D5..D11 P5 | D12..D18 P6"""
    D = [(v >> i) & 1 for i in range(18)]
    bits = [0] * 24            # index 0 = bit 1
    pos = [2, 4, 5, 6] + list(range(8, 15)) + list(range(16, 23))
    for i, p in enumerate(pos):
        bits[p] = D[i]
    for k, pp in enumerate([0, 1, 3, 7, 15]):
        mask = pp + 1
        x = 1
        for i in range(23):
            if (i + 1) & mask and i != pp:
                x ^= bits[i]
        bits[pp] = x
    x = 1
    for i in range(23):
        x ^= bits[i]
    bits[23] = x
    out = 0
    for i, b in enumerate(bits):
        out |= b << i
    return [out & 0xFF, (out >> 8) & 0xFF, (out >> 16) & 0xFF]


def mrag(mag, packet):
    """magazine 1..8, packet 0..31 -> two Hamming bytes"""
    m = mag & 7
    return [ham8(m | ((packet & 1) << 3)), ham8(packet >> 1)]


def crc_idl_a(data, crc=0):
    """EN 300 708 6.5.7.2: generator x^16 + x^9 + x^7 + x^4 + 1, bits processed lsb first"""
    for b in data:
        for i in range(8):
            bit = ((b >> i) ^ crc) & 1
            crc >>= 1
            if bit:
                crc ^= 0x8940
    return crc


# ---------------------------------------------------------------- page transmission (EN 300 706 9.3)
C4_ERASE, C5_NEWSFLASH, C6_SUBTITLE, C7_SUPPRESS, C8_UPDATE, C9_INTERRUPT, C10_INHIBIT, C11_SERIAL = (1 << i for i in range(8))
HEADER_TEXT = " XXX ZVBI VERIF TEXT    12:00:00"


def header(pgno, subno=0, ctrl=0, national=0, text=None):
    """page header packet X/0.  pgno 0x100..0x8FF, ctrl: or of C4_..C11_, national: C12 C13 C14 as a number (C12 = msb)"""
    mag = (pgno >> 8) & 7
    pk = mrag(mag if mag else 8, 0)
    pk += [ham8(pgno & 15), ham8((pgno >> 4) & 15)]
    pk += [ham8(subno & 15), ham8(((subno >> 4) & 7) | (8 if ctrl & C4_ERASE else 0)),
           ham8((subno >> 8) & 15), ham8(((subno >> 12) & 3) | (4 if ctrl & C5_NEWSFLASH else 0) | (8 if ctrl & C6_SUBTITLE else 0))]
    c7_10 = (1 if ctrl & C7_SUPPRESS else 0) | (2 if ctrl & C8_UPDATE else 0) | (4 if ctrl & C9_INTERRUPT else 0) | (8 if ctrl & C10_INHIBIT else 0)
    c11_14 = (1 if ctrl & C11_SERIAL else 0) | (2 if national & 4 else 0) | (4 if national & 2 else 0) | (8 if national & 1 else 0)
    pk += [ham8(c7_10), ham8(c11_14)]
    txt = list(text if text else HEADER_TEXT)
    if not text:
        txt[1:4] = "%X%X%X" % (pgno >> 8, (pgno >> 4) & 15, pgno & 15)
    pk += [par8(ord(c)) for c in txt[:32]]
    return pk


def row(mag, r, codes):
    """text row packet X/1..X/25: 40 seven-bit codes"""
    return mrag(mag, r) + [par8(c) for c in codes]


def filler_header(mag):
    """time filling header (page number FF) terminates nothing by itself but is the usual page terminator"""
    return header(((mag & 7) << 8) | 0xFF, 0x3F7F, 0)


def hexpk(pk):
    return "".join("%02x" % b for b in pk)
