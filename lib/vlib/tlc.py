"""TLC wrappers: exhaustive model checking (MC), behaviour generation (GEN), trace validation (TV)."""
import os, re, subprocess, tempfile, shutil, json, time

VERIF = os.path.dirname(os.path.dirname(os.path.dirname(os.path.abspath(__file__))))
SPEC = os.path.join(VERIF, "spec")
JAR = "/opt/veriftools/tla/tla2tools.jar:/opt/veriftools/tla/CommunityModules-deps.jar"


class ToolFailure(Exception):
    """TLC could not decide (parse error, JVM crash, timeout): exit code 2, never a VIOLATION."""


class TlcResult:
    def __init__(self):
        self.ok = False            # completed without error
        self.generated = 0
        self.distinct = 0
        self.depth = 0
        self.violation = None      # dict(kind=..., name=..., text=...)
        self.coverage = {}         # action -> [taken, generated]
        self.out = ""
        self.tr = []               # parsed "TR" payloads
        self.n_tr = 0              # number of "TR" lines printed by TLC
        self.wall = 0.0
        self.cmd = ""


def _java(heap, dfs=False):
    cmd = ["java", "-XX:+UseParallelGC", "-Xmx" + heap, "-Xss16m"]
    if dfs:
        cmd.append("-Dtlc2.tool.queue.IStateQueue=StateDeque")
    cmd += ["-cp", JAR, "tlc2.TLC"]
    return cmd


_TR = re.compile(r'^<<"TR", "(.*)">>$')


def _unescape(s):
    return s.replace('\\"', '"').replace("\\\\", "\\")


def run(module, cfg=None, timeout=600, workers=16, coverage=False, heap="8g", env=None,
        simulate=None, depth=None, seed=None, deadlock=None, dfs=False, collect_tr=False,
        extra=None, max_tr=None, sample_tr=None, cwd=None, on_tr=None):
    """Run TLC on spec/<module>.tla with spec/<cfg>.cfg.
    on_tr (optional): called with every collected behaviour instead of appending it to res.tr (streaming; TLC waits while
    the callback runs)."""
    res = TlcResult()
    meta = tempfile.mkdtemp(prefix="tlc-meta-")
    jv = _java(heap, dfs)
    jv.insert(1, "-Djava.io.tmpdir=" + meta)      # TLC's own scratch directories vanish with the metadir
    cmd = jv + ["-metadir", meta, "-workers", str(workers), "-noGenerateSpecTE"]
    if cfg:
        cmd += ["-config", cfg if cfg.endswith(".cfg") else cfg + ".cfg"]
    if coverage:
        cmd += ["-coverage", "1"]
    if simulate is not None:
        cmd += ["-simulate", "num=%d" % simulate]
    if depth is not None:
        cmd += ["-depth", str(depth)]
    if seed is not None:
        cmd += ["-seed", str(seed)]
    if deadlock is False:
        cmd += ["-deadlock"]
    if extra:
        cmd += extra
    cmd += [module if module.endswith(".tla") else module + ".tla"]
    e = dict(os.environ)
    if env:
        e.update({k: str(v) for k, v in env.items()})
    res.cmd = " ".join(cmd[cmd.index("tlc2.TLC"):])
    t0 = time.time()
    # TLC's output is read as a stream: generator runs print one TR line per behaviour (gigabytes in the thorough tiers);
    # only the sampled behaviours and the other lines are kept.
    import threading
    keep = []
    timed_out = []
    try:
        errf = open(os.path.join(meta, "stderr.txt"), "w+")
        p = subprocess.Popen(cmd, cwd=cwd or SPEC, env=e, stdout=subprocess.PIPE, stderr=errf, text=True, bufsize=1 << 20)

        def _kill():
            timed_out.append(1)
            try:
                p.kill()
            except Exception:
                pass
        wd = threading.Timer(timeout, _kill)
        wd.daemon = True
        wd.start()
        try:
            for ln in p.stdout:
                ln = ln.rstrip("\n")
                if collect_tr and ln.startswith("<<\"TR\""):
                    m = _TR.match(ln)
                    if m:
                        res.n_tr += 1
                        # sample_tr = (k, offset): keep every k-th behaviour (TLC prints in BFS order, a prefix is not representative)
                        if (sample_tr is None or res.n_tr % sample_tr[0] == sample_tr[1] % sample_tr[0]) and \
                                (max_tr is None or len(res.tr) < max_tr):
                            if on_tr is not None:
                                on_tr(json.loads(_unescape(m.group(1))))
                            else:
                                res.tr.append(json.loads(_unescape(m.group(1))))
                        continue
                keep.append(ln)
            p.wait()
        finally:
            wd.cancel()
            if p.poll() is None:
                p.kill()
                p.wait()
            try:
                errf.seek(0)
                res.stderr = errf.read()[-4000:]
                errf.close()
            except Exception:
                res.stderr = ""
    finally:
        shutil.rmtree(meta, ignore_errors=True)
    if timed_out:
        raise ToolFailure("TLC timeout after %ds: %s" % (timeout, res.cmd))
    res.wall = time.time() - t0
    text = "\n".join(keep)
    res.out = text
    m = None
    for m in re.finditer(r"(\d+) states generated(?: \([^)]*\))?, (\d+) distinct states found", text):
        pass
    if m:
        res.generated, res.distinct = int(m.group(1)), int(m.group(2))
    m = re.search(r"depth of the complete state graph search is (\d+)", text)
    if m:
        res.depth = int(m.group(1))
    for m in re.finditer(r"^<(\w+) line \d+, col \d+ to line \d+, col \d+ of module (\w+)>: (\d+):(\d+)", text, re.M):
        a = m.group(1)
        c = res.coverage.setdefault(a, [0, 0])
        c[0] += int(m.group(3)); c[1] += int(m.group(4))
    if simulate is not None:
        m = re.search(r"generated (\d+) traces", text)
    # classify
    if re.search(r"Parsing or semantic analysis failed|Error: .*(parse|Unknown operator|could not be)|java\.lang\.(OutOfMemory|StackOverflow)", text) \
            or "TLC threw an unexpected exception" in text and "evaluat" not in text:
        raise ToolFailure("TLC failure:\n" + text[-3000:])
    viol = None
    m = re.search(r"Error: Invariant (\S+) is violated", text)
    if m:
        viol = dict(kind="invariant", name=m.group(1))
    if not viol:
        m = re.search(r"Error: Action property (\S+)(?: line [^\n]*)? is violated", text)
        if m:
            viol = dict(kind="action-property", name=m.group(1))
    if not viol and "Temporal properties were violated" in text:
        viol = dict(kind="temporal", name="liveness")
    if not viol and re.search(r"Error: Deadlock reached", text):
        viol = dict(kind="deadlock", name="deadlock")
    if not viol:
        m = re.search(r"Error: (?:Evaluating )?[Pp]ost ?condition (\S+)?", text) or \
            (re.search(r"POSTCONDITION|postcondition", text) and re.search(r"Error:", text))
        if m and re.search(r"(?i)post\s?condition", text) and "Error:" in text:
            viol = dict(kind="postcondition", name="TraceAccepted")
    if not viol and re.search(r"Error: Evaluating assert|Assertion failed|The first argument of Assert evaluated to FALSE", text):
        viol = dict(kind="assert", name="Assert")
    if viol:
        i = text.find("Error:")
        viol["text"] = text[i:i + 6000]
        res.violation = viol
    elif "Error:" in text:
        raise ToolFailure("TLC error:\n" + text[text.find("Error:"):][:3000])
    elif simulate is None and "Model checking completed. No error has been found." not in text:
        raise ToolFailure("TLC did not complete:\n" + text[-2000:] + "\n" + getattr(res, "stderr", "")[-1500:])
    res.ok = viol is None
    return res


def sany(module):
    tmp = tempfile.mkdtemp(prefix="sany-")
    cmd = ["java", "-Djava.io.tmpdir=" + tmp, "-cp", JAR, "tla2sany.SANY", module if module.endswith(".tla") else module + ".tla"]
    try:
        p = subprocess.run(cmd, cwd=SPEC, capture_output=True, text=True, timeout=120)
    finally:
        shutil.rmtree(tmp, ignore_errors=True)
    bad = p.returncode != 0 or "rror" in p.stdout and "Semantic errors" in p.stdout or "Could not parse" in p.stdout \
        or "*** Errors" in p.stdout or "Fatal errors" in p.stdout
    return (not bad), p.stdout


def validate_trace(module, cfg, tracefile, timeout=600, heap="4g", env=None, dfs=False, explain=True):
    """Trace validation: accepted iff the whole log is a behaviour of the trace spec.
    Returns (accepted: bool, info: TlcResult). Invariant violations inside the trace spec count
    as rejection too (res.violation says which).  On a rejection the run is repeated with deadlock
    checking so that the last matched state can be shown next to the rejected log line
    (res.last_state, res.reject_line)."""
    e = {"TRACEFILE": tracefile}
    if env:
        e.update(env)
    r = run(module, cfg, timeout=timeout, workers=1, heap=heap, env=e, deadlock=False, dfs=dfs)
    m = re.search(r'"TV-REJECT", (\d+), (\d+)', r.out)
    r.reject_at = int(m.group(1)) if m else None
    r.last_state = ""
    r.reject_line = ""
    if not r.ok and r.reject_at and explain:
        try:
            r.reject_line = open(tracefile).read().split("\n")[r.reject_at - 1]
        except Exception:
            pass
        try:
            c = open(os.path.join(SPEC, cfg if cfg.endswith(".cfg") else cfg + ".cfg")).read()
            c = re.sub(r"POSTCONDITION\s+\S+", "", c)
            c = re.sub(r"CHECK_DEADLOCK\s+FALSE", "CHECK_DEADLOCK TRUE", c)
            tmpcfg = os.path.join(SPEC, "_explain_%d.cfg" % os.getpid())
            open(tmpcfg, "w").write(c)
            try:
                r2 = run(module, os.path.basename(tmpcfg), timeout=timeout, workers=1, heap=heap, env=e)
                t = r2.violation["text"] if r2.violation else ""
                i = t.rfind("\nState ")
                r.last_state = t[i:i + 6000] if i >= 0 else ""
            finally:
                os.remove(tmpcfg)
        except Exception as ex:
            r.last_state = "(no explanation: %s)" % ex
    return r.ok, r
