"""Helpers shared by the DVB checks (C06 multiplexer, C07 demultiplexer): command scripts for
harness/drv_dvb.c, frame generators, stream damage.  No expectations live here: expected values come
from TLC (spec/DvbStream.tla, DvbDemux.tla, DvbMux.tla and their trace specs)."""
import json, random
from vlib import build, core

TTX, VPS, WSS, CC, RAW = 3, 4, 1024, 8, 0x20000000
PAYLEN = {TTX: 42, 1: 42, 2: 42, VPS: 13, WSS: 2, CC: 2, 24: 2}


def hexs(b):
    return "".join("%02x" % x for x in b)


def rnd_payload(rnd, sid, alphabet=None):
    """payload bytes of a sliced line; the values avoid 0x00/0x80 so that no byte of a data unit can
    complete a forged 00 00 01 start code (a transmitter cannot rule that out, a test stream can)"""
    n = PAYLEN[sid]
    vals = alphabet or [b for b in range(2, 256) if b not in (0x80, 0x40, 0x01, 0x47, 0xE2)]     # 0x47 / rev8(0x47): no forged TS sync byte
    d = [rnd.choice(vals) for _ in range(n)]
    if sid == WSS:
        d[1] &= 0x3F
        if d[1] == 0:
            d[1] = 5
    return d


def rnd_frame(rnd, max_ttx=6, first_lines=(7, 7, 7, 8, 10), allow0=False, fields=2):
    """lines of one 625-line frame in transmission order: Teletext on 7..22 / 320..335 (or line 0), VPS 16,
    Caption 21, WSS 23"""
    lines = {}
    if allow0 and rnd.random() < 0.15:
        return [dict(line=0, id=TTX, data=rnd_payload(rnd, TTX)) for _ in range(rnd.randint(1, 3))]
    n = rnd.randint(1, max_ttx)
    lo = rnd.choice(first_lines)
    cand = list(range(lo, 23)) + (list(range(320, 336)) if fields == 2 else [])
    for ln in sorted(rnd.sample(cand, min(n, len(cand)))):
        lines[ln] = TTX
    lines[lo] = TTX
    if rnd.random() < 0.5:
        lines[16] = VPS
    if rnd.random() < 0.3:
        lines[21] = CC
    out = [dict(line=ln, id=lines[ln], data=rnd_payload(rnd, lines[ln])) for ln in sorted(lines)]
    if rnd.random() < 0.4:
        out = [x for x in out if x["line"] < 23 or x["line"] > 23]
        out.append(dict(line=23, id=WSS, data=rnd_payload(rnd, WSS)))
        out.sort(key=lambda x: x["line"])
    return out


def frame_cmds(frame):
    cmds = []
    for ln in frame:
        if ln["id"] == RAW:
            cmds.append("W %d" % ln["line"])
        else:
            cmds.append("L %d %d %s" % (ln["line"], ln["id"], hexs(ln["data"])))
    return cmds


def mux_script(cfg, frames, reset_before=()):
    """cfg = dict(ts, pid, did, min, max, iface='cb'|'cor', bufs=[..]); frames = [(lines, (hi, lo))]"""
    s = ["M %s %d %s %d %d %d" % ("ts" if cfg["ts"] else "pes", cfg.get("pid", 0), cfg.get("iface", "cb"),
                                 cfg["did"], cfg["min"], cfg["max"])]
    if "raw" in cfg:
        s.append("P %d %d" % tuple(cfg["raw"]))
    for i, (lines, pts) in enumerate(frames):
        if i in reset_before:
            s.append("X")
        s += frame_cmds(lines)
        if cfg.get("iface", "cb") == "cb":
            s.append("E %d %d" % pts)
        else:
            s.append("K %d %d %s" % (pts[0], pts[1], " ".join(str(b) for b in cfg.get("bufs", [4096]))))
    return s


def run_scripts(drv, scripts, timeout=900, workers=16):
    """run independent command scripts in parallel driver processes; returns per script the dict of
    core.run_seq_driver"""
    if not scripts:
        return []
    chunks = [list(range(k, len(scripts), workers)) for k in range(workers)]

    def job(idx):
        return (idx, core.run_seq_driver([drv], [scripts[i] for i in idx], env=build.san_env(), timeout=timeout)) if idx else (idx, [])
    out = [None] * len(scripts)
    for idx, res in core.pmap(job, chunks, workers=workers):
        for j, i in enumerate(idx):
            out[i] = res[j]
    return out


def mux_bytes(res_lines):
    """bytes emitted per 'send'/'csend' line of a mux script (list of byte lists), None where rejected"""
    out = []
    for o in res_lines:
        if o.get("a") == "send":
            out.append([b for pk in o["pk"] for b in pk] if o["ok"] else None)
        elif o.get("a") == "csend":
            out.append(list(o["out"]) if o["ok"] else None)
    return out


def real_stream(drv, cfg, frames):
    """byte stream of the real multiplexer for the frames (all must be accepted)"""
    r = core.run_seq_driver([drv], [mux_script(cfg, frames)], env=build.san_env())[0]
    bs = mux_bytes(r["lines"])
    if r["crashed"] or any(b is None for b in bs) or len(bs) != len(frames):
        raise RuntimeError("multiplexer did not accept the generated frames: %s %s" % (r["stderr"][-500:], r["lines"][-1:]))
    return bs


def sent_frame(lines, pts):
    """a frame as given to the multiplexer (the trace specs normalise ids / reserved bits themselves)"""
    return dict(pts=list(pts), lines=[dict(line=l["line"], id=l["id"], data=list(l["data"])) for l in lines if l["id"] != RAW])


# ---------------------------------------------------------------- C07: frame sequences and damage
def rnd_frames(rnd, n, max_ttx=5, line0=0.0, first_lines=(7, 7, 8, 10, 12, 15)):
    """n frames whose boundaries a receiver can recognise: the first line of a frame is not above the last
    line of its predecessor (EN 301 775 4.1: lines ascend within a frame).  line0: probability of an extra
    Teletext line with undefined line number behind the first line.  Returns [(lines, (pts_hi, pts_lo))]"""
    out = []
    base = rnd.randrange(1 << 20)
    while len(out) < n:
        fr = rnd_frame(rnd, max_ttx=max_ttx, first_lines=first_lines)
        if out and fr[0]["line"] > max(l["line"] for l in out[-1][0]):
            continue
        if line0 and rnd.random() < line0:
            fr.insert(1, dict(line=0, id=TTX, data=rnd_payload(rnd, TTX)))
        k = len(out)
        out.append((fr, ((base + k) % 8, (base * 3600 + 3600 * k) % (1 << 30))))
    return out


SAFE = [b for b in range(2, 256) if b not in (0x47, 0xBD)]      # overwriting with these forges no start code / sync byte


def damage(rnd, packets, d, kind, off, ln, ts):
    """packets: the byte lists the multiplexer emitted per frame (PES packet, or the TS packets of one PES
    packet).  Damage inside packets[d]: 'drop' ln bytes from offset off, 'over'write them, 'dup'licate the ln
    bytes before off, 'swap' two neighbouring TS packets (ts only).  Returns (stream, rec) where rec says
    whether the property's recovery clause applies with `frames after d, all but the first`: it does not
    when the damage makes the PES_packet_length field claim more than the packet that follows (a receiver
    has to trust that field) or removes more bytes than the shortest packet has."""
    a = sum(len(p) for p in packets[:d])
    e = a + len(packets[d])
    st = [b for p in packets for b in p]
    off = min(off, e - a - 1)
    p = a + off
    ln = max(1, min(ln, e - p))
    plen_at = (a + 4 + 4, a + 4 + 6) if ts else (a + 4, a + 6)       # PES_packet_length
    rec = True
    if kind == "drop":
        out = st[:p] + st[p + ln:]
        touched = (p, p + ln)
        if ln >= 184:
            rec = False
    elif kind == "over":
        out = st[:p] + [rnd.choice(SAFE) for _ in range(ln)] + st[p + ln:]
        touched = (p, p + ln)
    elif kind == "dup":
        src = st[max(a, p - ln):p]
        out = st[:p] + src + st[p:]
        touched = (p, p)
        if plen_at[0] - 4 < p < plen_at[1]:
            rec = False               # inserted between start code and PES_packet_length: the field reads other bytes
    elif kind == "swap":
        q = a + 188 * (off // 188)
        if q + 376 > e:
            q = a
        out = st[:q] + st[q + 188:q + 376] + st[q:q + 188] + st[q + 376:]
        touched = (q, q + 376)
    else:
        raise ValueError(kind)
    if touched[0] < plen_at[1] and touched[1] > plen_at[0]:
        rec = False
    return out, rec


def demux_script(stream, ts, pid, plan):
    """plan = (iface 'cb'|'cor', maxl, chunks, reset_after) -> driver commands; reset_after: number of leading
    chunks after which vbi_dvb_demux_reset() is called and the stream starts again"""
    iface, maxl, chunks, reset_after = plan
    cmd = "F " if iface == "cb" else "C "
    s = ["S " + hexs(stream), "O %s %s %d %d" % ("ts" if ts else "pes", iface, pid, maxl)]
    if reset_after:
        s.append(cmd + " ".join(map(str, chunks[:reset_after])))
        s.append("Z")
        chunks = chunks[reset_after:]
    s.append(cmd + " ".join(map(str, chunks)))
    return s


def rnd_partition(rnd, n, style):
    """chunk sizes summing to n"""
    out = []
    left = n
    while left > 0:
        if style == "tiny":
            k = rnd.randint(1, 4)
        elif style == "small":
            k = rnd.randint(1, 60)
        elif style == "packet":
            k = rnd.choice([183, 184, 185, 187, 188, 189, 46, 47, 48, 10, 9, 197, 196, 368])
        elif style == "mixed":
            k = rnd.choice([1, 1, 2, 3, 7, 45, 46, 47, 48, 49, 178, 184, 188, 200, 400, 1000])
        else:
            k = rnd.randint(1, max(1, n))
        k = min(k, left)
        out.append(k)
        left -= k
    return out


def sync_clean(b):
    """TS stream in which 0x47 occurs at packet starts only (a receiver finds packet boundaries by that byte)"""
    return all(i % 188 == 0 for i, x in enumerate(b) if x == 0x47)


def real_frames_stream(drv, rnd, cfg, n, **kw):
    """n recognisable frames and the packets the real multiplexer makes of them; TS streams are regenerated until
    no header / time stamp / length byte imitates a sync byte"""
    for _ in range(200):
        frames = rnd_frames(rnd, n, **kw)
        pk = real_stream(drv, cfg, frames)
        if not cfg["ts"] or sync_clean([x for p in pk for x in p]):
            return frames, pk
    raise RuntimeError("no sync-clean stream found")


# ---------------------------------------------------------------- C07 (round 2): transmitter pieces written from the standards
# (ISO/IEC 13818-1 2.4.3.2 transport packet, 2.4.3.6 PES packet; EN 300 472 4.2; EN 301 775 4.3 - 4.8).  They mirror the
# transmitter operators of spec/DvbStream.tla (TsPackets, EncPesU, Lofp, Stuffing); what a receiver must make of the
# bytes is decided by TLC (spec/DvbDemux.tla) alone.
REV8 = [int("{:08b}".format(b)[::-1], 2) for b in range(256)]
CC525F1, CC525F2, WSSCPR = 32, 64, 2048
PAYLEN.update({CC525F1: 2, CC525F2: 2, WSSCPR: 3})


def lofp625(line):
    """reserved '11', field_parity (1 = first field), line_offset; line 0 = undefined (EN 301 775 4.5.2)"""
    return 0xE0 if line == 0 else (0xE0 + line if line < 32 else 0xC0 + (line - 313))


def lofp525(line):
    """the same for the 525-line data units documented in src/dvb.h (second field begins at line 263)"""
    return 0xE0 + line if line < 32 else 0xC0 + (line - 263)


def unit_of(l, fixed=False):
    """one sliced line -> one data unit (data_unit_id, data_unit_length, bytes)"""
    sid, line, d = l["id"], l["line"], l["data"]
    if sid in (TTX, 1, 2):
        # an undefined line still tells its field (field_parity): "f2" = second field
        u = [0x02, 0x2C, 0xC0 if (line == 0 and l.get("f2")) else lofp625(line), 0xE4] + [REV8[x] for x in d[:42]]
    elif sid == VPS:
        u = [0xC3, 14, lofp625(line)] + list(d[:13])
    elif sid == WSS:
        u = [0xC4, 3, lofp625(line), REV8[d[0]], REV8[d[1]] | 3]
    elif sid in (CC, 24):
        u = [0xC5, 3, lofp625(line), REV8[d[0]], REV8[d[1]]]
    elif sid in (CC525F1, CC525F2):
        u = [0xB5, 3, lofp525(line), REV8[d[0]], REV8[d[1]]]
    elif sid == WSSCPR:
        u = [0xB4, 4, lofp525(line)] + list(d[:3])
    else:
        raise ValueError(sid)
    if fixed:
        u = [u[0], 0x2C] + u[2:] + [0xFF] * (46 - len(u))
    return u


def stuffing(n, fixed=False, lens=None):
    """n bytes of stuffing data units; lens: data_unit_length values to use first (any length is legal in the
    variable format, EN 301 775 4.4.2)"""
    out = []
    lens = list(lens or [])
    while n > 0:
        if fixed:
            k = 46
        elif lens and 2 + lens[0] <= n and n - (2 + lens[0]) != 1:
            k = 2 + lens.pop(0)
        else:
            k = 256 if n == 258 else min(n, 257)
        if k > n or k < 2:
            raise ValueError("cannot stuff %d bytes" % n)
        out += [0xFF, k - 2] + [0xFF] * (k - 2)
        n -= k
    return out


def pts_bytes(pts):
    hi, lo = pts
    return [0x21 + 2 * hi, lo >> 22, ((lo >> 15) & 0x7F) * 2 + 1, (lo >> 7) & 0xFF, (lo & 0x7F) * 2 + 1]


def enc_pes(units, pts, did=0x99, min_size=184, stuff_lens=None):
    """a VBI PES packet of the data units `units` (byte lists): 45 byte header with PTS, data_identifier, the units,
    stuffing up to the smallest N x 184 >= min_size"""
    body = [b for u in units for b in u]
    raw = 46 + len(body)
    size = max(min_size, raw + (-raw) % 184)
    if size - raw == 1:
        size += 184
    fill = stuffing(size - raw, 0x10 <= did <= 0x1F, stuff_lens)
    plen = size - 6
    return [0, 0, 1, 0xBD, plen >> 8, plen & 255, 0x84, 0x80, 0x24] + pts_bytes(pts) + [0xFF] * 31 + [did] + body + fill


def ts_header(pid, pusi, cc, afc=1, tei=0, tsc=0):
    return [0x47, (0x80 if tei else 0) | (0x40 if pusi else 0) | (pid >> 8), pid & 255, (tsc << 6) | (afc << 4) | (cc & 15)]


def ts_packetize(pes_packets, pid, cc0):
    """-> (packets, owner): 188 byte transport packets carrying the PES packets, continuity counters cc0, cc0 + 1 ...
    (mod 16); owner[k] = index of the PES packet that packet k belongs to"""
    out, owner = [], []
    cc = cc0
    for j, pes in enumerate(pes_packets):
        assert len(pes) % 184 == 0
        for i in range(0, len(pes), 184):
            out.append(ts_header(pid, i == 0, cc) + list(pes[i:i + 184]))
            owner.append(j)
            cc += 1
    return out, owner


def ts_other(rnd, pid, cc):
    """a packet of another PID with harmless payload"""
    return ts_header(pid, False, cc) + [rnd.choice(SAFE) for _ in range(184)]


def ts_null():
    return ts_header(0x1FFF, False, 0) + [0xFF] * 184


def ts_af_only(pid, cc):
    """adaptation field only (adaptation_field_control '10'): no payload, the counter does not advance (2.4.3.3)"""
    return ts_header(pid, False, cc, afc=2) + [183, 0] + [0xFF] * 182


def pes_of_mux(pk, ts):
    """PES packets (byte lists) from what the real multiplexer emitted per frame (TS: the packets of one frame)"""
    if not ts:
        return [list(p) for p in pk]
    return [[b for i in range(0, len(p), 188) for b in p[i + 4:i + 188]] for p in pk]
