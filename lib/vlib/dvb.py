"""Helpers shared by the DVB checks (C06 multiplexer, C07 demultiplexer): command scripts for
harness/drv_dvb.c, frame generators, stream damage.  No expectations live here: expected values come
from TLC (spec/DvbStream.tla, DvbDemux.tla, DvbMux.tla and their trace specs)."""
import json, random
from vlib import build, core

TTX, VPS, WSS, CC, RAW = 3, 4, 1024, 8, 0x20000000
PAYLEN = {TTX: 42, 1: 42, 2: 42, VPS: 13, WSS: 2, CC: 2, 24: 2}


def hexs(b):
    return "".join("%02x" % x for x in b)


def rnd_payload(rnd, sid, alphabet=None):
    """payload bytes of a sliced line; the values avoid 0x00/0x80 so that no byte of a data unit can
    complete a forged 00 00 01 start code (a transmitter cannot rule that out, a test stream can)"""
    n = PAYLEN[sid]
    vals = alphabet or [b for b in range(2, 256) if b not in (0x80, 0x40, 0x01)]
    d = [rnd.choice(vals) for _ in range(n)]
    if sid == WSS:
        d[1] &= 0x3F
        if d[1] == 0:
            d[1] = 5
    return d


def rnd_frame(rnd, max_ttx=6, first_lines=(7, 7, 7, 8, 10), allow0=False, fields=2):
    """lines of one 625-line frame in transmission order: Teletext on 7..22 / 320..335 (or line 0), VPS 16,
    Caption 21, WSS 23"""
    lines = {}
    if allow0 and rnd.random() < 0.15:
        return [dict(line=0, id=TTX, data=rnd_payload(rnd, TTX)) for _ in range(rnd.randint(1, 3))]
    n = rnd.randint(1, max_ttx)
    lo = rnd.choice(first_lines)
    cand = list(range(lo, 23)) + (list(range(320, 336)) if fields == 2 else [])
    for ln in sorted(rnd.sample(cand, min(n, len(cand)))):
        lines[ln] = TTX
    lines[lo] = TTX
    if rnd.random() < 0.5:
        lines[16] = VPS
    if rnd.random() < 0.3:
        lines[21] = CC
    out = [dict(line=ln, id=lines[ln], data=rnd_payload(rnd, lines[ln])) for ln in sorted(lines)]
    if rnd.random() < 0.4:
        out = [x for x in out if x["line"] < 23 or x["line"] > 23]
        out.append(dict(line=23, id=WSS, data=rnd_payload(rnd, WSS)))
        out.sort(key=lambda x: x["line"])
    return out


def frame_cmds(frame):
    cmds = []
    for ln in frame:
        if ln["id"] == RAW:
            cmds.append("W %d" % ln["line"])
        else:
            cmds.append("L %d %d %s" % (ln["line"], ln["id"], hexs(ln["data"])))
    return cmds


def mux_script(cfg, frames, reset_before=()):
    """cfg = dict(ts, pid, did, min, max, iface='cb'|'cor', bufs=[..]); frames = [(lines, (hi, lo))]"""
    s = ["M %s %d %s %d %d %d" % ("ts" if cfg["ts"] else "pes", cfg.get("pid", 0), cfg.get("iface", "cb"),
                                 cfg["did"], cfg["min"], cfg["max"])]
    if "raw" in cfg:
        s.append("P %d %d" % tuple(cfg["raw"]))
    for i, (lines, pts) in enumerate(frames):
        if i in reset_before:
            s.append("X")
        s += frame_cmds(lines)
        if cfg.get("iface", "cb") == "cb":
            s.append("E %d %d" % pts)
        else:
            s.append("K %d %d %s" % (pts[0], pts[1], " ".join(str(b) for b in cfg.get("bufs", [4096]))))
    return s


def run_scripts(drv, scripts, timeout=900, workers=16):
    """run independent command scripts in parallel driver processes; returns per script the dict of
    core.run_seq_driver"""
    if not scripts:
        return []
    chunks = [list(range(k, len(scripts), workers)) for k in range(workers)]

    def job(idx):
        return (idx, core.run_seq_driver([drv], [scripts[i] for i in idx], env=build.san_env(), timeout=timeout)) if idx else (idx, [])
    out = [None] * len(scripts)
    for idx, res in core.pmap(job, chunks, workers=workers):
        for j, i in enumerate(idx):
            out[i] = res[j]
    return out


def mux_bytes(res_lines):
    """bytes emitted per 'send'/'csend' line of a mux script (list of byte lists), None where rejected"""
    out = []
    for o in res_lines:
        if o.get("a") == "send":
            out.append([b for pk in o["pk"] for b in pk] if o["ok"] else None)
        elif o.get("a") == "csend":
            out.append(list(o["out"]) if o["ok"] else None)
    return out


def real_stream(drv, cfg, frames):
    """byte stream of the real multiplexer for the frames (all must be accepted)"""
    r = core.run_seq_driver([drv], [mux_script(cfg, frames)], env=build.san_env())[0]
    bs = mux_bytes(r["lines"])
    if r["crashed"] or any(b is None for b in bs) or len(bs) != len(frames):
        raise RuntimeError("multiplexer did not accept the generated frames: %s %s" % (r["stderr"][-500:], r["lines"][-1:]))
    return bs


def sent_frame(lines, pts):
    """a frame as given to the multiplexer (the trace specs normalise ids / reserved bits themselves)"""
    return dict(pts=list(pts), lines=[dict(line=l["line"], id=l["id"], data=list(l["data"])) for l in lines if l["id"] != RAW])
