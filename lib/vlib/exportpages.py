"""Transmissions for the C16 check (export / rendering): Teletext pages (Level 1 rows from a seeded library with every spacing
attribute incl. double width / double size, boxes, conceal, mosaics; packets X/26 with Level 1.5 / 2.5 / 3.5 enhancement
triplets; X/27/4 + a DRCS downloading page) and Closed Caption byte pairs.  Transmitter side only (EN 300 706 9.3 - 9.5,
12.3, 14; EIA-608): the pages under test are what the real decoder makes of them."""
from vlib import ttx

# (default region for vbi_teletext_set_default_region, national option bits C12..C14, text encodings worth trying)
CHARSETS = [
    (0, 0, ["ISO-8859-1", "ASCII"]), (0, 1, ["ISO-8859-1"]), (0, 4, ["ISO-8859-1", "ISO-8859-9"]), (0, 6, ["ISO-8859-2"]),
    (8, 0, ["ISO-8859-2"]), (24, 5, ["ISO-8859-2", "ISO-8859-4"]), (24, 7, ["ISO-8859-2"]), (16, 6, ["ISO-8859-9"]),
    (32, 0, ["ISO-8859-5", "KOI8-R"]), (32, 4, ["KOI8-R", "ISO-8859-5"]), (32, 5, ["KOI8-U"]), (48, 7, ["ISO-8859-7"]),
    (64, 7, ["ASCII"]), (80, 5, ["ISO-8859-8"]), (64, 4, ["ISO-8859-1"]),
]
TEXT_FORMATS = ["ASCII", "ISO-8859-1", "ISO-8859-2", "ISO-8859-4", "ISO-8859-5", "ISO-8859-7", "ISO-8859-8", "ISO-8859-9",
                "KOI8-R", "KOI8-U", "UTF-8"]          # the text module's `format` menu, in order

NATPOS = [0x23, 0x24, 0x40, 0x5B, 0x5C, 0x5D, 0x5E, 0x5F, 0x60, 0x7B, 0x7C, 0x7D, 0x7E, 0x7F]


def _text(rnd, n):
    out = []
    while len(out) < n:
        r = rnd.random()
        if r < 0.15:
            out.append(rnd.choice(NATPOS))
        elif r < 0.3:
            out.append(0x20)
        else:
            out.append(rnd.randrange(0x21, 0x7F))
    return out


def row_text(rnd):
    return _text(rnd, 40)


def row_attrs(rnd):
    """any spacing attribute anywhere"""
    p = rnd.choice([0.08, 0.2, 0.4])
    return [rnd.randrange(0, 0x20) if rnd.random() < p else c for c in _text(rnd, 40)]


def row_sizes(rnd):
    """double height / width / size runs, also at the left and right edge of the row"""
    row = _text(rnd, 40)
    for col in rnd.sample(range(0, 40), rnd.choice([2, 4, 8])):
        row[col] = rnd.choice([0x0C, 0x0D, 0x0E, 0x0F, 0x0E, 0x0F])
    if rnd.random() < 0.6:
        row[0] = rnd.choice([0x0E, 0x0F])
    if rnd.random() < 0.6:
        row[rnd.choice([36, 37, 38])] = rnd.choice([0x0E, 0x0F])
    return row


def row_mosaic(rnd):
    row = [rnd.choice([0x10 + rnd.randrange(8), 0x19, 0x1A, 0x1E, 0x1F, 0x1D, 0x18]) if rnd.random() < 0.15
           else rnd.choice([rnd.randrange(0x20, 0x40), rnd.randrange(0x60, 0x80), rnd.randrange(0x40, 0x60)]) for _ in range(40)]
    row[0] = 0x10 + rnd.randrange(1, 8)
    if rnd.random() < 0.4:
        row[rnd.randrange(1, 30)] = rnd.choice([0x0D, 0x0F, 0x0E])
    return row


def row_box(rnd):
    row = _text(rnd, 40)
    a = rnd.randrange(0, 20)
    b = rnd.randrange(a + 4, 38)
    row[a] = row[a + 1] = 0x0B
    row[b] = row[b + 1] = 0x0A
    if rnd.random() < 0.5:
        row[a + 2] = rnd.choice([0x0D, 0x0F, 0x0E, 0x08, 0x18])
    return row


ROWKINDS = [row_text, row_attrs, row_sizes, row_mosaic, row_box]


# ---------------------------------------------------------------- packets X/26, X/27/4, DRCS page
def triplet(address, mode, data):
    return ttx.ham24((address & 0x3F) | ((mode & 0x1F) << 6) | ((data & 0x7F) << 11))


TERMINATOR = (0x3F, 0x1F, 0x7F)


def x26_packets(mag, trips):
    """enhancement triplets -> packets X/26/0.. (13 triplets each), padded with termination markers"""
    out = []
    trips = list(trips) + [TERMINATOR]
    for dc in range((len(trips) + 12) // 13):
        part = trips[dc * 13:(dc + 1) * 13]
        part += [TERMINATOR] * (13 - len(part))
        pk = ttx.mrag(mag, 26) + [ttx.ham8(dc)]
        for t in part:
            pk += triplet(*t)
        assert len(pk) == 42
        out.append(pk)
    return out


def x27_4(mag, pgno_units_tens, function=3):
    """X/27/4: six links to the object / DRCS page of the own magazine (page number tens <= 7)"""
    pk = ttx.mrag(mag, 27) + [ttx.ham8(4)]
    tens, units = (pgno_units_tens >> 4) & 7, pgno_units_tens & 15
    for i in range(6):
        t1 = (function & 3) | (3 << 2) | (units << 7) | (1 << 11) | (tens << 15)        # relative magazine 0
        t2 = 0
        pk += ttx.ham24(t1) + ttx.ham24(t2)
    pk += [ttx.ham8(0), 0, 0]
    assert len(pk) == 42
    return pk


def drcs_page(rnd, pgno):
    """a DRCS downloading page: 24 rows of pattern transfer units (bit 6 set), 12 x 10 x 1 mode"""
    mag = (pgno >> 8) & 7
    pk = [ttx.header(pgno, 0, ttx.C4_ERASE)]
    for r in range(1, 25):
        pk.append(ttx.row(mag if mag else 8, r, [0x40 | rnd.randrange(0x40) for _ in range(40)]))
    return pk


def enhancement(rnd, level, rows, drcs):
    """random enhancement triplets in ascending row / column order"""
    trips = []
    if level >= 25 and rnd.random() < 0.5:
        trips.append((40 + rnd.randrange(1, 24), 0x00, rnd.randrange(32)))           # full screen colour
    if drcs:
        trips.append((40 + 1, 0x18, 0x40 | 0))                                       # DRCS mode: normal, subpage 0
    for r in sorted(rnd.sample(range(1, 24), rnd.choice([3, 6, 10]))):
        addr = 40 + r
        trips.append((addr, 0x04, 0) if rnd.random() < 0.7 else (addr, 0x01, rnd.randrange(32) | rnd.choice([0, 0x60])))
        for col in sorted(rnd.sample(range(0, 40), rnd.choice([1, 3, 6]))):
            k = rnd.random()
            if drcs and rnd.random() < 0.4:
                if rnd.random() < 0.4:
                    trips.append((col, 0x0C, rnd.choice([0x00, 0x01, 0x40, 0x41, 0x20, 0x04])))   # size / underline / conceal for the DRCS character
                trips.append((col, 0x0D, 0x40 | rnd.randrange(48)))                   # DRCS character, normal table
            elif k < 0.25:
                trips.append((col, 0x0F, rnd.randrange(0x20, 0x80)))                  # G2 character
            elif k < 0.45:
                trips.append((col, 0x10 + rnd.randrange(16), rnd.randrange(0x41, 0x7B)))   # G0 with diacritical mark
            elif k < 0.5:
                trips.append((col, 0x02, rnd.randrange(0x20, 0x80)))                  # G3 character, Level 1.5
            elif level < 25:
                trips.append((col, 0x09, rnd.randrange(0x20, 0x80)))                  # G0 character
            elif k < 0.6:
                trips.append((col, 0x00, rnd.randrange(32)))                          # foreground colour
            elif k < 0.7:
                trips.append((col, 0x03, rnd.randrange(32)))                          # background colour
            elif k < 0.82:
                trips.append((col, 0x0C, rnd.randrange(0x80) & 0x77))                 # display attributes (size, box, conceal, invert, underline)
            elif k < 0.87:
                trips.append((col, 0x0B, rnd.randrange(0x20, 0x80)))                  # G3 character, Level 2.5
            elif k < 0.9:
                trips.append((col, 0x07, rnd.randrange(0x20)))                        # additional flash functions
            else:
                trips.append((col, 0x0E, rnd.randrange(0x80)))                        # font style (Level 3.5)
    if level >= 25:
        # a double width / double size enhancement character in column 39 or 38 of a later row: the formatter clips it at column 40
        # and the 41st column copies the 40th (a wide cell in the page's last column).  Own generator: the stream of rnd is not touched.
        import random
        r2 = random.Random(sum((a * 31 + m) * 131 + dd for a, m, dd in trips) + 7 * len(trips))
        last = max([a - 40 for a, m, dd in trips if a > 40 and m in (0x01, 0x04)] + [0])
        if last < 23 and r2.random() < 0.6:
            r = r2.randrange(last + 1, 24)
            col = r2.choice([39, 39, 38])
            trips += [(40 + r, 0x04, 0), (col, 0x0C, r2.choice([0x40, 0x41, 0x40 | 0x04])), (col, 0x09, r2.randrange(0x41, 0x5B))]
    return trips


def teletext(rnd, k):
    """one transmission: commands for harness/drv_exportio.c that leave page 1xx in the cache"""
    region, nat, encs = CHARSETS[k % len(CHARSETS)] if rnd.random() < 0.7 else CHARSETS[0]
    flavour = rnd.choice(["plain", "plain", "sizes", "subtitle", "newsflash", "enh15", "enh25", "enh25", "enh35", "drcs"])
    pgno = 0x100 + rnd.choice([0x00, 0x23, 0x99])
    ctrl = ttx.C4_ERASE
    if flavour == "subtitle":
        ctrl |= ttx.C6_SUBTITLE
    if flavour == "newsflash":
        ctrl |= ttx.C5_NEWSFLASH
    if rnd.random() < 0.15:
        ctrl |= ttx.C7_SUPPRESS
    if rnd.random() < 0.1:
        ctrl |= ttx.C10_INHIBIT
    pk = []
    drcs = flavour == "drcs"
    if drcs:
        pk += drcs_page(rnd, 0x15F)
    pk.append(ttx.header(pgno, 0, ctrl, national=nat))
    kinds = {"plain": [row_text, row_attrs, row_mosaic], "sizes": [row_sizes, row_sizes, row_attrs],
             "subtitle": [row_box, row_box, row_sizes], "newsflash": [row_box, row_text]}.get(flavour, ROWKINDS)
    rows = sorted(rnd.sample(range(1, 25), rnd.choice([4, 10, 18, 24])))
    if 23 not in rows and rnd.random() < 0.5:
        rows.append(23)
    for r in rows:
        gen = rnd.choice(kinds)
        pk.append(ttx.row(1, r, gen(rnd)))
    level = {"enh15": 15, "enh25": 25, "enh35": 35, "drcs": 25}.get(flavour, rnd.choice([1, 15, 25]))
    if flavour in ("enh15", "enh25", "enh35", "drcs"):
        pk += x26_packets(1, enhancement(rnd, level, rows, drcs))
    if drcs:
        pk.append(x27_4(1, 0x5F))
    pk.append(ttx.filler_header(1))
    cmds = ["G %d" % region] + ["P " + ttx.hexpk(p) for p in pk]
    return dict(kind="vt", cmds=cmds, pgno=pgno, level=level, flavour=flavour, encodings=encs, region=region, national=nat)


# ---------------------------------------------------------------- caption
def caption_text(rnd, n):
    """extra printable pairs (basic characters incl. the ones EIA-608 maps to accented letters)"""
    out = []
    for _ in range(n):
        c1 = rnd.choice([rnd.randrange(0x20, 0x80), 0x2A, 0x5C, 0x5E, 0x5F, 0x60, 0x7B, 0x7C, 0x7D, 0x7E, 0x7F])
        c2 = rnd.choice([rnd.randrange(0x20, 0x80), 0x20])
        out.append((c1, c2))
    return out


# ---------------------------------------------------------------- edge pages (spec/MC_CanvasCells.tla, spec/Gen_CanvasCells.tla)
# A model page [rows, cols, fr, fc] stands for a real page: model row r < fr = real row r, r > fr = the real row at the same
# distance from the bottom, r = fr (the filler) = all rows between; columns alike.  Indices here: model 1-based, real 0-based.
def edge_real(x, n, m, f):
    """model index x (not the filler) of m with filler f -> real index of n"""
    assert x != f
    return x - 1 if x < f else n - 1 - (m - x)


def edge_filler(n, m, f):
    """the real indices the filler stands for: lo..hi"""
    return f - 1, n - 1 - (m - f)


def edge_span(rnd, a, w, n, m, f):
    """model span (first a, length w) -> a real span (first, length) whose edges lie in what the model's edges stand for.
    An edge in the filler may lie anywhere in the run: mostly next to the block on the far side of the span (small regions)."""
    b = a + w - 1
    lo, hi = edge_filler(n, m, f)
    near = lambda: rnd.choice([0, 0, 0, 1, 2, 3, rnd.randrange(hi - lo + 1)])
    if a == f and b == f:
        s = lo + rnd.randrange(hi - lo + 1)
        e = min(hi, s + rnd.choice([0, 0, 1, 2, rnd.randrange(hi - lo + 1)]))
    else:
        s = max(lo, hi - near()) if a == f else edge_real(a, n, m, f)
        e = min(hi, lo + near()) if b == f else edge_real(b, n, m, f)
    assert 0 <= s <= e < n
    return s, e - s + 1


def edge_text_rows(rnd):
    """Level 1 rows 1..24 of plain text (no attributes); column 0 is never a space (the 41st column then copies the 40th)"""
    rows = []
    for r in range(1, 25):
        codes = _text(rnd, 40)
        codes[0] = 0x41 + (r % 26)
        rows.append((r, codes))
    return rows


def edge_teletext(rnd, d, geo, att, rows_shown):
    """Transmission for the edge page descriptor d on a page fetched with rows_shown rows.  Returns (setup commands, fetch command).
    via copy / blank: the character is made by X/26 enhancement data (row address, display attributes, G0 character) and the real
    formatter; via edit: the fetched page is edited cell by cell (command E)."""
    m_rows, m_cols, fr, fc = geo["rows"], geo["cols"], geo["fr"], geo["fc"]
    pk = [ttx.header(0x100, 0, ttx.C4_ERASE)]
    rows = edge_text_rows(rnd)
    trips = []
    if d["via"] in ("copy", "blank"):
        rr = edge_real(d["r"], rows_shown, m_rows, fr)
        cc = edge_real(d["c"], 41, m_cols, fc)
        assert cc <= 39
        trips.append((0x3F, 0x07, 0) if rr == 0 else (40 + (rr % 24), 0x04, 0))     # address row 0 / set active position (row 24 = address 40)
        trips.append((cc, 0x0C, {1: 0x40, 2: 0x01, 3: 0x41}[d["k"]] | (0x04 if att & 1 else 0)))
        trips.append((cc, 0x09, 0x41 + rnd.randrange(26)))
        if d["via"] == "blank":
            # a mosaic character in column 39 of a filler row that does not continue the one in column 38: the 41st column is blank
            fl = edge_filler(rows_shown, m_rows, fr)[0]
            assert fl >= 1
            codes = rows[fl - 1][1]
            codes[37] = 0x17; codes[38] = 0x20; codes[39] = 0x7F
    for r, codes in rows:
        pk.append(ttx.row(1, r, codes))
    if trips:
        pk += x26_packets(1, trips)
    pk.append(ttx.filler_header(1))
    setup = ["G 0"] + ["P " + ttx.hexpk(p) for p in pk]
    if d["via"] in ("copy", "blank"):
        return setup, "F 100 3f7f 25 %d 0" % rows_shown
    setup.append("f 100 3f7f 25 %d 0" % rows_shown)
    return setup, None


def edge_edits(sz, geo, att, n_rows, n_cols):
    """command E: the sizes of the model page at the real cells its cells stand for"""
    m_rows, m_cols, fr, fc = geo["rows"], geo["cols"], geo["fr"], geo["fc"]
    out = []
    for r in range(1, m_rows + 1):
        for c in range(1, m_cols + 1):
            z = sz[(r - 1) * m_cols + (c - 1)]
            if z:
                assert r != fr and c != fc
                out.append("%d %d %d %d" % (edge_real(r, n_rows, m_rows, fr), edge_real(c, n_cols, m_cols, fc), z, att))
    return "E " + " ".join(out) if out else "E"
