"""Harness for the proxy daemon checks (C18, C19).

Daemon      the instrumented zvbid (build.build_daemon) on a private synthetic device sim:<fifo>[:thread];
            the harness owns the capture clock (tick = 4 byte frame number written to the FIFO) and reads the
            daemon's own action trace ($ZVBI_VERIF_TRACE_FD).  All waiting is done on trace events: a stimulus is
            followed by wait_quiet(), which returns when the daemon has logged the event that consumes the
            stimulus and then an "idle" line (about to block in select() with nothing ready).  Time-outs only
            fire on hangs.
LibClients  well-behaved clients through the real client library (harness/drv_proxycl.c).
RawClient   raw-socket client speaking the wire format of src/proxy-msg.h (layout read from the C headers by
            drv_proxycl), able to stall, to send partial / malformed messages and to disconnect at any byte.

Nothing here decides a property: the recorded daemon trace and client observations are validated by TLC.
"""
import os, sys, json, time, struct, socket, select, signal, subprocess, tempfile, shutil, threading, errno
from . import build

HANG = float(os.environ.get("VERIF_PROXY_HANG", "60"))      # seconds; only a hung daemon/client runs into it

# services of the synthetic device (daemon/proxyd.c verif_lines[]): id -> lines
VBI_SLICED_TELETEXT_B = 0x00000003
VBI_SLICED_VPS = 0x00000004
VBI_SLICED_CAPTION_625 = 0x00000018
VBI_SLICED_WSS_625 = 0x00000400
SIM_LINES = [(VBI_SLICED_TELETEXT_B, 7), (VBI_SLICED_TELETEXT_B, 8), (VBI_SLICED_VPS, 16),
             (VBI_SLICED_CAPTION_625, 22), (VBI_SLICED_WSS_625, 23)]
SIM_SERVICES = VBI_SLICED_TELETEXT_B | VBI_SLICED_VPS | VBI_SLICED_CAPTION_625 | VBI_SLICED_WSS_625

# message types (src/proxy-msg.h VBIPROXY_MSG_TYPE)
MSG = dict(CONNECT_REQ=0, CONNECT_CNF=1, CONNECT_REJ=2, CLOSE_REQ=3, SLICED_IND=4, SERVICE_REQ=5, SERVICE_CNF=6,
           SERVICE_REJ=7, CHN_TOKEN_REQ=8, CHN_TOKEN_CNF=9, CHN_TOKEN_IND=10, CHN_NOTIFY_REQ=11, CHN_NOTIFY_CNF=12,
           CHN_RECLAIM_REQ=13, CHN_RECLAIM_CNF=14, CHN_SUSPEND_REQ=15, CHN_SUSPEND_CNF=16, CHN_SUSPEND_REJ=17,
           CHN_IOCTL_REQ=18, CHN_IOCTL_CNF=19, CHN_IOCTL_REJ=20, CHN_CHANGE_IND=21, DAEMON_PID_REQ=22,
           DAEMON_PID_CNF=23)
MSG_NAME = {v: k for k, v in MSG.items()}
CHN_RELEASE, CHN_TOKEN, CHN_FLUSH, CHN_NORM, CHN_FAIL = 1, 2, 4, 8, 16
PRIO_BACKGROUND, PRIO_INTERACTIVE, PRIO_RECORD = 1, 2, 3


def sim_payload(frame, line, n=56):
    """payload of the synthetic device (the transmitter, daemon/proxyd.c verif_capture_read)"""
    return bytes(((frame * 31 + line * 7 + k) & 0xFF) for k in range(n))


class Hang(Exception):
    """the daemon or a client did not react within HANG seconds"""


class Overflow(Hang):
    """the daemon found no buffer for the next frame ("queue overflow": it stops reading the device and spins)"""


class DeviceClosed(Hang):
    """the daemon closed the capture file handle under its acquisition thread (the cancelled thread did not stop in
    time): the device stays open for the daemon but delivers nothing any more"""


class DaemonDied(Exception):
    pass


def _die_with_parent():
    """preexec_fn of the processes the harness starts: they get SIGKILL when the check process goes away, however
    that happens (a killed check must not leave a daemon behind)"""
    try:
        import ctypes
        ctypes.CDLL("libc.so.6", use_errno=True).prctl(1, signal.SIGKILL, 0, 0, 0)     # PR_SET_PDEATHSIG
    except Exception:
        pass


_LIVE = set()           # daemons not yet stopped: stopped at interpreter exit and on SIGTERM / SIGINT / SIGHUP


def _stop_all(*a):
    for d in list(_LIVE):
        try:
            d.stop(fast=True)
        except Exception:
            pass


def _on_signal(sig, frame):
    _stop_all()
    raise SystemExit(128 + sig)         # unwinds the main thread: the finally blocks of the check remove its scratch files


import atexit
atexit.register(_stop_all)
for _sig in (signal.SIGTERM, signal.SIGHUP):
    try:
        if signal.getsignal(_sig) == signal.SIG_DFL:
            signal.signal(_sig, _on_signal)
    except (ValueError, OSError):
        pass            # not the main thread


# ------------------------------------------------------------------------------------------ daemon

class Daemon:
    def __init__(self, scratch, thread=False, buffers=1, maxclients=None, sndbuf=None, variant="asan", tag="d",
                 send_delay_us=None):
        self.exe = build.build_daemon(variant)
        # the daemon derives its socket path from the device name: /tmp/vbiproxy<name with / -> ->.
        # sun_path holds 108 bytes, so the private directory lives directly under /tmp with a short name.
        self.dir = tempfile.mkdtemp(prefix="vp", dir="/tmp")
        self.fifo = os.path.join(self.dir, "t")
        os.mkfifo(self.fifo)
        self.dev = "sim:" + self.fifo + (":thread" if thread else "")
        self.sock_path = "/tmp/vbiproxy" + self.dev.replace("/", "-")
        self.thread = thread
        self.events = []
        self.cv = threading.Condition()
        self.eof = False
        self.frame = 0
        self.stderr_path = os.path.join(self.dir, "stderr")
        self.proc = None
        self.tick_fd = -1
        self.n_overflow = 0
        _LIVE.add(self)
        try:
            self.tick_fd = os.open(self.fifo, os.O_RDWR | os.O_NONBLOCK)     # keeps the FIFO alive, never blocks
            r, w = os.pipe()
            env = build.san_env({"ZVBI_VERIF_TRACE_FD": str(w)})
            env["ASAN_OPTIONS"] += ":detect_leaks=1"
            if sndbuf:
                env["ZVBI_VERIF_SNDBUF"] = str(sndbuf)
            if send_delay_us:
                env["ZVBI_VERIF_SEND_DELAY_US"] = str(send_delay_us)     # widens the window for the acquisition thread
            cmd = [self.exe, "-dev", self.dev, "-nodetach", "-buffers", str(buffers)]
            if maxclients:
                cmd += ["-maxclients", str(maxclients)]
            self.cmd = cmd
            with open(self.stderr_path, "wb") as errf:
                self.proc = subprocess.Popen(cmd, pass_fds=[w], env=env, stdin=subprocess.DEVNULL,
                                             stdout=subprocess.DEVNULL, stderr=errf, preexec_fn=_die_with_parent)
            os.close(w)
            self.reader = threading.Thread(target=self._read_trace, args=(r,), daemon=True)
            self.reader.start()
            self.wait_event(lambda e: e["e"] == "idle", 0, what="daemon start")
        except BaseException:
            self.stop()
            raise

    # ---- trace
    def _read_trace(self, fd):
        buf = b""
        try:
            while True:
                d = os.read(fd, 65536)
                if not d:
                    break
                buf += d
                *lines, buf = buf.split(b"\n")
                evs = []
                for ln in lines:
                    if b'"e":"overflow"' in ln:
                        # a daemon without a buffer spins: the first lines are kept, the rest only counted
                        self.n_overflow += 1
                        if self.n_overflow > 3:
                            continue
                    try:
                        evs.append(json.loads(ln))
                    except ValueError:
                        evs.append(dict(e="garbled", raw=ln.decode(errors="replace")))
                with self.cv:
                    self.events += evs
                    self.cv.notify_all()
        finally:
            os.close(fd)
            with self.cv:
                self.eof = True
                self.cv.notify_all()

    def pos(self):
        with self.cv:
            return len(self.events)

    def wait_event(self, pred, start, what="event", timeout=None):
        """index of the first event at or after `start` satisfying pred (blocks; Hang / DaemonDied)"""
        deadline = time.time() + (timeout or HANG)
        i = start
        with self.cv:
            while True:
                while i < len(self.events):
                    if pred(self.events[i]):
                        return i
                    if self.events[i]["e"] == "overflow":
                        # no buffer for the next frame: the daemon (or its acquisition thread) spins and never gets idle
                        raise Overflow("daemon reports \"queue overflow\" (no buffer for the next frame) while the harness waits for " + what)
                    if self.events[i]["e"] == "devclosed":
                        raise DeviceClosed("daemon closed the capture file handle %s under its acquisition thread (stop_acq_thread); "
                                           "the harness waits for %s" % (self.events[i].get("fd"), what))
                    i += 1
                if self.eof:
                    raise DaemonDied("daemon trace ended while waiting for " + what)
                left = deadline - time.time()
                if left <= 0:
                    raise Hang("no %s within %.0fs (trace position %d)" % (what, timeout or HANG, start))
                self.cv.wait(min(left, 1.0))

    def wait_quiet(self, start, consumed=None, what="stimulus"):
        """wait until the daemon has logged an event satisfying `consumed` (at or after trace position
        `start`) and, after it, an idle line.  Returns the index of that idle line."""
        i = start
        if consumed is not None:
            i = self.wait_event(consumed, start, what="reaction to " + what)
            if self.thread and self.events[i]["e"] == "cap":
                # the acquisition thread logs "wake" after it has woken up the main loop (under the trace mutex)
                i = self.wait_event(lambda e: e["e"] == "wake", i, what="wake-up after capture")
        return self.wait_event(lambda e: e["e"] == "idle", i, what="idle after " + what)

    def last_idle_index(self):
        with self.cv:
            for i in range(len(self.events) - 1, -1, -1):
                if self.events[i]["e"] == "idle":
                    return i
        return -1

    def last_idle(self):
        i = self.last_idle_index()
        return self.events[i] if i >= 0 else None

    def alive(self):
        return self.proc is not None and self.proc.poll() is None

    # ---- stimuli
    def tick(self, n=1):
        """capture clock: n frames, one at a time, each followed by quiescence. Returns the frame numbers."""
        out = []
        for _ in range(n):
            self.frame += 1
            p = self.pos()
            os.write(self.tick_fd, struct.pack("=I", self.frame))
            f = self.frame
            self.wait_quiet(p, lambda e: e["e"] == "cap" and e["id"] == f, "tick %d" % f)
            out.append(f)
        return out

    def freeze(self):
        """stop the daemon process: stimuli written now are all pending when it continues (one wake-up of its main loop)"""
        os.kill(self.proc.pid, signal.SIGSTOP)

    def thaw(self):
        os.kill(self.proc.pid, signal.SIGCONT)

    def burst(self, n):
        """n frames written at once (the daemon decides how it interleaves capture and forwarding)"""
        p = self.pos()
        ids = list(range(self.frame + 1, self.frame + n + 1))
        self.frame += n
        os.write(self.tick_fd, b"".join(struct.pack("=I", f) for f in ids))
        last = ids[-1]
        self.wait_quiet(p, lambda e: e["e"] == "cap" and e["id"] == last, "burst to %d" % last)
        return ids

    def stderr_text(self):
        try:
            return open(self.stderr_path, "rb").read().decode(errors="replace")
        except OSError:
            return ""

    def stop(self, fast=False):
        """terminate (SIGTERM -> clean shutdown incl. leak check), collect exit status and stderr,
        remove socket, FIFO and directory.  Safe to call twice.  fast: the check itself is going away - kill."""
        rc = None
        if getattr(self, "stopped", False):
            return getattr(self, "rc", None)
        self.stopped = True
        _LIVE.discard(self)
        if fast and self.proc is not None and self.proc.poll() is None:
            self.proc.kill()
        if self.proc is not None:
            if self.proc.poll() is None:
                self.proc.send_signal(signal.SIGTERM)
                # the handler only sets a flag that the main loop tests before select(): a signal arriving
                # between the test and the select() would be noticed at the next wake-up only - cause one
                try:
                    self.proc.wait(0.05)
                except subprocess.TimeoutExpired:
                    try:
                        k = socket.socket(socket.AF_UNIX, socket.SOCK_STREAM)
                        k.setblocking(False)
                        k.connect(self.sock_path)
                        k.close()
                    except OSError:
                        pass
                try:
                    self.proc.wait(HANG)
                except subprocess.TimeoutExpired:
                    self.proc.kill()
                    self.proc.wait()
                    self.hung_at_exit = True
            rc = self.proc.returncode
            self.rc = rc
            if hasattr(self, "reader"):
                self.reader.join(5)
        self.stderr = self.stderr_text()
        if self.tick_fd >= 0:
            os.close(self.tick_fd)
            self.tick_fd = -1
        try:
            os.unlink(self.sock_path)
        except OSError:
            pass
        shutil.rmtree(self.dir, ignore_errors=True)
        return rc

    def __enter__(self):
        return self

    def __exit__(self, *a):
        self.stop()


# ------------------------------------------------------------------------------------------ wire format

class Layout:
    """sizeof/offsetof of the wire messages, read from the C headers through drv_proxycl"""
    _cache = {}

    def __init__(self, drv):
        if drv not in Layout._cache:
            p = subprocess.run([drv], input="L\n", capture_output=True, text=True, env=build.san_env(), timeout=60)
            Layout._cache[drv] = json.loads(p.stdout.split("\n")[0])
        self.l = Layout._cache[drv]

    def size(self, t):
        return self.l["sizeof_" + t]

    def off(self, t, f):
        return self.l[t + "." + f]

    def magics(self, compat=None, endian=None, magic=None):
        b = bytearray(self.size("VBIPROXY_MAGICS"))
        m = (magic if magic is not None else self.l["magic"].encode())[:16]
        b[0:len(m)] = m
        struct.pack_into("=I", b, self.off("VBIPROXY_MAGICS", "protocol_compat_version"),
                         self.l["compat_version"] if compat is None else compat)
        struct.pack_into("=I", b, self.off("VBIPROXY_MAGICS", "protocol_version"), self.l["version"])
        struct.pack_into("=I", b, self.off("VBIPROXY_MAGICS", "endian_magic"),
                         self.l["endian_magic"] if endian is None else endian)
        return bytes(b)

    def header(self, typ, body_len, length=None):
        return struct.pack(">II", (8 + body_len) if length is None else (length & 0xFFFFFFFF), typ & 0xFFFFFFFF)

    def msg(self, typ, body=b"", length=None):
        return self.header(typ, len(body), length) + body

    def connect_req(self, services=0, strict=0, buffers=1, scanning=625, flags=0, name=b"raw", compat=None,
                    endian=None, magic=None):
        T = "VBIPROXY_CONNECT_REQ"
        b = bytearray(self.size(T))
        b[0:self.size("VBIPROXY_MAGICS")] = self.magics(compat, endian, magic)
        o = self.off(T, "client_name")
        b[o:o + len(name)] = name
        struct.pack_into("=i", b, self.off(T, "pid"), os.getpid())
        struct.pack_into("=I", b, self.off(T, "client_flags"), flags)
        struct.pack_into("=I", b, self.off(T, "scanning"), scanning)
        struct.pack_into("=B", b, self.off(T, "buffer_count"), buffers & 0xFF)
        struct.pack_into("=I", b, self.off(T, "services"), services)
        struct.pack_into("=b", b, self.off(T, "strict"), strict)
        return self.msg(MSG["CONNECT_REQ"], bytes(b))

    def service_req(self, services, strict=0, reset=0, commit=1):
        T = "VBIPROXY_SERVICE_REQ"
        b = bytearray(self.size(T))
        struct.pack_into("=B", b, self.off(T, "reset"), reset)
        struct.pack_into("=B", b, self.off(T, "commit"), commit)
        struct.pack_into("=b", b, self.off(T, "strict"), strict)
        struct.pack_into("=I", b, self.off(T, "services"), services)
        return self.msg(MSG["SERVICE_REQ"], bytes(b))

    def token_req(self, prio, valid=1, sub_prio=0, min_duration=0):
        T = "VBIPROXY_CHN_TOKEN_REQ"
        b = bytearray(self.size(T))
        struct.pack_into("=I", b, self.off(T, "chn_prio"), prio)
        o = self.off(T, "chn_profile")
        struct.pack_into("=B", b, o + self.off("vbi_channel_profile", "is_valid"), valid)
        struct.pack_into("=B", b, o + self.off("vbi_channel_profile", "sub_prio"), sub_prio)
        struct.pack_into("=q", b, o + self.off("vbi_channel_profile", "min_duration"), min_duration)
        struct.pack_into("=q", b, o + self.off("vbi_channel_profile", "exp_duration"), min_duration)
        return self.msg(MSG["CHN_TOKEN_REQ"], bytes(b))

    def notify_req(self, flags, scanning=0):
        T = "VBIPROXY_CHN_NOTIFY_REQ"
        b = bytearray(self.size(T))
        struct.pack_into("=I", b, self.off(T, "notify_flags"), flags)
        struct.pack_into("=I", b, self.off(T, "scanning"), scanning)
        return self.msg(MSG["CHN_NOTIFY_REQ"], bytes(b))

    def reclaim_cnf(self):
        return self.msg(MSG["CHN_RECLAIM_CNF"])

    def close_req(self):
        return self.msg(MSG["CLOSE_REQ"])

    def suspend_req(self):
        return self.msg(MSG["CHN_SUSPEND_REQ"], bytes(self.size("VBIPROXY_CHN_NOTIFY_REQ")))

    def ioctl_req(self, request, arg=b"", arg_size=None):
        T = "VBIPROXY_CHN_IOCTL_REQ"
        b = bytearray(self.size(T))
        struct.pack_into("=I", b, self.off(T, "request"), request & 0xFFFFFFFF)
        struct.pack_into("=I", b, self.off(T, "arg_size"), len(arg) if arg_size is None else arg_size)
        body = bytes(b) + arg
        # VBIPROXY_CHN_IOCTL_REQ_SIZE(n) = sizeof + n - 1
        return self.msg(MSG["CHN_IOCTL_REQ"], body[:self.size(T) + len(arg) - 1] if len(arg) else body[:self.size(T) - 1])

    def pid_req(self):
        return self.msg(MSG["DAEMON_PID_REQ"], self.magics())

    # ---- parsing of daemon -> client messages
    def parse(self, typ, body):
        o = dict(t=typ, name=MSG_NAME.get(typ, "?"), len=8 + len(body))
        if typ == MSG["SLICED_IND"] and len(body) >= 16:
            T = "VBIPROXY_SLICED_IND"
            ts, = struct.unpack_from("=d", body, self.off(T, "timestamp"))
            ns, nr = struct.unpack_from("=II", body, self.off(T, "sliced_lines"))
            o.update(ts=int(ts), n=ns, raw=nr, lines=[])
            p = self.off(T, "u")
            sz = self.size("vbi_sliced")
            for k in range(ns):
                if p + sz > len(body):
                    o["short"] = True
                    break
                sid, line = struct.unpack_from("=II", body, p)
                d0 = p + self.off("vbi_sliced", "data")
                o["lines"].append([sid, line, body[d0:p + sz].hex()])
                p += sz
            o["extra"] = len(body) - p
        elif typ in (MSG["CONNECT_CNF"],) and len(body) >= self.size("VBIPROXY_CONNECT_CNF"):
            T = "VBIPROXY_CONNECT_CNF"
            o["services"], = struct.unpack_from("=I", body, self.off(T, "services"))
            o["pid"], = struct.unpack_from("=i", body, self.off(T, "pid"))
            d = self.off(T, "dec")
            o["start"] = list(struct.unpack_from("=ii", body, d + self.off("vbi_raw_decoder", "start")))
            o["count"] = list(struct.unpack_from("=ii", body, d + self.off("vbi_raw_decoder", "count")))
        elif typ == MSG["SERVICE_CNF"] and len(body) >= self.size("VBIPROXY_SERVICE_CNF"):
            T = "VBIPROXY_SERVICE_CNF"
            o["services"], = struct.unpack_from("=I", body, self.off(T, "services"))
            d = self.off(T, "dec")
            o["start"] = list(struct.unpack_from("=ii", body, d + self.off("vbi_raw_decoder", "start")))
            o["count"] = list(struct.unpack_from("=ii", body, d + self.off("vbi_raw_decoder", "count")))
        elif typ == MSG["CHN_TOKEN_CNF"] and len(body) >= 12:
            o["token_ind"], o["permitted"], o["non_excl"] = struct.unpack_from("=iii", body, 0)
        elif typ == MSG["CHN_CHANGE_IND"] and len(body) >= 8:
            o["flags"], o["scanning"] = struct.unpack_from("=II", body, 0)
        elif typ == MSG["DAEMON_PID_CNF"] and len(body) >= self.size("VBIPROXY_DAEMON_PID_CNF"):
            o["pid"], = struct.unpack_from("=i", body, self.off("VBIPROXY_DAEMON_PID_CNF", "pid"))
        elif typ in (MSG["CONNECT_REJ"], MSG["SERVICE_REJ"]):
            e = body[self.off("VBIPROXY_CONNECT_REJ", "errorstr"):] if typ == MSG["CONNECT_REJ"] else body
            o["err"] = e.split(b"\0")[0].decode(errors="replace")
        return o


class RawClient:
    """one connection to the daemon's socket; never blocks except in wait_msgs()"""

    def __init__(self, daemon, lay, name="raw"):
        self.d = daemon
        self.lay = lay
        self.name = name
        self.buf = b""
        self.msgs = []          # parsed messages received so far
        self.eof = False
        self.fd = None          # the daemon's descriptor for this connection (from its accept line)
        self.s = socket.socket(socket.AF_UNIX, socket.SOCK_STREAM)
        p = daemon.pos()
        self.s.connect(daemon.sock_path)
        self.s.setblocking(False)
        i = daemon.wait_event(lambda e: e["e"] == "accept", p, what="accept of " + name)
        self.fd = daemon.events[i]["c"]
        self.acc = i            # index of the accept line: identifies the connection (descriptors are reused)
        self.closed_at = None   # trace position at which the harness closed the socket
        daemon.wait_quiet(i, None, "connect of " + name)

    def send(self, data, consumed=None, what=None):
        """write bytes (all of them; the daemon always reads) and wait for the daemon to consume them.
        consumed: predicate on trace events; default: any rcv/part/closing line of this connection."""
        p = self.d.pos()
        view = memoryview(data)
        deadline = time.time() + HANG
        while len(view):
            try:
                n = self.s.send(view)
                view = view[n:]
            except BlockingIOError:
                if time.time() > deadline:
                    raise Hang("daemon does not read from " + self.name)
                select.select([], [self.s], [], 1.0)
            except (BrokenPipeError, ConnectionResetError):
                break
        fd = self.fd
        if consumed is None:
            consumed = lambda e: e.get("c") == fd and e["e"] in ("rcv", "part", "closing")
        return self.d.wait_quiet(p, consumed, what or ("bytes from " + self.name))

    def send_nowait(self, data):
        try:
            return self.s.send(data)
        except (BlockingIOError, BrokenPipeError, ConnectionResetError):
            return 0

    def pump(self):
        """read whatever is in the socket now; returns the number of new complete messages"""
        n0 = len(self.msgs)
        while not self.eof:
            try:
                d = self.s.recv(1 << 16)
            except BlockingIOError:
                break
            except (ConnectionResetError, OSError):
                self.eof = True
                break
            if not d:
                self.eof = True
                break
            self.buf += d
        while len(self.buf) >= 8:
            ln, typ = struct.unpack_from(">II", self.buf, 0)
            if ln < 8 or ln > (1 << 20):
                self.msgs.append(dict(t=typ, name="garbled", len=ln))
                self.buf = b""
                break
            if len(self.buf) < ln:
                break
            self.msgs.append(self.lay.parse(typ, self.buf[8:ln]))
            self.buf = self.buf[ln:]
        return len(self.msgs) - n0

    def read_one(self, what="message"):
        """take exactly one message out of the socket (the rest stays in the kernel: the daemon's view of a
        client that reads one frame).  Returns the parsed message or None at end of file."""
        deadline = time.time() + HANG

        def need(n):
            while len(self.buf) < n and not self.eof:
                try:
                    d = self.s.recv(n - len(self.buf))
                    if not d:
                        self.eof = True
                    self.buf += d
                except BlockingIOError:
                    if time.time() > deadline:
                        raise Hang("%s: %s not received" % (self.name, what))
                    select.select([self.s], [], [], 1.0)
                except (ConnectionResetError, OSError):
                    self.eof = True
            return len(self.buf) >= n
        if not need(8):
            return None
        ln, typ = struct.unpack_from(">II", self.buf, 0)
        if ln < 8 or ln > (1 << 20) or not need(ln):
            return None
        m = self.lay.parse(typ, self.buf[8:ln])
        self.buf = self.buf[ln:]
        self.msgs.append(m)
        return m

    def wait_msgs(self, n, what="message"):
        """block until n messages in total have been received (or EOF)"""
        deadline = time.time() + HANG
        self.pump()
        while len(self.msgs) < n and not self.eof:
            if time.time() > deadline:
                raise Hang("%s: %s not received" % (self.name, what))
            select.select([self.s], [], [], 1.0)
            self.pump()
        return len(self.msgs) >= n

    def drain(self):
        """consume everything the daemon has sent and is able to send to this connection.  Call after
        wait_quiet().  Reads until the socket is empty; while the daemon's last idle line lists this
        connection as write-blocked our reading has made room, so the daemon must run and log idle again."""
        while True:
            k = self.d.last_idle_index()
            self.pump()
            if self.eof:
                return
            if self.fd in self.d.events[k].get("w", []):
                self.d.wait_event(lambda e: e["e"] == "idle", k + 1, what="idle after unblocking " + self.name)
                continue
            if self.d.last_idle_index() == k:
                return

    def dropped_at(self):
        """index of the daemon's closing line for this connection, or None"""
        evs = self.d.events
        for i in range(self.acc + 1, len(evs)):
            if evs[i]["e"] == "closing" and evs[i].get("c") == self.fd:
                return i
            if evs[i]["e"] == "accept" and evs[i].get("c") == self.fd:
                return None
        return None

    def close(self, wait=True):
        """disconnect; waits until the daemon has removed the connection"""
        if self.s is None:
            return
        self.closed_at = self.d.pos()
        self.s.close()
        self.s = None
        if wait and self.d.alive():
            fd = self.fd
            i = self.dropped_at()
            if i is None:
                i = self.d.wait_event(lambda e: e["e"] == "closing" and e.get("c") == fd, self.closed_at,
                                      what="daemon to notice the disconnect of " + self.name)
            self.d.wait_quiet(i, lambda e: e["e"] == "gone", "disconnect of " + self.name)


# ------------------------------------------------------------------------------------------ library clients

class LibClients:
    """well-behaved clients in one drv_proxycl process (slots 0..7)"""

    def __init__(self, daemon, variant="asan"):
        self.d = daemon
        self.drv = build.build_driver("drv_proxycl", variant)
        self.stderr_path = os.path.join(daemon.dir, "cl-stderr-%d" % id(self))
        with open(self.stderr_path, "wb") as errf:
            self.p = subprocess.Popen([self.drv], stdin=subprocess.PIPE, stdout=subprocess.PIPE, stderr=errf,
                                      env=build.san_env(), text=True, bufsize=1, preexec_fn=_die_with_parent)
        self.fd = {}
        self.acc = {}

    def cmd(self, line):
        try:
            self.p.stdin.write(line + "\n")
            self.p.stdin.flush()
        except (BrokenPipeError, OSError):
            raise DaemonDied("client driver died: " + self.stderr_text()[-800:])
        r, _, _ = select.select([self.p.stdout], [], [], HANG)
        if not r:
            raise Hang("client library call does not return: " + line)
        out = self.p.stdout.readline()
        if not out:
            raise DaemonDied("client driver died: " + self.stderr_text()[-800:])
        return json.loads(out)

    def create(self, slot, flags=0):
        return self.cmd("N %d %s %d" % (slot, self.d.dev, flags))

    def start(self, slot, services, strict=0, buffers=1, scanning=625):
        p = self.d.pos()
        r = self.cmd("S %d %d %d %d %d" % (slot, services, strict, buffers, scanning))
        i = self.d.wait_event(lambda e: e["e"] == "accept", p, what="accept of lib client %d" % slot)
        self.fd[slot] = self.d.events[i]["c"]
        self.acc[slot] = i
        fd = self.fd[slot]
        self.d.wait_quiet(i, lambda e: e.get("c") == fd and e["e"] in ("msg", "closing"), "connect of lib client")
        return r

    def call(self, slot, line, reacts=True):
        p = self.d.pos()
        r = self.cmd(line)
        fd = self.fd.get(slot)
        if reacts:
            self.d.wait_quiet(p, lambda e: e.get("c") == fd and e["e"] in ("msg", "closing"), line)
        return r

    def read(self, slot, timeout_ms=None):
        return self.cmd("R %d %d" % (slot, timeout_ms if timeout_ms is not None else int(HANG * 1000)))

    def stderr_text(self):
        try:
            return open(self.stderr_path, "rb").read().decode(errors="replace")
        except OSError:
            return ""

    def stop(self):
        try:
            self.p.stdin.close()
        except OSError:
            pass
        try:
            self.p.wait(HANG)
        except subprocess.TimeoutExpired:
            self.p.kill()
            self.p.wait()
        self.rc = self.p.returncode
        self.stderr = self.stderr_text()
        return self.rc


# ------------------------------------------------------------------------------------------ protocol grammar

CLIENT_BODY = {  # client -> daemon message types and the C struct that is their body (src/proxy-msg.h; the daemon's
                 # vbi_proxyd_check_msg() measures CHN_SUSPEND_REQ with the notify request struct)
    MSG["CONNECT_REQ"]: "VBIPROXY_CONNECT_REQ", MSG["SERVICE_REQ"]: "VBIPROXY_SERVICE_REQ",
    MSG["CHN_TOKEN_REQ"]: "VBIPROXY_CHN_TOKEN_REQ", MSG["CHN_NOTIFY_REQ"]: "VBIPROXY_CHN_NOTIFY_REQ",
    MSG["CHN_SUSPEND_REQ"]: "VBIPROXY_CHN_NOTIFY_REQ", MSG["CHN_RECLAIM_CNF"]: None, MSG["CLOSE_REQ"]: None,
    MSG["DAEMON_PID_REQ"]: "VBIPROXY_DAEMON_PID_REQ", MSG["DAEMON_PID_CNF"]: "VBIPROXY_DAEMON_PID_CNF"}


def wellformed(lay, data):
    """Is `data` (one complete message as sent) a well-formed client message: a client-to-daemon type, the
    length of its type, the protocol magic where the type carries one?  (Sender-side grammar; used only to
    label what the fault injector sent.)"""
    if len(data) < 8:
        return False
    ln, typ = struct.unpack_from(">II", data, 0)
    if ln != len(data):
        return False
    body = data[8:]
    if typ == MSG["CHN_IOCTL_REQ"]:
        T = "VBIPROXY_CHN_IOCTL_REQ"
        if len(body) < lay.off(T, "arg_size"):
            return False
        if len(body) < lay.off(T, "arg_size") + 4:
            return None     # VBIPROXY_CHN_IOCTL_REQ_SIZE(0) is one byte short of the struct: the receiver reads the
                            # last byte of arg_size from its buffer; either verdict is possible
        n, = struct.unpack_from("=I", body, lay.off(T, "arg_size"))
        return len(body) == ((lay.size(T) + n - 1) & 0xFFFFFFFF)
    if typ not in CLIENT_BODY:
        return False
    T = CLIENT_BODY[typ]
    if len(body) != (lay.size(T) if T else 0):
        return False
    if typ in (MSG["CONNECT_REQ"], MSG["DAEMON_PID_REQ"]):
        if body[0:16] != lay.l["magic"].encode()[:16]:
            return False
        em, = struct.unpack_from("=I", body, lay.off("VBIPROXY_MAGICS", "endian_magic"))
        if typ == MSG["DAEMON_PID_REQ"]:
            return em == lay.l["endian_magic"]
        return em in (lay.l["endian_magic"], struct.unpack("<I", struct.pack(">I", lay.l["endian_magic"]))[0])
    return True


def service_names(mask):
    """encoding of a service bit mask for the trace specifications: names of the synthetic device's services,
    "x" for any other bit"""
    out = []
    for bits, name in ((VBI_SLICED_TELETEXT_B, "ttx"), (VBI_SLICED_VPS, "vps"), (VBI_SLICED_CAPTION_625, "cc"),
                       (VBI_SLICED_WSS_625, "wss")):
        if mask & bits:
            out.append(name)
    if mask & ~SIM_SERVICES & 0xFFFFFFFF:
        out.append("x")
    return out


# ------------------------------------------------------------------------------------------ recorded logs

CHANNEL_OBS = {MSG["CONNECT_CNF"]: "CONNECT_CNF", MSG["CHN_TOKEN_CNF"]: "CHN_TOKEN_CNF", MSG["CHN_TOKEN_IND"]: "CHN_TOKEN_IND",
               MSG["CHN_NOTIFY_CNF"]: "CHN_NOTIFY_CNF", MSG["CHN_RECLAIM_REQ"]: "CHN_RECLAIM_REQ",
               MSG["CHN_SUSPEND_REJ"]: "CHN_SUSPEND_REJ"}
FLAG_NAMES = ((CHN_RELEASE, "RELEASE"), (CHN_TOKEN, "TOKEN"), (CHN_FLUSH, "FLUSH"), (CHN_NORM, "NORM"), (CHN_FAIL, "FAIL"))


class Session:
    """one daemon process, its raw connections, and what the harness did to them (labels for the log)"""

    def __init__(self, lay, **daemon_args):
        self.lay = lay
        self.d = Daemon(None, **daemon_args)
        self.conns = []             # every RawClient ever made, in accept order
        self.obs = []               # (trace position, connection, record)
        self.closed_acc = {}        # connections of other clients (client library): accept line -> trace position of their close

    def connect(self, name):
        c = RawClient(self.d, self.lay, name)
        c.labels = []               # one per complete message sent: dict(wf=...)
        c.hdr_at = None             # trace position at which an illegal header was sent
        c.seen = 0                  # messages already reported as observations
        self.conns.append(c)
        return c

    def send_msg(self, c, data, prefix_sent=0):
        """complete message `data` (its first prefix_sent bytes are already out)"""
        c.labels.append(dict(wf=wellformed(self.lay, data)))
        return c.send(data[prefix_sent:])

    def send_illegal_header(self, c, data):
        c.hdr_at = self.d.pos()
        fd = c.fd
        return c.send(data, consumed=lambda e: e.get("c") == fd and e["e"] in ("closing", "rcv", "part"))

    def observe(self, clients=None):
        """read what the connections have received; channel messages become observation records"""
        for c in (clients if clients is not None else self.conns):
            if c.s is None:
                continue
            c.pump()
            for m in c.msgs[c.seen:]:
                if m["t"] in CHANNEL_OBS:
                    self.obs.append((self.d.pos(), c, dict(e="obs", c=c.fd, m=CHANNEL_OBS[m["t"]], ind=int(m.get("token_ind", 0) != 0))))
            c.seen = len(c.msgs)

    def conn_log(self):
        """the daemon's trace + the harness' labels as the log lines of Trace_ProxyConn.
        Returns (records, index of the daemon event each record was built from)."""
        evs = list(self.d.events)
        by_acc = {c.acc: c for c in self.conns}
        obs = sorted(self.obs, key=lambda o: o[0])
        oi = 0
        out, src = [dict(e="reset")], [-1]
        cur = {}            # fd -> dict(conn, nlab, pend, wr)
        dropping = None
        # chn_prio is an unsigned enum: the state dump prints it as int, the rcv line as unsigned.  Values above 3
        # are rank-encoded (TLC integers are 32 bit; the specification only compares priorities).
        u32 = lambda p: p & 0xFFFFFFFF
        big = sorted({u32(e["a"][0]) for e in evs if e["e"] == "rcv" and e["t"] == MSG["CHN_TOKEN_REQ"] and e["a"] and u32(e["a"][0]) > 3} |
                     {u32(cl[3]) for e in evs if "clients" in e for cl in e["clients"] if u32(cl[3]) > 3})
        enc = lambda p: u32(p) if u32(p) <= 3 else 4 + big.index(u32(p))

        def dump(e):
            return dict(clients=[[cl[0], cl[1], cl[2], enc(cl[3]), 1 if cl[4] else 0] for cl in e["clients"]], open=e["open"])

        def emit(rec, i):
            out.append(rec); src.append(i)

        def wrote(fd, i):
            if fd in cur and cur[fd]["wr"]:
                cur[fd]["wr"] = False
                emit(dict(e="wrote", c=fd), i)

        def flush_obs(i, conn=None):
            nonlocal oi
            if conn is not None:        # everything this connection has seen goes before its removal
                rest = []
                for o in obs[oi:]:
                    if o[1] is conn:
                        emit(o[2], i)
                    else:
                        rest.append(o)
                obs[oi:] = rest
                return
            while oi < len(obs) and obs[oi][0] <= i:
                emit(obs[oi][2], i)
                oi += 1

        for i, e in enumerate(evs):
            flush_obs(i)
            k = e["e"]
            fd = e.get("c")
            if k == "accept":
                cur[fd] = dict(conn=by_acc.get(i), acc=i, nlab=0, pend=None, wr=False)
                emit(dict(e="accept", c=fd), i)
            elif k == "rcv":
                st = cur.get(fd)
                lab = None
                if st and st["conn"] is not None and st["nlab"] < len(st["conn"].labels):
                    lab = st["conn"].labels[st["nlab"]]
                    st["nlab"] += 1
                rec = dict(c=fd, t=e["t"], wf={True: "yes", False: "no", None: "any"}[lab["wf"]] if lab else "yes")
                a = e["a"]
                if e["t"] == MSG["CONNECT_REQ"] and a:
                    rec.update(compat=(a[5] == self.lay.l["compat_version"]), srv=service_names(a[0]),
                               nsi=bool(a[4] & CLIENT_NO_STATUS_IND))
                elif e["t"] == MSG["CHN_TOKEN_REQ"] and a:
                    rec.update(prio=enc(a[0]), valid=bool(a[1]))
                elif e["t"] == MSG["CHN_NOTIFY_REQ"] and a:
                    rec.update(flags=[n for b, n in FLAG_NAMES[:3] if a[0] & b])
                if st is not None:
                    wrote(fd, i)
                    st["pend"] = rec
                    if rec.get("nsi"):
                        st["nsi"] = True        # a refused CONNECT_REQ closes the connection: no need to take it back
            elif k == "msg":
                st = cur.get(fd)
                if st is None or st["pend"] is None:
                    continue            # the state line after a CLOSE_REQ (descriptor already -1)
                mine = [cl for cl in e["clients"] if cl[0] == fd]
                if mine and mine[0][1] == 1:
                    continue            # WAIT_CLOSE: dropped in the same pass, see "gone"
                rec = dict(e="msg", st=dump(e)); rec.update(st["pend"])
                st["pend"] = None
                st["wr"] = e_has_reply(rec["t"])
                emit(rec, i)
            elif k == "closing":
                dropping = fd
            elif k == "gone":
                fd = dropping
                dropping = None
                st = cur.pop(fd, None)
                conn = st["conn"] if st else None
                if conn is not None:
                    flush_obs(i, conn)
                if st and st["pend"] is not None:
                    rec = dict(e="drop", why="rcv", cause="none", st=dump(e)); rec.update(st["pend"])
                else:
                    cause = "none"
                    if conn is not None and conn.hdr_at is not None:
                        cause = "hdr"
                    elif conn is not None and conn.closed_at is not None and conn.closed_at <= i:
                        cause = "eof"
                    elif conn is None and st is not None and self.closed_acc.get(st["acc"], i + 1) <= i:
                        cause = "eof"
                    if cause == "hdr" and st is not None:
                        cur[fd] = st
                        wrote(fd, i)        # the daemon has read the header: nothing was queued any more
                        cur.pop(fd)
                    rec = dict(e="drop", c=fd, why="io", cause=cause, t=-1, wf="yes", st=dump(e))
                emit(rec, i)
            elif k == "part":
                wrote(fd, i)
                emit(dict(e="part", c=fd, off=e["off"]), i)
            elif k in ("grant", "reclaim"):
                if fd not in cur:
                    continue        # indication queued for a connection closed in the same pass (descriptor -1): never sent
                wrote(fd, i)
                if fd in cur:
                    cur[fd]["wr"] = True
                emit(dict(e=k, c=fd, st=dump(e)), i)
            elif k == "timer":
                emit(dict(e="timer", st=dump(e)), i)
            elif k == "chgind":
                if fd in cur:       # CHN_CHANGE_IND queued: a status indication (never for a NO_STATUS_IND client)
                    emit(dict(e="chg", c=fd, nsi=bool(cur[fd].get("nsi"))), i)
        flush_obs(len(evs))
        return out, src

    def stop(self, daemon_first=False):
        if daemon_first:
            self.d.stop()       # terminated with its clients connected
        for c in self.conns:
            if c.s is not None:
                c.closed_at = self.d.pos()
                try:
                    c.s.close()
                except OSError:
                    pass
                c.s = None
        return self.d.stop()


CLIENT_NO_STATUS_IND = 2        # VBI_PROXY_CLIENT_NO_STATUS_IND (src/proxy-msg.h), client_flags of the CONNECT_REQ


def e_has_reply(t):
    return t not in (MSG["CHN_RECLAIM_CNF"], MSG["CLOSE_REQ"])
