"""Build the implementation under test from /repo's *current working tree*.

Objects go to /verif/build/<variant>/obj, the archive to build/<variant>/libzvbi-verif.a.
A generated Makefile with -MMD dependency files gives make-style incremental rebuilds, so
an edited source or header in /repo is always picked up by the next check.
"""
import os, re, subprocess, sys, hashlib

VERIF = os.path.dirname(os.path.dirname(os.path.dirname(os.path.abspath(__file__))))
REPO = os.environ.get("VERIF_REPO", "/repo")
BUILD = os.path.join(VERIF, "build") if REPO == "/repo" else \
    os.path.join(VERIF, "build", "alt-" + hashlib.sha1(REPO.encode()).hexdigest()[:8])   # scratch trees get their own objects
GUARD = "ZVBI_VERIF"

COMMON = ["-g", "-O1", "-fno-omit-frame-pointer", "-DHAVE_CONFIG_H", "-D_REENTRANT",
          "-D_GNU_SOURCE", "-D" + GUARD, "-I" + REPO, "-I" + REPO + "/src", "-w"]

# UBSan checks that are fatal everywhere.  `bounds` is reported (not fatal) and triaged
# per site by the C01 check (DESIGN.md 5/C01, 8.3).
UB_FATAL = "shift,signed-integer-overflow,integer-divide-by-zero,null,return,unreachable,vla-bound"

VARIANTS = {
    # ASan + UBSan: the default monitor build
    # UBSan checks are compiled recoverable; UBSAN_OPTIONS=halt_on_error=1 (san_env(halt_ub=True)) makes them fatal
    "asan": ["-fsanitize=address,undefined", "-fno-sanitize=alignment"],
    # TSan build for C18/C20
    "tsan": ["-fsanitize=thread"],
    # plain build (fast; used for big enumerations where the monitor is the spec, e.g. C12/C14)
    "plain": [],
    # repository's own consistency assertions in cache.c
    "asan-cc": ["-fsanitize=address,undefined", "-fno-sanitize=alignment", "-DCACHE_CONSISTENCY=1"],
}

# io-sim.c is our transmitter; its caption generator converts a negative double to unsigned
# on the nominal path (DESIGN.md 3.1) - outside every listed property.
PER_FILE = {"io-sim.c": ["-fno-sanitize=float-cast-overflow,shift"]}


def lib_sources():
    """*.c files of libzvbi.la + libzvbiinline.la + proxy sources, read from Makefile.am."""
    txt = open(os.path.join(REPO, "src", "Makefile.am")).read()
    txt = txt.replace("\\\n", " ")
    names = []
    for var in ("libzvbi_la_SOURCES", "libzvbiinline_la_SOURCES", "proxy_sources"):
        for m in re.finditer(r"^\s*" + var + r"\s*=(.*)$", txt, re.M):
            names += [w for w in m.group(1).split() if w.endswith(".c")]
    out = []
    for n in names:
        if n == "strptime.c":
            continue
        if n not in out and os.path.exists(os.path.join(REPO, "src", n)):
            out.append(n)
    return out


def ensure_config_h():
    if os.path.exists(os.path.join(REPO, "config.h")):
        return
    # config.h is generated and git-ignored: configure in a scratch copy, keep only config.h
    import tempfile, shutil
    d = tempfile.mkdtemp(prefix="zvbi-cfg-")
    try:
        subprocess.run(["rsync", "-a", "--exclude", ".git", REPO + "/", d + "/"], check=True)
        subprocess.run(["./configure", "--quiet"], cwd=d, check=True, stdout=subprocess.DEVNULL)
        shutil.copy(os.path.join(d, "config.h"), os.path.join(REPO, "config.h"))
    finally:
        shutil.rmtree(d, ignore_errors=True)


class _Lock:
    """checks may run concurrently: serialise builds that share a directory"""
    def __init__(self, path):
        self.path = path
    def __enter__(self):
        import fcntl
        os.makedirs(os.path.dirname(self.path), exist_ok=True)
        self.f = open(self.path, "w")
        fcntl.flock(self.f, fcntl.LOCK_EX)
    def __exit__(self, *a):
        import fcntl
        fcntl.flock(self.f, fcntl.LOCK_UN)
        self.f.close()


def _run_make(mk, target, quiet=True):
    with _Lock(os.path.join(os.path.dirname(mk), ".lock")):
        r = subprocess.run(["make", "-s", "-j16", "-f", mk, target], capture_output=True, text=True)
    if r.returncode != 0:
        sys.stderr.write(r.stdout[-4000:] + r.stderr[-8000:])
        raise BuildError("build failed: %s %s" % (mk, target))


class BuildError(Exception):
    pass


def build_lib(variant="asan"):
    """Build (incrementally) the instrumented library; returns path of the .a"""
    ensure_config_h()
    vdir = os.path.join(BUILD, variant)
    odir = os.path.join(vdir, "obj")
    os.makedirs(odir, exist_ok=True)
    flags = COMMON + VARIANTS[variant]
    srcs = lib_sources()
    lines = ["CC=clang", "CFLAGS=" + " ".join(flags), "all: %s/libzvbi-verif.a" % vdir, ""]
    objs = []
    for s in srcs:
        o = os.path.join(odir, s[:-2] + ".o")
        objs.append(o)
        extra = " ".join(PER_FILE.get(s, [])) if "sanitize" in " ".join(flags) else ""
        lines.append("%s: %s/src/%s %s/Makefile.stamp\n\t$(CC) $(CFLAGS) %s -MMD -MP -c $< -o $@"
                     % (o, REPO, s, vdir, extra))
    lines.append("%s/libzvbi-verif.a: %s\n\trm -f $@; ar rcs $@ $^" % (vdir, " ".join(objs)))
    lines.append("-include %s/*.d" % odir)
    mk = os.path.join(vdir, "Makefile")
    body = "\n".join(lines) + "\n"
    stamp = os.path.join(vdir, "Makefile.stamp")
    h = hashlib.sha1(body.encode()).hexdigest()
    # concurrent checks share this directory: the Makefile is replaced atomically and only under the build lock
    # (a make of another check must never read a half written file)
    with _Lock(os.path.join(vdir, ".lock")):
        old = open(stamp).read() if os.path.exists(stamp) else ""
        if old != h:
            open(stamp, "w").write(h)
        if not os.path.exists(mk) or open(mk).read() != body:
            tmp = "%s.%d.tmp" % (mk, os.getpid())
            open(tmp, "w").write(body)
            os.replace(tmp, mk)
    _run_make(mk, "all")
    return os.path.join(vdir, "libzvbi-verif.a")


def build_daemon(variant="asan"):
    """zvbid from daemon/proxyd.c linked against the instrumented library."""
    lib = build_lib(variant)
    vdir = os.path.join(BUILD, variant)
    out = os.path.join(vdir, "zvbid-verif")
    src = os.path.join(REPO, "daemon", "proxyd.c")
    return _compile(out, [src], variant, lib, extra=[])


def _newer(out, deps):
    if not os.path.exists(out):
        return True
    t = os.path.getmtime(out)
    return any(os.path.getmtime(d) > t for d in deps if os.path.exists(d))


def _compile(out, srcs, variant, lib, extra, cxx=False):
    deps = list(srcs) + [lib]
    for s in srcs:
        d = os.path.dirname(s)
        deps += [os.path.join(d, f) for f in os.listdir(d) if f.endswith(".h")]
    with _Lock(out + ".lock"):
        if not _newer(out, deps):
            return out
        cc = "clang++" if cxx else "clang"
        tmp = out + ".tmp%d" % os.getpid()
        cmd = [cc] + COMMON + VARIANTS[variant] + ["-I" + os.path.join(VERIF, "harness")] + extra + \
            ["-o", tmp] + list(srcs) + [lib, "-lpthread", "-lm", "-lpng", "-lz"]
        r = subprocess.run(cmd, capture_output=True, text=True)
        if r.returncode != 0:
            sys.stderr.write(r.stderr[-8000:])
            raise BuildError("compile failed: " + out)
        os.replace(tmp, out)
        return out


def build_driver(name, variant="asan", extra=None, srcs=None, cxx=False):
    """Compile harness/<name>.c against the instrumented library -> build/<variant>/<name>"""
    lib = build_lib(variant)
    vdir = os.path.join(BUILD, variant)
    out = os.path.join(vdir, name)
    if srcs is None:
        srcs = [os.path.join(VERIF, "harness", name + (".cc" if cxx else ".c"))]
    return _compile(out, srcs, variant, lib, extra or [], cxx=cxx)


# environment for running instrumented binaries
def san_env(extra=None, halt_ub=False):
    e = dict(os.environ)
    e["ASAN_OPTIONS"] = "detect_leaks=1:abort_on_error=0:exitcode=99:allocator_may_return_null=1:detect_stack_use_after_return=0"
    e["UBSAN_OPTIONS"] = "print_stacktrace=1:halt_on_error=%d:exitcode=98" % (1 if halt_ub else 0)
    e["LSAN_OPTIONS"] = "exitcode=97"
    e["TSAN_OPTIONS"] = "exitcode=96:halt_on_error=0:second_deadlock_stack=1"
    if extra:
        e.update(extra)
    return e


if __name__ == "__main__":
    v = sys.argv[1] if len(sys.argv) > 1 else "asan"
    print(build_lib(v))
