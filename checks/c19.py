"""C19 - the proxy daemon withstands faulty clients; channel control is held by one client.

spec/ProxyToken.tla  connections, channel priorities, the six token states, scheduler (policy open), ghost holders
spec/ProxyConn.tla   connection state x message matrix, read phases, every way a client can deviate
MC   exhaustive: ProxyToken with 3 clients (SingleOwner, OneHolder, GrantOnlyWhenFree, GrantOnlyOnRequest, NoCrash),
     ProxyConn with 2 (quick) / 3 (thorough) clients (BadClientIsolated, StillAccepts, Released); the configurations
     with a repair switched off must reproduce the defect (D7, flush of a closed device, re-grant under reclaim,
     illegal length, partial read) - otherwise the check reports itself broken.
GEN  TLC random walks through ProxyConn -> stimulus schedules; the counterexamples of the "repair off"
     configurations and a few directed schedules are added.
TV   every schedule is executed against the real zvbid (ASan/UBSan build, synthetic device, raw-socket clients of
     lib/vlib/proxy.py); the daemon's own action trace plus what the clients received is validated by
     Trace_ProxyConn (every step, every state dump, all invariants).
spec/ProxyFlow.tla   the composition ProxyConn x ProxyQueue (faulty client x frame flow): every daemon step as a joint step of the
     connection layer and the data path; FaultIsolated, WitnessLosesNothing, CanCapture, ReleasedAll, WitnessServed (liveness)
FLOW schedules generated from ProxyFlow (random walks in which frames were taken away from a client silent in the middle of
     a message, i.e. silence for more frames than the daemon has buffers) + 15 directed neighbouring cases (never connects,
     disconnect at byte k, garbage after a part, all services removed with a frame queued, token holder leaves, two faulty
     clients, close in the middle of a frame written) with two witnesses of different service sets; select and thread variant,
     1 and 8 base buffers; validated by Trace_ProxyQueue (every frame of every client) AND Trace_ProxyConn.
Fault pass: a valid client session truncated at every byte (silence for more frames than there are buffers, then disconnect)
     and mutated at every byte, plus field faults (length, type, strict, arg_size, buffer_count, magics, version) - with two
     witness clients whose frame stream is checked after every frame, a liveness probe after every fault, the sanitizer log
     and the daemon's exit status."""
import json, os, random, re, struct
from vlib import tlc, build, core, proxy
from vlib.proxy import MSG

MANIFEST = dict(
    level="model_checking",
    engine="tlc-mc+trace-validation",
    technique="TLA+ specs ProxyToken (token state machine of daemon/proxyd.c with the scheduler's policy left open, ghost token holders), "
              "ProxyConn (connection state x message matrix, read phases, all client deviations) and ProxyFlow (composition of ProxyConn "
              "with the data path ProxyQueue: a faulty client while frames flow) checked exhaustively by TLC; "
              "TLC-generated stimulus schedules and a byte-by-byte fault pass are executed against the real daemon (sanitizer build, "
              "synthetic capture device, raw-socket and library clients); the daemon's hook trace, the clients' observations and every "
              "frame every client received are validated step by step against the specs by TLC (trace validation)",
    text="TLC explores all interleavings of connect, service, token request/return/release/reclaim-confirm, flush, close and of "
         "malformed, partial, mis-timed messages and disconnects for 3 clients (token) and 2-3 clients (connection layer): at most "
         "one token owner and one holder, grants only when free and only on request, no reachable assertion, a client's steps never "
         "change another connection, closed connections release everything. In the composition with the frame queue a client that "
         "stops in the middle of a message (or never connects, sends refused messages, disconnects at any byte) is not forwarded to, "
         "loses queued frames when the buffers run out, and changes nothing in what the other clients have received, have queued and "
         "are owed; the daemon always finds a buffer for the next frame. The real daemon executes generated schedules (with a client "
         "silent for more frames than there are buffers, two witnesses) and a session truncated/mutated at every byte while "
         "witnesses receive every frame; TLC accepts the recorded trace only if every daemon action, state dump and delivered frame "
         "is a step of the specifications.",
    note="Bounded: 3 clients / 2 priorities in MC (composition: 2-3 clients, 2-6 frames); the scheduler's choice among eligible clients and all timing (durations, timer) are "
         "abstracted. Time-outs (60 s connect/I-O) are not exercised. TCP transport is not used (same code path after accept). "
         "Memory safety is decided by ASan/UBSan on the executed runs (exploration). The startup leak of the listen address "
         "(110 bytes, once) and UBSan's report on the never-dereferenced pointer `services - 1` are outside the statement.",
)

TTX, VPS, CC, WSS = proxy.VBI_SLICED_TELETEXT_B, proxy.VBI_SLICED_VPS, proxy.VBI_SLICED_CAPTION_625, proxy.VBI_SLICED_WSS_625


# ------------------------------------------------------------------------------------------------ monitors

_BENIGN_IDX = re.compile(r"runtime error: index -1 out of bounds for type 'unsigned int\[4\]'")


def filter_stderr(text):
    """drop the two reports that are outside the statement (see MANIFEST note); returns (rest, dropped)"""
    dropped = []
    # UBSan blocks: from the 'runtime error' line to the SUMMARY line
    keep = []
    blocks = re.split(r"(?m)^(?=\S+:\d+:\d+: runtime error)", text)
    for b in blocks:
        first = b.split("\n")[0]
        if _BENIGN_IDX.search(first) and re.search(r"in vbi_proxyd_(update_services|take_service_req)", b):
            m = re.search(r"(?m)^SUMMARY: UndefinedBehaviorSanitizer[^\n]*\n", b)
            dropped.append("ubsan:index -1 (services - 1)")
            keep.append(b[m.end():] if m else "")
        elif "member access within null pointer of type 'VBIPROXY_MSG'" in first:
            # VBIPROXY_MSG_BODY_OFFSET: offsetof() spelled with a null pointer (client library)
            m = re.search(r"(?m)^SUMMARY: UndefinedBehaviorSanitizer[^\n]*\n", b)
            dropped.append("ubsan:offsetof idiom (VBIPROXY_MSG_BODY_OFFSET)")
            keep.append(b[m.end():] if m else "")
        else:
            keep.append(b)
    text = "".join(keep)
    m = re.search(r"=+\n==\d+==ERROR: LeakSanitizer: detected memory leaks.*?SUMMARY: AddressSanitizer: [^\n]*\n", text, re.S)
    if m:
        leaks = re.findall(r"(?:Direct|Indirect) leak of .*?(?=\n\n|\Z)", m.group(0), re.S)
        # once per listen/connect: the socket address handed to freeaddrinfo(); once per client object: its name
        if leaks and all("vbi_proxy_msg_get_local_socket_addr" in lk or re.search(r"strdup.*\n.*vbi_proxy_client_create", lk) for lk in leaks):
            text = text[:m.start()] + text[m.end():]
            dropped.append("lsan:socket address / client name (proxy-msg.c, proxy-client.c)")
    return text, dropped


def judge_daemon(ctx, d, replay, what):
    """exit status and sanitizer log of a stopped daemon"""
    err, dropped = filter_stderr(d.stderr)
    for x in dropped:
        n = "outside the statement: " + x
        if n not in ctx.notes:
            ctx.notes.append(n)
    m = re.search(r"Assertion `([^']*)' failed", err)
    if m:
        fn = re.search(r"(\w+)\([^)]*\): Assertion|: (\w+): Assertion", err)
        ctx.violate("crash", "abort:assert:%s" % m.group(1), "daemon aborted during %s\n%s" % (what, err[-1500:]), replay)
        return False
    n = core.report_sanitizers(ctx, err, replay=replay, in_scope=True)
    rc = getattr(d, "rc", None)
    # 0: clean exit; 97/98: exit codes of the (filtered) leak / UBSan reports
    if n == 0 and rc is not None and (rc < 0 or rc not in (0, 97, 98)):
        ctx.violate("crash", "exit:%s" % rc, "daemon exited with status %s during %s\n%s" % (rc, what, err[-1500:]), replay)
        return False
    if getattr(d, "hung_at_exit", False):
        ctx.violate("hang", "hang:shutdown", "daemon did not terminate on SIGTERM after " + what, replay)
        return False
    return n == 0


# ------------------------------------------------------------------------------------------------ schedules

def bad_messages(lay, rnd):
    """messages the daemon's check_msg must refuse"""
    L = lay
    sr = L.service_req(TTX)
    return [
        L.msg(MSG["CONNECT_CNF"], bytes(16)),                       # daemon-to-client type
        L.msg(MSG["SLICED_IND"], bytes(L.size("VBIPROXY_SLICED_IND"))),
        L.msg(999),                                                 # unknown type
        L.msg(0x7FFFFFFF, bytes(4)),
        L.msg(MSG["SERVICE_REQ"], sr[8:] + b"\0"), L.msg(MSG["SERVICE_REQ"], sr[8:-1]),   # length does not fit the type
        L.connect_req(magic=b"LIBZVBI VBIPROXX"),
        L.connect_req(endian=0x12345678),
        L.msg(MSG["CHN_TOKEN_REQ"], bytes(L.size("VBIPROXY_CHN_TOKEN_REQ") + 8)),
        L.msg(MSG["CLOSE_REQ"], b"\1"),
        L.msg(MSG["DAEMON_PID_REQ"], L.magics(endian=0x44332211)),
    ]


def illegal_headers(lay):
    big = lay.size("VBIPROXY_MSG")
    return [struct.pack(">II", n, t) for n in (0, 1, 7, big + 1, big + 4096, 0x7FFFFFFF, 0xFFFFFFFF, 0x80000000)
            for t in (MSG["CONNECT_REQ"], MSG["CHN_NOTIFY_REQ"])]


def message_for(lay, st, rnd):
    """bytes of the complete message a schedule step stands for"""
    a = st["a"]
    if a == "Connect":
        return lay.connect_req(services=rnd.choice([TTX, VPS, TTX | WSS, CC]) if st["s"] else 0, strict=rnd.choice([-1, 0, 1, 2]),
                               buffers=rnd.choice([1, 1, 2, 5]), flags=proxy.CLIENT_NO_STATUS_IND if st.get("nsi") else 0)
    if a == "ConnectRej":
        return lay.connect_req(services=TTX, compat=0x999) if rnd.random() < 0.5 else lay.connect_req(services=0x100)
    if a == "PidReq":
        return lay.pid_req()
    if a == "ServiceReq":
        return lay.service_req(rnd.choice([WSS, VPS | CC, TTX]) if st["s"] else 0, strict=rnd.choice([-1, 0, 1, 2]), reset=1)
    if a == "TokenReq":
        sub, dur = rnd.choice([0x10, 0x10, 0x20, 0x30]), rnd.choice([0, 100000])
        return lay.token_req(st["p"], 1 if st["v"] else 0, sub_prio=st.get("sub", sub), min_duration=st.get("dur", dur))
    if a == "Notify":
        f = 0
        for n in st["f"]:
            f |= dict(RELEASE=1, TOKEN=2, FLUSH=4)[n]
        return lay.notify_req(f | rnd.choice([0, 0, proxy.CHN_FAIL]), scanning=0)
    if a == "Ioctl":
        return lay.ioctl_req(rnd.choice([0x80685600, 0xC02C5638, 0x12345678]), bytes(rnd.choice([0, 4, 44])))
    if a == "Suspend":
        return lay.suspend_req()
    if a == "ReclaimCnf":
        return lay.reclaim_cnf()
    if a == "CloseReq":
        return lay.close_req()
    if a == "WrongState":
        if st.get("st") == "fwd":
            return rnd.choice([lay.connect_req(services=TTX), lay.pid_req()])
        return rnd.choice([lay.service_req(TTX), lay.token_req(1, 1), lay.notify_req(2), lay.ioctl_req(0x80685600, bytes(4))])
    if a == "BadMsg":
        return rnd.choice(bad_messages(lay, rnd))
    return None


MESSAGE_STEPS = ("Connect", "ConnectRej", "PidReq", "ServiceReq", "TokenReq", "Notify", "Ioctl", "Suspend", "ReclaimCnf",
                 "CloseReq", "WrongState", "BadMsg")


def execute(ses, steps, seed, ticks=False):
    """run one schedule (list of step records) on the session's daemon; every connection is closed at the end.
    Steps that are physically impossible (no such connection) are skipped."""
    lay = ses.lay
    rnd = random.Random(seed)
    conn = {}           # model client -> RawClient
    pend = {}           # model client -> (message bytes, bytes already sent)
    done = []

    def alive(k):
        c = conn.get(k)
        return c is not None and c.s is not None and c.dropped_at() is None

    for n, st in enumerate(steps):
        a, k = st["a"], st.get("c")
        if a == "Tick":
            if device_open(ses.d):
                ses.d.tick(1)
                done.append(st)
                ses.observe()
            continue
        if a == "Accept":
            if not alive(k):
                if k in conn and conn[k].s is not None:
                    conn[k].close()
                conn[k] = ses.connect("m%d" % k)
                pend.pop(k, None)
                done.append(st)
            continue
        if not alive(k):
            continue
        c = conn[k]
        if a == "Disconnect":
            c.close()
            pend.pop(k, None)
        elif a in ("PartialHdr", "HdrLegal"):
            if k not in pend:
                nxt = next((s for s in steps[n + 1:] if s.get("c") == k and s["a"] in MESSAGE_STEPS), None)
                msg = message_for(lay, nxt, rnd) if nxt else lay.notify_req(0)
                if nxt is not None:
                    nxt["_msg"] = msg.hex()
                pend[k] = (msg, 0)
            msg, sent = pend[k]
            if a == "PartialHdr":
                upto = min(7, sent + rnd.randint(1, 7 - sent)) if sent < 7 else sent
            else:
                upto = rnd.randint(max(8, sent + 1), len(msg) - 1) if len(msg) > max(8, sent + 1) else sent
            if upto <= sent:
                continue
            c.send(msg[sent:upto])
            pend[k] = (msg, upto)
        elif a == "HdrIllegal":
            if k in pend:
                continue
            ses.send_illegal_header(c, rnd.choice(illegal_headers(lay)))
        elif a in MESSAGE_STEPS:
            if k in pend:
                msg, sent = pend.pop(k)
            else:
                msg, sent = (bytes.fromhex(st["_msg"]) if "_msg" in st else message_for(lay, st, rnd)), 0
            ses.send_msg(c, msg, sent)
        else:
            continue
        done.append(st)
        ses.observe()
        if not ses.d.alive():
            break
    if ses.d.alive():
        ses.observe()
        for k, c in conn.items():
            if c.s is not None:
                c.close()
    return done


def subscribed(d, fd):
    """does the connection have services, by the daemon's last state dump"""
    for e in reversed(d.events):
        if "clients" in e:
            return any(cl[0] == fd and cl[4] for cl in e["clients"])
    return False


def device_open(d):
    for e in reversed(d.events):
        if "open" in e:
            return bool(e["open"])
    return False


def probe(ses):
    """liveness: a new connection is accepted and a DAEMON_PID_REQ is taken (the daemon answers by closing)"""
    c = ses.connect("probe")
    ses.send_msg(c, ses.lay.pid_req())
    ok = c.dropped_at() is not None
    c.close()
    return ok


# ------------------------------------------------------------------------------------------------ validation

def validate(ctx, ses_logs, label):
    """ses_logs: list of (records, info) per daemon process; info maps a record index to a replay dict"""
    path = os.path.join(ctx.scratch, "conn-%s.ndjson" % label)
    where = []
    with open(path, "w") as f:
        for recs, info in ses_logs:
            for i, r in enumerate(recs):
                if r.get("e") == "chg" and r.get("nsi"):
                    # outside the statement of C19 (status indications): noted in the evidence, not a violation
                    note = "CHN_CHANGE_IND queued for a client connected with NO_STATUS_IND (ProxyToken!ChangeIndTo says: never)"
                    if note not in ctx.notes:
                        ctx.notes.append(note)
                f.write(json.dumps(r) + "\n")
                where.append((info, i))
    if os.environ.get("VERIF_KEEP"):
        import shutil
        shutil.copy(path, os.environ["VERIF_KEEP"])
    ok, tr = tlc.validate_trace("Trace_ProxyConn", "Trace_ProxyConn", path, timeout=1500, heap="4g")
    ctx.add_mc(tr, "TV " + label)
    if ok:
        return True
    at = tr.reject_at
    if at is None:
        m = re.findall(r"/\\ l = (\d+)", (tr.violation or {}).get("text", ""))
        at = int(m[-1]) - 1 if m else None
    name = (tr.violation or {}).get("name", "rejected")
    detail = (tr.violation or {}).get("text", "")[:1500]
    rp, key = None, "tv:%s" % name
    if at and at <= len(where):
        info, i = where[at - 1]
        rec = json.loads(tr.reject_line) if tr.reject_line.startswith("{") else {}
        key = "tv:%s:%s%s" % (name, rec.get("e", "?"), (":t%s" % rec["t"]) if "t" in rec and rec.get("e") in ("msg", "drop") else "")
        rp = info(i) if callable(info) else info
        detail = "log line %d is not a step of ProxyConn (%s)\nrejected line: %s\nlast matched state:%s\n%s" % (
            at, label, tr.reject_line[:1500], tr.last_state[:3500], detail)
    ctx.violate("tv", key, detail, rp)
    return False


def run_schedules(ctx, lay, scheds, label, thread=False, per_daemon=25):
    """execute schedules (name, steps, seed) on fresh daemons (several per process), validate the logs"""
    logs = []
    clean = True
    b = 0
    nfail = 0
    while b < len(scheds):
        batch = scheds[b:b + per_daemon]
        ses = proxy.Session(lay, thread=thread, buffers=1, maxclients=20)
        spans = []          # first event index of every schedule of the batch
        failed = None
        ndone = 0
        try:
            for j, (name, steps, seed) in enumerate(batch):
                spans.append(ses.d.pos())
                ndone = j + 1
                try:
                    execute(ses, steps, seed)
                    if ses.d.alive():
                        probe(ses)
                    else:
                        raise proxy.DaemonDied(name)
                except proxy.DaemonDied:
                    failed = (j, "died")
                    break
                except (proxy.Overflow, proxy.DeviceClosed) as ex:
                    failed = (j, "stall: %s" % ex)
                    break
                except proxy.Hang as ex:
                    failed = (j, "hang: %s" % ex)
                    break
        finally:
            ses.stop()
        recs, src = ses.conn_log()

        def rp_of(j, batch=batch):
            return dict(kind="schedule", thread=thread, name=batch[j][0], steps=batch[j][1], seed=batch[j][2])

        def info(i, spans=spans, src=src, rp_of=rp_of):
            ev = src[i]
            return rp_of(max([k for k, p0 in enumerate(spans) if p0 <= ev] or [0]))
        logs.append((recs, info))
        rp = rp_of(failed[0]) if failed else rp_of(ndone - 1)
        if failed and failed[1].startswith("stall"):
            ctx.violate("stall", ("overflow:%s" if "overflow" in failed[1] else "thread:devclosed:%s") % rp["name"].split("#")[0], failed[1], rp)
            clean = False
        if failed and failed[1].startswith("hang"):
            if not confirm_hang(ctx, lay, rp):
                raise tlc.ToolFailure("non-reproducible hang in %s: %s" % (rp["name"], failed[1]))
            ctx.violate("hang", "hang:%s" % rp["name"].split("#")[0], failed[1], rp)
            clean = False
        if not judge_daemon(ctx, ses.d, rp, "schedules %s (%s)" % (label, rp["name"])):
            clean = False
        elif failed and failed[1] == "died":
            ctx.violate("crash", "died:%s" % rp["name"].split("#")[0], "daemon process ended during schedule %s\n%s" % (rp["name"], ses.d.stderr[-1500:]), rp)
            clean = False
        b += ndone          # after a failure the rest of the batch runs in a new process
        if failed:
            nfail += 1
            if nfail >= 4:
                break
    ok = validate(ctx, logs, label)
    if ok and clean:
        ctx.validated(len(scheds))
    for name, steps, seed in scheds:
        ctx.count_case([name.split("#")[0], [{k: v for k, v in s.items() if k != "_msg"} for s in steps]],
                       nontrivial=any(s["a"] in ("TokenReq", "Notify", "ReclaimCnf", "BadMsg", "HdrIllegal", "PartialHdr",
                                                 "HdrLegal", "WrongState", "Disconnect") for s in steps))
    return ok and clean


def confirm_hang(ctx, lay, rp):
    ses = proxy.Session(lay, thread=rp.get("thread", False), buffers=1, maxclients=20)
    try:
        execute(ses, [dict(s) for s in rp["steps"]], rp["seed"])
        return False
    except proxy.Hang:
        return True
    except proxy.DaemonDied:
        return True
    finally:
        ses.stop()


# ------------------------------------------------------------------------------------------------ directed schedules

def A(k): return dict(a="Accept", c=k)
def C(k, s=False, nsi=False): return dict(a="Connect", c=k, s=s, nsi=nsi)      # nsi: client_flags = NO_STATUS_IND
def T(k, p, v, sub=None, dur=None):
    r = dict(a="TokenReq", c=k, p=p, v=v)
    if sub is not None:
        r.update(sub=sub, dur=dur or 0)        # sub-priority / min_duration fixed: whom the scheduler prefers is determined
    return r
def N(k, *f): return dict(a="Notify", c=k, f=list(f))


DIRECTED = [
    # D7: a client without the token returns it, a third client requests it
    ("d7-second-owner", [A(1), A(2), A(3), C(1), C(2), C(3), T(1, 1, False), T(3, 1, False), T(2, 1, True), N(1, "TOKEN"),
                         T(3, 1, True), N(2, "TOKEN"), N(3, "RELEASE")]),
    # flush notification while no service is requested (device closed)
    ("flush-closed", [A(1), C(1), N(1, "FLUSH"), N(1, "FLUSH", "TOKEN"), A(2), C(2, True), N(1, "FLUSH")]),
    # reclaim in progress (confirmation half sent), scheduler picks the holder again, then another client
    ("regrant", [A(1), C(1), T(1, 1, True), A(2), C(2), T(2, 2, False), dict(a="PartialHdr", c=1), T(2, 1, False), T(2, 1, True),
                 dict(a="ReclaimCnf", c=1), N(2, "TOKEN"), T(1, 1, True)]),
    # token hand-over between background clients, return and release
    ("handover", [A(1), A(2), C(1, True), C(2), T(1, 1, True), T(2, 1, True), N(1, "TOKEN"), N(1, "RELEASE"), N(2, "TOKEN", "FLUSH"),
                  T(1, 1, True), dict(a="Disconnect", c=2), dict(a="ReclaimCnf", c=1)]),
    # interactive client arrives while a background client holds the token: reclaim, confirm
    ("reclaim", [A(1), C(1, True), T(1, 1, True), A(2), C(2), N(1, "FLUSH"), dict(a="ReclaimCnf", c=1), T(2, 1, True), T(1, 1, True),
                 dict(a="CloseReq", c=2)]),
    # every deviation once
    ("deviations", [A(1), dict(a="PartialHdr", c=1), A(2), dict(a="HdrIllegal", c=2), A(2), dict(a="BadMsg", c=2), A(2), C(2, True),
                    dict(a="WrongState", c=2, st="fwd"), A(3), dict(a="WrongState", c=3, st="wait"), C(1), dict(a="HdrLegal", c=1),
                    dict(a="Disconnect", c=1), A(3), dict(a="PidReq", c=3), A(3), dict(a="ConnectRej", c=3), A(3), dict(a="Suspend", c=3),
                    dict(a="ReclaimCnf", c=3), dict(a="CloseReq", c=3)]),
    # mixed populations: clients connected with VBI_PROXY_CLIENT_NO_STATUS_IND (as libzvbi-chains does).  The holder is one
    # of them, at background priority (granted while alone: a new connection starts at INTERACTIVE and would keep the
    # scheduler off); a second background client is preferred by the scheduler (higher sub-priority):
    # the reclaim is a request, not a status indication - it is sent, and nobody is granted before the confirmation
    ("nsi-holder-subprio", [A(1), C(1, True, nsi=True), T(1, 1, True, 0x10, 100000), A(2), C(2, True), T(2, 1, True, 0x30, 0),
                            N(2, "FLUSH"), dict(a="Ioctl", c=2), dict(a="ReclaimCnf", c=1), N(2, "TOKEN"), T(1, 1, True, 0x10, 0),
                            dict(a="CloseReq", c=2), N(1, "RELEASE")]),
    # ... preferred because the holder's min_duration (0) has expired; a third client flushes; the holder disconnects
    # instead of confirming
    ("nsi-holder-expired", [A(1), C(1, True, nsi=True), T(1, 1, True, 0x10, 0), A(2), C(2, True), T(2, 1, True, 0x10, 0), A(3), C(3),
                            N(3, "FLUSH"), dict(a="Disconnect", c=1), N(2, "TOKEN", "FLUSH"), T(3, 1, True, 0x10, 0),
                            dict(a="ReclaimCnf", c=2), N(3, "RELEASE")]),
    # the other way round: the preferred client has the flag, the holder has not; then the flagged one holds the token and the
    # other is preferred; then both have the flag
    ("nsi-second", [A(1), C(1, True), T(1, 1, True, 0x10, 100000), A(2), C(2, True, nsi=True), T(2, 1, True, 0x30, 100000),
                    N(1, "FLUSH"), dict(a="ReclaimCnf", c=1), T(1, 1, True, 0x40, 0), N(1, "FLUSH"), dict(a="ReclaimCnf", c=2),
                    T(1, 2, False), dict(a="ReclaimCnf", c=1), T(1, 1, True, 0x40, 0)]),
    ("nsi-both", [A(1), C(1, True, nsi=True), T(1, 1, True, 0x20, 0), A(2), C(2, False, nsi=True), T(2, 1, True, 0x20, 0),
                  dict(a="PartialHdr", c=1), N(2, "FLUSH"), dict(a="ReclaimCnf", c=1), N(2, "TOKEN"), T(1, 1, True, 0x20, 0),
                  dict(a="ReclaimCnf", c=2), dict(a="CloseReq", c=1)]),
]

_ACT = re.compile(r"^State \d+: <(\w+)\(([^)]*(?:\{[^}]*\})?[^)]*)\) line")


def schedule_from_counterexample(text):
    """the action sequence of a TLC error trace as a stimulus schedule (daemon steps dropped)"""
    out = []
    for ln in text.split("\n"):
        m = re.match(r"^State \d+: <(\w+)\((.*)\) line", ln)
        if not m:
            continue
        name, args = m.group(1), m.group(2)
        flags = re.findall(r'"(\w+)"', args)
        nums = re.sub(r"\{[^}]*\}", "", args).split(",")
        nums = [x.strip() for x in nums if x.strip()]
        k = int(nums[0]) if nums and nums[0].isdigit() else None
        if name == "Accept":
            out.append(A(k))
        elif name == "Connect":
            out.append(C(k, nums[1] == "TRUE", len(nums) > 2 and nums[2] == "TRUE"))
        elif name == "ServiceReq":
            out.append(dict(a="ServiceReq", c=k, s=nums[1] == "TRUE"))
        elif name == "TokenReq":
            out.append(T(k, int(nums[1]), nums[2] == "TRUE"))
        elif name == "Notify":
            out.append(N(k, *flags))
        elif name == "ReclaimCnf":
            out.append(dict(a="ReclaimCnf", c=k))
        elif name == "Gone":
            out.append(dict(a="Disconnect", c=k))
    return out


# ------------------------------------------------------------------------------------------------ fault pass

def base_session(lay):
    """a valid multi-message client session"""
    return [("connect", lay.connect_req(services=VPS, strict=1, buffers=2)),
            ("service", lay.service_req(CC, strict=0, reset=0)),
            ("token", lay.token_req(1, 1, sub_prio=0x10, min_duration=100000)),
            ("notify", lay.notify_req(proxy.CHN_TOKEN | proxy.CHN_FLUSH)),
            ("ioctl", lay.ioctl_req(0x80685600, bytes(4))),
            ("suspend", lay.suspend_req()),
            ("reclaim_cnf", lay.reclaim_cnf()),
            ("release", lay.notify_req(proxy.CHN_RELEASE)),
            ("close", lay.close_req())]


def field_faults(lay):
    """(name, index of the message replaced, replacement bytes)"""
    L = lay
    out = []
    base = base_session(lay)
    for i, (n, m) in enumerate(base):
        ln, typ = struct.unpack_from(">II", m, 0)
        for d, tag in ((1, "len+1"), (-1, "len-1")):
            out.append(("%s:%s" % (n, tag), i, struct.pack(">II", (ln + d) & 0xFFFFFFFF, typ) + m[8:]))
            # length field and body both changed (a consistent but wrong size for the type)
            body = m[8:] + b"\0" if d > 0 else m[8:-1]
            if len(m) + d >= 8:
                out.append(("%s:size%+d" % (n, d), i, struct.pack(">II", len(body) + 8, typ) + body))
        for v, tag in ((0xFFFFFFFF, "len-huge"), (0x7FFFFFFF, "len-max"), (L.size("VBIPROXY_MSG") + 1, "len-buf+1"), (0, "len-0")):
            out.append(("%s:%s" % (n, tag), i, struct.pack(">II", v, typ) + m[8:]))
        for t in list(range(0, L.l["msg_type_count"] + 2)) + [0xFFFFFFFF]:
            if t != typ:
                out.append(("%s:type%d" % (n, t), i, struct.pack(">II", ln, t) + m[8:]))
    for s in (-128, -3, -2, 3, 4, 11, 12, 127):
        out.append(("service:strict%d" % s, 1, L.service_req(CC, strict=s, reset=0)))
        out.append(("connect:strict%d" % s, 0, L.connect_req(services=VPS, strict=s, buffers=2)))
    for b in (0, 33, 255):
        out.append(("connect:buffers%d" % b, 0, L.connect_req(services=VPS, strict=1, buffers=b)))
    for e in (0x44332211, 0, 0x11223345):
        out.append(("connect:endian%x" % e, 0, L.connect_req(services=VPS, endian=e)))
    out.append(("connect:version", 0, L.connect_req(services=VPS, compat=0x200)))
    out.append(("connect:services-all", 0, L.connect_req(services=0xFFFFFFFF)))
    out.append(("connect:scanning", 0, L.connect_req(services=VPS, scanning=525)))
    out.append(("service:services-all", 1, L.service_req(0xFFFFFFFF, reset=1)))
    out.append(("service:raw", 1, L.service_req(0x20000000 | 0x40000000, reset=0)))
    for n in (0xFFFFFFFF, 0x80000000, 1 << 20, 969, 970, 5, 0):
        T_ = "VBIPROXY_CHN_IOCTL_REQ"
        b = bytearray(L.size(T_)); struct.pack_into("=I", b, 0, 0x80685600); struct.pack_into("=I", b, L.off(T_, "arg_size"), n)
        out.append(("ioctl:arg_size%d" % n, 4, L.msg(MSG["CHN_IOCTL_REQ"], bytes(b) + bytes(3))))
        out.append(("ioctl:arg_size%d-short" % n, 4, L.msg(MSG["CHN_IOCTL_REQ"], bytes(b)[:-1])))
    for p in (0, 4, 255, 0xFFFFFFFF):
        out.append(("token:prio%d" % p, 2, L.token_req(p, 1)))
    out.append(("notify:all-flags", 3, L.notify_req(0xFFFFFFFF, scanning=525)))
    out.append(("notify:norm", 3, L.notify_req(proxy.CHN_NORM, scanning=525)))
    return out


def fault_cases(lay, quick, rnd):
    """(name, list of byte strings to send one after the other, last one possibly partial)"""
    base = base_session(lay)
    msgs = [m for _, m in base]
    cases = []
    # truncation at every byte of every message: the preceding messages complete, then b bytes, then silence
    for i, (n, m) in enumerate(base):
        pos = list(range(1, len(m)))
        if quick:
            pos = [b for b in pos if b <= 9 or b == len(m) - 1 or (b * 7 + i) % 11 == ctx_mod(rnd, 11)]
        for b in pos:
            cases.append(("trunc:%s@%d" % (n, b), msgs[:i], m[:b], None))
    # mutation of every byte of every message, the session continues behind it
    for i, (n, m) in enumerate(base):
        pos = list(range(len(m)))
        if quick:
            pos = [b for b in pos if b < 8 or (b * 5 + i) % 13 == ctx_mod(rnd, 13)]
        for b in pos:
            vals = [m[b] ^ 0xFF, m[b] ^ 0x01, m[b] ^ 0x80, 0x00, 0xFF] if not quick else [rnd.choice([m[b] ^ 0xFF, m[b] ^ 0x01, m[b] ^ 0x80])]
            for v in dict.fromkeys(x for x in vals if x != m[b]):
                mm = m[:b] + bytes([v]) + m[b + 1:]
                cases.append(("mut:%s@%d=%02x" % (n, b, v), msgs[:i], mm, msgs[i + 1:]))
    for name, i, mm in field_faults(lay):
        cases.append(("field:" + name, msgs[:i], mm, msgs[i + 1:]))
    return cases


def ctx_mod(rnd, n):
    if not hasattr(rnd, "_k"):
        rnd._k = {}
    if n not in rnd._k:
        rnd._k[n] = rnd.randrange(n)
    return rnd._k[n]


def send_stream(ses, c, data_list, partial=None):
    """send complete messages one by one while the connection lives; then an optional partial message.
    The daemon's reading decides what is one message: a mutated length field makes it read more or fewer bytes,
    so the stream is sent as bytes and labelled afterwards from the daemon's rcv lines."""
    for m in data_list:
        if c.dropped_at() is not None:
            return
        c.send(m, consumed=None)
        ses.observe([c])


def label_stream(ses, c, lay, stream):
    """labels for the complete messages the daemon carved out of the byte stream sent on connection c"""
    evs = ses.d.events
    off = 0
    c.labels = []
    for i in range(c.acc + 1, len(evs)):
        e = evs[i]
        if e.get("c") != c.fd:
            continue
        if e["e"] == "accept":
            break
        if e["e"] == "rcv":
            chunk = stream[off:off + e["len"]]
            off += e["len"]
            c.labels.append(dict(wf=proxy.wellformed(lay, chunk)))
        elif e["e"] == "closing":
            break
    # an illegal length field (dropped without a rcv line)?
    if len(stream) - off >= 8:
        ln, = struct.unpack_from(">I", stream, off)
        if ln < 8 or ln > lay.size("VBIPROXY_MSG"):
            c.hdr_at = 0


_deaths = {}
# frames ticked while a subscribed client is silent in the middle of a message: more than the daemon's buffers in the fault
# pass (-buffers 1, the faulty session asks for 2, + one per connection: two witnesses, the faulty client, a probe)
MANY_FRAMES = 9


def fault_pass(ctx, lay, cases, label, thread=False, per_daemon=150):
    """witnesses W1 (TTX via raw socket) and W2 (WSS via raw socket) stay connected; after every fault: tick, both
    witnesses must have received exactly that frame with the payload of the synthetic device; liveness probe."""
    logs = []
    n_ok = 0
    clean = True
    for b in range(0, len(cases), per_daemon):
        batch = cases[b:b + per_daemon]
        ses = proxy.Session(lay, thread=thread, buffers=1, maxclients=20)
        spans = []
        failed = None
        cur = None
        try:
            w = []
            for nm, srv in (("w1", TTX), ("w2", WSS)):
                c = ses.connect(nm)
                ses.send_msg(c, lay.connect_req(services=srv))
                w.append((c, srv))
            ses.observe()
            for j, case in enumerate(batch):
                name, before, mm, after = case
                cur = case
                spans.append((ses.d.pos(), j))
                c = ses.connect("bad")
                stream = b"".join(before) + mm + (b"".join(after) if after else b"")
                send_stream(ses, c, list(before) + [mm] + (list(after) if after else []))
                label_stream(ses, c, lay, stream)
                # the others keep being served: one frame after every fault; after a message cut short by a client that
                # is subscribed (silence in the middle of a message) more frames than the daemon has buffers - the
                # frames pile up for the silent client and must be taken away from it, not from the witnesses
                if ses.d.alive():
                    nt = MANY_FRAMES if name.startswith("trunc:") and c.dropped_at() is None and subscribed(ses.d, c.fd) else 1
                    for _ in range(nt):
                        f = ses.d.tick(1)[0]
                        for wc, srv in w:
                            wc.drain()
                            fr = [m for m in wc.msgs[wc.seen:] if m["t"] == MSG["SLICED_IND"]]
                            ses.observe([wc])
                            exp = [[sid, ln, proxy.sim_payload(f, ln).hex()] for sid, ln in proxy.SIM_LINES if sid & srv]
                            got = [[x["ts"], x["lines"]] for x in fr]
                            if wc.eof or got != [[f, exp]]:
                                ctx.violate("witness", "witness:%s" % name.split("@")[0].split(":")[0],
                                            "after fault %s witness %s (services 0x%x) received %s instead of frame %d with lines %s%s"
                                            % (name, wc.name, srv, json.dumps(got)[:600], f, [l for _, l, _ in exp],
                                               " (connection closed)" if wc.eof else ""),
                                            dict(kind="fault", thread=thread, case=[name, [x.hex() for x in before], mm.hex(),
                                                                                    [x.hex() for x in after] if after else None]))
                                clean = False
                    if not probe(ses):
                        ctx.violate("liveness", "probe:%s" % name.split("@")[0], "after fault %s the daemon did not take a DAEMON_PID_REQ" % name,
                                    dict(kind="fault", thread=thread, case=[name, [x.hex() for x in before], mm.hex(),
                                                                            [x.hex() for x in after] if after else None]))
                        clean = False
                    c.close()
                    n_ok += 1
                else:
                    raise proxy.DaemonDied("after " + name)
                ctx.count_case(["fault", name], nontrivial=True)
        except proxy.DaemonDied:
            failed = (cur, "died")
        except (proxy.Overflow, proxy.DeviceClosed) as ex:
            failed = (cur, "stall: %s" % ex)
        except proxy.Hang as ex:
            failed = (cur, "hang: %s" % ex)
        finally:
            ses.stop()
        rp = None
        if failed and failed[0]:
            name, before, mm, after = failed[0]
            rp = dict(kind="fault", thread=thread, case=[name, [x.hex() for x in before], mm.hex(), [x.hex() for x in after] if after else None])
            if failed[1].startswith("stall"):
                ctx.violate("stall", ("overflow:%s" if "overflow" in failed[1] else "thread:devclosed:%s") % name.split("@")[0], failed[1], rp)
                clean = False
            if failed[1].startswith("hang"):
                if not confirm_fault_hang(ctx, lay, rp):
                    raise tlc.ToolFailure("non-reproducible hang in fault case %s: %s" % (name, failed[1]))
                ctx.violate("hang", "hang:%s" % name.split("@")[0], failed[1], rp)
                clean = False
        recs, src = ses.conn_log()

        def info(i, spans=spans, src=src, batch=batch):
            ev = src[i]
            j = max([k for k, (p0, _) in enumerate(spans) if p0 <= ev] or [0])
            name, before, mm, after = batch[j]
            return dict(kind="fault", thread=thread, case=[name, [x.hex() for x in before], mm.hex(), [x.hex() for x in after] if after else None])
        logs.append((recs, info))
        if not judge_daemon(ctx, ses.d, rp or info(len(recs) - 1), "fault pass %s" % label):
            clean = False
        if failed and failed[0]:
            k = batch.index(failed[0])
            rest = cases[b + k + 1: b + per_daemon]
            nfail = _deaths.get(id(ctx), 0) + 1
            _deaths[id(ctx)] = nfail
            if rest and nfail < 4:          # (a daemon that dies on every fault: three examples are enough)
                clean = fault_pass(ctx, lay, rest, label + "+", thread, per_daemon) and clean
            if nfail >= 4:
                break
    ok = validate(ctx, logs, label)
    if ok and clean:
        ctx.validated(n_ok)
    return ok and clean


def confirm_fault_hang(ctx, lay, rp):
    name, before, mm, after = rp["case"]
    case = (name, [bytes.fromhex(x) for x in before], bytes.fromhex(mm), [bytes.fromhex(x) for x in after] if after is not None else None)
    ses = proxy.Session(lay, thread=rp.get("thread", False), buffers=1, maxclients=20)
    try:
        c = ses.connect("bad")
        send_stream(ses, c, list(case[1]) + [case[2]] + (list(case[3]) if case[3] else []))
        probe(ses)
        return False
    except (proxy.Hang, proxy.DaemonDied):
        return True
    finally:
        ses.stop()


# ------------------------------------------------------------------------------------------------ model checking

def mc(ctx, module, cfg, timeout, expect=None, workers=8, heap="6g", coverage=False):
    r = tlc.run(module, cfg, timeout=timeout, workers=workers, heap=heap, coverage=coverage)
    ctx.add_mc(r, cfg)
    if expect is None:
        if r.violation:
            ctx.violate("mc", "mc:%s:%s" % (r.violation["kind"], r.violation["name"]), r.violation["text"][:3000])
    else:
        if not r.violation or r.violation["name"] != expect:
            raise tlc.ToolFailure("%s: expected a violation of %s (the model must reproduce the repaired defect), got %s"
                                  % (cfg, expect, r.violation and r.violation["name"]))
    return r


def run(ctx):
    quick = ctx.tier == "quick"
    ctx.cov["rule"] = ("cases = stimulus schedules (TLC random walks through ProxyConn and through the composition ProxyFlow, counterexamples "
                       "of the repaired defects, directed schedules) and fault cases (one truncated / mutated client session each) executed against "
                       "the real daemon and validated by Trace_ProxyConn (flow schedules also by Trace_ProxyQueue); distinct by schedule / fault "
                       "name; non-trivial = contains a token message or a deviation (flow: frames captured while a client misbehaves)")
    ctx.assumptions += ["local socket transport; clients and daemon of the same byte order",
                        "the capture clock is owned by the harness (synthetic device), one stimulus at a time, daemon quiescent in between",
                        "token scheduling policy and reservation times are not checked (any eligible client may be chosen)"]
    drv = build.build_driver("drv_proxycl")
    build.build_daemon()
    lay = proxy.Layout(drv)

    # ---- model checking
    mc(ctx, "ProxyToken", "MC_ProxyToken_q", 900, coverage=not quick)
    cex = {}
    for cfg, inv in (("MC_ProxyToken_orig", "SingleOwner"), ("MC_ProxyToken_flush", "NoCrash"), ("MC_ProxyToken_regrant", "OneHolder"),
                     ("MC_ProxyToken_reach", "NeverReclaimed"),
                     # mixed populations (clients with / without NO_STATUS_IND): a reclaim of a flagged holder beside an asking
                     # unflagged client is reachable; the design "no reclaim for a NO_STATUS_IND client" gives two holders
                     ("MC_ProxyToken_nsireach", "NeverMixedReclaim"), ("MC_ProxyToken_nsiskip", "OneHolder")):
        cex[cfg] = mc(ctx, "ProxyToken", cfg, 600, expect=inv)
    mc(ctx, "ProxyConn", "MC_ProxyConn_2" if quick else "MC_ProxyConn_t", 600 if quick else 3000, heap="8g")
    for cfg, inv in (("MC_ProxyConn_hdrlen", "NoCrash"), ("MC_ProxyConn_partial", "NoCrash")):
        mc(ctx, "ProxyConn", cfg, 600, expect=inv)
    # the composition connection layer x data path (faulty client x frame flow)
    for cfg in (["MC_ProxyFlow_2"] if quick else ["MC_ProxyFlow_2", "MC_ProxyFlow_thr", "MC_ProxyFlow_full", "MC_ProxyFlow_3"]):
        mc(ctx, "MC_ProxyFlow", cfg, 600 if quick else 2400, heap="8g")
    mc(ctx, "MC_ProxyFlow", "MC_ProxyFlow_reach", 600, expect="Q!NeverStuckLoses")      # the bounds reach the force-free of a silent client
    if not quick:
        mc(ctx, "MC_ProxyFlow", "MC_ProxyFlow_live", 2400, heap="8g")
    if not quick:
        r = tlc.run("ProxyConn", "MC_ProxyConn_reach", timeout=900, workers=8, heap="6g")
        ctx.add_mc(r, "MC_ProxyConn_reach")
        if not r.violation:
            raise tlc.ToolFailure("MC_ProxyConn_reach: a connection holding a token is never dropped in the model (vacuous)")

    # ---- schedules
    scheds = [(n, [dict(s) for s in st]) for n, st in DIRECTED]
    for cfg in ("MC_ProxyToken_orig", "MC_ProxyToken_flush", "MC_ProxyToken_regrant", "MC_ProxyToken_nsiskip", "MC_ProxyToken_nsireach"):
        st = schedule_from_counterexample(cex[cfg].violation["text"])
        if st:
            scheds.append(("cex-" + cfg[14:], st))
    seen = set()
    for cfg, n in (("Gen_ProxyConn", 12 if quick else 200), ("Gen_ProxyConn_tok", 18 if quick else 300)):
        g = tlc.run("Gen_ProxyConn", cfg, timeout=900, workers=4, simulate=n, depth=44, seed=ctx.seed, collect_tr=True, heap="2g",
                    max_tr=4 * n)
        ctx.add_mc(g, "GEN " + cfg)
        k = 0
        for t in g.tr:
            h = json.dumps(t, sort_keys=True)
            if h in seen or k >= n:
                continue
            seen.add(h)
            scheds.append(("%s#%d" % (cfg[4:], k), t))
            k += 1
    scheds = [(n, st, ctx.seed * 7919 + i) for i, (n, st) in enumerate(scheds)]
    ctx.sample(dict(source="directed schedule d7-second-owner", steps=DIRECTED[0][1]))
    if len(scheds) > len(DIRECTED) + 5:
        ctx.sample(dict(source="TLC random walk", steps=scheds[len(DIRECTED) + 5][1][:14]))
    run_schedules(ctx, lay, scheds, "sched")
    if not quick:
        run_schedules(ctx, lay, [(n + "/thread", [dict(s) for s in st], sd) for n, st, sd in scheds[:60]], "sched-thread", thread=True)

    # ---- faulty client x frame flow: schedules generated from ProxyFlow + the directed neighbouring cases, executed with two
    # witnesses, validated by Trace_ProxyQueue (every frame of every client) and Trace_ProxyConn
    from checks import c18
    flow = c18.flow_walks(ctx, 8 if quick else 150) + c18.flow_directed(1)
    flow = [(n, st, ctx.seed * 7919 + 100000 + i) for i, (n, st) in enumerate(flow)]
    ctx.sample(dict(source="TLC random walk through ProxyFlow (faulty client x frame flow)", steps=flow[0][1][:24]))
    clogs = []
    c18.run_schedules(ctx, lay, flow, "flow", thread=False, conn_tv=True, nontrivial=c18.flow_nontrivial, conn_logs=clogs)
    c18.run_schedules(ctx, lay, flow if not quick else flow[0:8:2] + flow[8::2], "flow-thread", thread=True, conn_tv=True,
                      nontrivial=c18.flow_nontrivial, conn_logs=clogs)
    # the daemon's default number of buffers (8 + one per connection)
    b8 = [(n, st, ctx.seed * 7919 + 200000 + i) for i, (n, st) in enumerate(c18.flow_directed(8))
          if not quick or n in ("stuck-hdr4", "stuck-body", "two-stuck", "close-mid-write")]
    c18.run_schedules(ctx, lay, b8, "flow-b8", thread=False, conn_tv=True, buffers=8, nontrivial=c18.flow_nontrivial, conn_logs=clogs)
    if not quick:
        c18.run_schedules(ctx, lay, b8, "flow-b8-thread", thread=True, conn_tv=True, buffers=8, nontrivial=c18.flow_nontrivial, conn_logs=clogs)
    validate(ctx, clogs, "flow-conn")

    # ---- fault pass
    rnd = random.Random(ctx.seed * 31337 + 5)
    cases = fault_cases(lay, quick, rnd)
    ctx.sample(dict(source="fault case", name=cases[len(cases) // 2][0], bytes=cases[len(cases) // 2][2].hex()[:120]))
    fault_pass(ctx, lay, cases, "fault")
    if not quick:
        fault_pass(ctx, lay, [c for c in cases if c[0].startswith("field:")], "fault-thread", thread=True)
    ctx.cov["exhaustive"] = False


def replay(ctx, rp):
    drv = build.build_driver("drv_proxycl")
    build.build_daemon()
    lay = proxy.Layout(drv)
    r = rp["replay"]
    if r["kind"] == "flow":
        from checks import c18
        c18.run_schedules(ctx, lay, [(r["name"], [dict(s) for s in r["steps"]], r["seed"])], "replay", thread=r.get("thread", False),
                          buffers=r.get("buffers", 1), conn_tv=True, nontrivial=c18.flow_nontrivial)
    elif r["kind"] == "schedule":
        run_schedules(ctx, lay, [(r["name"], [dict(s) for s in r["steps"]], r["seed"])], "replay", thread=r.get("thread", False))
    else:
        name, before, mm, after = r["case"]
        case = (name, [bytes.fromhex(x) for x in before], bytes.fromhex(mm), [bytes.fromhex(x) for x in after] if after is not None else None)
        fault_pass(ctx, lay, [case], "replay", thread=r.get("thread", False))
