"""C16 - export and rendering are faithful, bounded and independent of the output target.
spec/ExportIO.tla:    the single write layer of the export interface as a state machine (MEM switches to ALLOC on the first overflow and
                      carries the data over, file targets flush through the same buffer or write directly); invariants OffsetWithinCapacity,
                      MemBounded, Conserved, ResultFaithful, action property TargetChange; Observable(target, size, len).
spec/ExportText.tla:  the characters the text module and vbi_print_page_region (table mode) deliver for a page, TableReturn(size, needed).
spec/CanvasCells.tla: region drawing at cell granularity: Post (exactly the region's cells become what the full-page rendering shows,
                      everything else untouched, incl. the margin right of the page's last column), the drawing procedure Paint, Cuts
                      (regions cutting a double width / size character); pages = any arrangement of sizes, MC_CanvasCells: edge pages
                      (a character of every size / a lone continuation cell in every column and row incl. the last ones).
MC:  the three modules exhaustively on small constants (+ the companion configurations that must fail: no carry-over, no switch, no
     clipping, clipping only for regions ending inside the page).
GEN: spec/Gen_CanvasCells.tla prints every edge page x every region (format / stride / reveal / flash rotated); the check makes the page
     real (X/26 enhancement through the decoder where the formatter can produce it, otherwise an edited vbi_page) and draws all of them.
GEN: spec/Gen_ExportIO.tla prints operation scripts (entry point, caller size, write / putc / printf / grow / flush sequences).
TV:  harness/drv_exportio.c (a) runs every script as a scripted export module through vbi_export_mem/_alloc/_stdio/_file and logs the
     public write-layer state after every output call and what the caller received; (b) decodes real Teletext / caption transmissions,
     fetches pages at all levels and logs: the four targets x module x options (length, identity, every / edge / random caller sizes
     inside guard bytes), the text module's and vbi_print_page_region's output converted back with iconv for all buffer sizes, and
     region drawings into guarded canvases projected to cells.  Trace_ExportIO / Trace_ExportText / Trace_CanvasCells judge every line."""
import json, os, random, re, hashlib
from vlib import tlc, build, core
from vlib import exportpages as ep

MANIFEST = dict(
    level="model_checking",
    engine="tlc-mc+trace-validation",
    technique="TLA+ specs ExportIO (write layer state machine: caller buffer -> heap buffer on overflow with carry-over, file targets through the "
              "same buffer), ExportText (text of a page: printable characters, graphics replacement, double size continuation cells, line feeds, "
              "bounded return value) and CanvasCells (region drawing at cell granularity with the frame condition) checked exhaustively by TLC; "
              "bound to the code by trace validation: TLC-generated operation scripts are executed by a scripted export module through the four "
              "public target functions with the struct vbi_export fields logged after every output call, and pages obtained by really decoding "
              "Teletext packets (Level 1-3.5 incl. DRCS) and caption byte pairs are exported by all five modules x option vectors to all four "
              "targets (caller buffers of every / edge / random sizes inside guard bytes), printed by vbi_print_page_region for every buffer "
              "size, and drawn region by region into guarded canvases; in addition TLC enumerates edge pages (a double width / height / size "
              "character or a lone continuation cell in every column and row of the page incl. the last ones) x all regions at cell granularity, "
              "the pages are made real by X/26 enhancement packets through the decoder (or by editing the vbi_page where the formatter cannot "
              "produce the arrangement) and every region is drawn; TLC judges every logged line against the specifications",
    text="TLC checks on the write-layer model, for all sequences of up to 5 (thorough 7) write / putc / printf / grow / flush calls of sizes "
         "{0,1,3} (and 8), caller buffers of 0..7 bytes and all four entry points: offset <= capacity, the caller's memory is only used in MEM "
         "mode within its size, buffer + sink always equal the produced stream, every entry point delivers exactly the stream and MEM returns "
         "the size needed; on the text model that export and table output have one character per cell and one line feed per row, keep "
         "printable characters, replace graphics / DRCS / unrepresentable codes and that a region prints the matching part of the whole page; on "
         "the canvas model that any one to three region draws (all regions of a 4x3 / 5x3 page with double width, double size and double "
         "height characters, formats RGBA32_LE / PAL8 / unsupported) change only cells of the region, unsupported formats draw nothing, and "
         "non-cutting regions show exactly what the full-page rendering shows, and the same for one draw of every region of every edge page "
         "(6 columns x 4 / 5 rows standing for 41 x 25: one character of each size or one lone continuation cell in every column and row "
         "incl. the last ones, where the page clips it); a drawing procedure that clips only regions ending inside the page violates the "
         "frame condition there. The real library is validated line by line: generated scripts "
         "through vbi_export_mem/_alloc/_stdio/_file (state of struct vbi_export after every call, delivered bytes, guard bytes), and for "
         "decoded Teletext (Level 1, 1.5, 2.5, 3.5; double size, conceal, flash, boxes, DRCS, 15 national character sets) and caption pages: "
         "text, html, ppm, png, xpm with option vectors on all four targets (equal length and content, MEM for every size 0..needed+1 on "
         "small outputs and edge + random sizes on large ones), text and table output converted back from 11 encodings, table output for all "
         "buffer sizes, and region drawings (vt and cc, formats, strides exact / padded / page wide / -1, reveal and flash); every "
         "region of every edge page is drawn on the real 41 x 25 / 41 x 12 / 41 x 4 Teletext page (and an edited 34 x 15 caption page) with TLC "
         "checking that the real page and region are the modelled ones; edge pages are also exported by ppm / png / xpm.",
    note="Bounded: MC constants as above; the pages are seeded samples of what the decoder produces (not exhaustive); image exports are tried "
         "with every buffer size only on one- and two-row pages (fetched with display_rows 1, 2), otherwise sizes 0..8, needed-8..needed+1 "
         "and random ones. Glyph pixels inside a cell are not specified: the oracle for a cell is the library's own full-page rendering, as "
         "the statement defines it. Character encodings are the 11 of the text module's format menu (multi-byte encodings other than UTF-8 are "
         "not supported by the line feed handling); code points the C library's iconv cannot represent are taken from iconv itself. Row "
         "strides for RGBA32_LE canvases are multiples of 4 (the canvas is documented as an array of vbi_rgba). The FD target has no public "
         "entry point in this version and is not exercised.",
)

UNSUPPORTED = ["YUV420", "RGB16_LE", "BGR24", "RGBA32_BE"]
ANSI = re.compile(r"\x1b\[[0-9;]*m|\x1b#[0-9]")


# ----------------------------------------------------------------------------- what to do with a fetched page
def gfx_code(s):
    """the documented forms of the gfx_chr option: a single character or a decimal / hexadecimal code"""
    return ord(s) if len(s) == 1 else int(s, 0)


def plan_page(rnd, kind, rows, cols, encodings, quick, small):
    """commands for one fetched page -> list of (command line, meta)"""
    plan = []
    seed = rnd.randrange(1 << 30)

    def x(mod, opts, every, decode="-", gfx=32):
        """caller sizes: every size 0..needed+1 when needed <= every, otherwise 0..edge, needed-edge..needed+1 and nrand others"""
        nr = 3 if quick else 12
        edge = 8 if mod in ("text", "html") or not quick else 4
        plan.append(("X %s %d %d %d %d %s %d %s" % (mod, every, edge, nr, seed, decode, gfx, ",".join(opts) or "-"),
                     dict(c="X", mod=mod, opts=opts, decode=decode, gfx=gfx)))
    # --- text module: format menu / charset string, graphics replacement, terminal control codes
    encs = list(dict.fromkeys(encodings + ["UTF-8", rnd.choice(ep.TEXT_FORMATS)]))
    if not quick:
        encs = list(dict.fromkeys(encs + ["ASCII", rnd.choice(ep.TEXT_FORMATS), rnd.choice(ep.TEXT_FORMATS)]))
    for n, enc in enumerate(encs):
        opts = ["charset=" + enc] if rnd.random() < 0.3 else ["format=%d" % ep.TEXT_FORMATS.index(enc)]
        g = rnd.choice(["#", "#", "*", "0x20", "64", "0xb7", "0x2588", "183"])
        gfx = 35
        if g != "#" or rnd.random() < 0.3:
            opts.append("gfx_chr=" + g); gfx = gfx_code(g)
        ctl = rnd.choice([0, 0, 1, 2])
        if ctl:
            opts.append("control=%d" % ctl)
        x("text", opts, 100000 if n < (1 if quick else 3) else 0, decode=enc, gfx=gfx)
    # --- html
    hv = [[], ["color=0"], ["header=0"], ["gfx_chr=*", "color=0", "header=0"], ["gfx_chr=0x20", "header=0"]]
    for n, opts in enumerate([hv[0], rnd.choice(hv[1:])] if quick else hv):
        x("html", opts, (2500 if quick else 9000) if n < 2 or small else 0)
    # --- image modules
    iv = [[], ["aspect=0"], ["titled=0"], ["transparency=0"], ["aspect=0", "titled=0", "transparency=0"]]
    for mod in ("ppm", "png", "xpm"):
        if small:
            # one or two rows: every buffer size 0..needed+1
            x(mod, ["aspect=0"], 40000 if mod != "xpm" or not quick else 0)
            if not quick:
                x(mod, [], 70000)
        else:
            ivm = iv if mod != "ppm" else [[], ["aspect=0"]]                          # the ppm module has only the aspect option
            for opts in ([rnd.choice(ivm)] if quick else [ivm[0], rnd.choice(ivm[1:]), rnd.choice(ivm[1:])]):
                x(mod, opts, 0)
    # --- vbi_print_page_region, table mode
    regs = [(0, 0, cols, rows)]
    r0 = rnd.randrange(rows)
    regs.append((0, r0, cols, 1))
    regs.append((cols - 1, 0, 1, rows))
    regs.append((rnd.randrange(cols), rnd.randrange(rows), 1, 1))
    for _ in range(3 if quick else 12):
        c = rnd.randrange(cols); r = rnd.randrange(rows)
        regs.append((c, r, rnd.randrange(1, cols - c + 1), rnd.randrange(1, rows - r + 1)))
    for n, (c, r, w, h) in enumerate(regs):
        enc = rnd.choice(encs) if n else encs[0]
        every = 100000 if n == 1 or (not quick and n < 9) else 700
        plan.append(("T %s 1 %d %d %d %d %d 8 %d %d" % (enc, c, r, w, h, every, 4 if quick else 16, seed + n),
                     dict(c="T", enc=enc, col=c, row=r, w=w, h=h)))
    if not quick or rnd.random() < 0.3:
        enc = rnd.choice(encs)
        plan.append(("T %s 1 0 0 %d %d 100000 8 4 %d" % (enc, cols, rows, seed), dict(c="T", enc=enc, col=0, row=0, w=cols, h=rows)))
    # --- region drawing
    def d(fmt, stride, c, r, w, h):
        plan.append(("D %s %s %s %d %d %d %d %d %d" % (kind, fmt, stride, c, r, w, h, rnd.randrange(2), rnd.randrange(2)),
                     dict(c="D", kind=kind, fmt=fmt, stride=stride, col=c, row=r, w=w, h=h)))
    strides = dict(RGBA32_LE=["exact", "plus8", "full", "auto", "plus4"], PAL8=["exact", "plus5", "full", "auto", "plus1"])
    for fmt in ("RGBA32_LE", "PAL8"):
        d(fmt, rnd.choice(strides[fmt]), 0, 0, cols, rows)
        d(fmt, rnd.choice(strides[fmt]), 0, rnd.randrange(rows), cols, 1)
        if rows > 1:
            r = rnd.randrange(rows - 1)
            d(fmt, rnd.choice(strides[fmt]), 0, r, cols, 2)
        for _ in range(8 if quick else 50):
            c = rnd.randrange(cols); r = rnd.randrange(rows)
            if rnd.random() < 0.35:
                w, h = rnd.choice([1, 2, 3]), rnd.choice([1, 2])
                w = min(w, cols - c); h = min(h, rows - r)
            else:
                w = rnd.randrange(1, cols - c + 1); h = rnd.randrange(1, rows - r + 1)
            d(fmt, rnd.choice(strides[fmt]), c, r, w, h)
    for _ in range(2 if quick else 8):
        c = rnd.randrange(cols); r = rnd.randrange(rows)
        d(rnd.choice(UNSUPPORTED), rnd.choice(["exact", "plus8", "full"]), c, r, rnd.randrange(1, cols - c + 1), rnd.randrange(1, rows - r + 1))
    return plan


def caption_sessions(ctx, rnd, quick):
    """caption byte pairs: TLC random walks through the CcDisplay model (C08) + seeded printable pairs"""
    from checks import c08
    # one behaviour per walk (weighted random walk, one successor per step); all workers of one TLC process draw the same random
    # numbers, so distinct walks need workers=1 and simulate=n
    nw = 6 if quick else 24
    g = tlc.run("Gen_CcDisplay", "Gen_CcDisplay_sim", timeout=600, collect_tr=True, heap="2g", simulate=nw, depth=16,
                seed=ctx.seed, workers=1, max_tr=nw)
    if not g.tr:
        raise tlc.ToolFailure("Gen_CcDisplay printed no caption walk")
    ctx.add_mc(g, "GEN CcDisplay walks (caption transmissions)")
    out = []
    for beh in g.tr:
        cmds = []
        chans = set()
        for st in beh:
            if "act" not in st:
                continue
            f, b1, b2 = c08.encode(st["act"])
            cmds.append("K %d %02x %02x" % (f, b1, b2))
            if st["act"]["a"] == "Ctrl":
                chans.add(st["act"]["c"])
        # a pop-on caption with arbitrary text on channel 1, made visible, and a roll-up caption on channel 3 (field 2)
        extra = [(1, 0x14, 0x20), (1, 0x14, 0x20), (1, 0x15, 0x50 | rnd.randrange(16)), (1, 0x15, 0x50)]
        extra += [(1, a, b) for a, b in ep.caption_text(rnd, rnd.randrange(2, 14))]
        extra += [(1, 0x11, 0x20 | rnd.randrange(16)), (1, 0x11, 0x20)]
        extra += [(1, a, b) for a, b in ep.caption_text(rnd, rnd.randrange(1, 4))]
        extra += [(1, 0x14, 0x2F), (1, 0x14, 0x2F)]
        extra += [(2, 0x15, 0x25), (2, 0x15, 0x25)] + [(2, a, b) for a, b in ep.caption_text(rnd, rnd.randrange(2, 10))] + [(2, 0x15, 0x2D), (2, 0x15, 0x2D)]
        for f, a, b in extra:
            cmds.append("K %d %02x %02x" % (f, c08.par(a), c08.par(b)))
        chans |= {1, 3}
        out.append(dict(kind="cc", cmds=cmds, channels=sorted(chans)))
    return out


def make_sessions(ctx, quick):
    """sessions: one decoder each; setup commands, then fetches each followed by its plan"""
    rnd = random.Random(ctx.seed * 7919 + 16)
    sessions = []
    for k in range(14 if quick else 100):
        t = ep.teletext(rnd, k)
        fetches = []
        levels = [t["level"]] if quick else sorted({t["level"], rnd.choice([1, 15, 25, 35])})
        for lv in levels:
            fetches.append(("F %x 3f7f %d 25 %d" % (t["pgno"], lv, rnd.randrange(2)), 25, 41, False))
        if k % (4 if quick else 3) == 0:
            rows = rnd.choice([1, 2])
            fetches.append(("F %x 3f7f %d %d 0" % (t["pgno"], t["level"], rows), rows, 41, True))
        elif not quick and k % 3 == 1:
            fetches.append(("F %x 3f7f %d %d 0" % (t["pgno"], t["level"], rnd.choice([3, 12, 24])), None, 41, False))
        s = dict(kind="vt", setup=t["cmds"], desc="%s level %d region %d national %d" % (t["flavour"], t["level"], t["region"], t["national"]), fetches=[])
        for cmd, rows, cols, small in fetches:
            if rows is None:
                rows = int(cmd.split()[4])
            s["fetches"].append(dict(cmd=cmd, rows=rows, cols=cols, plan=plan_page(rnd, "vt", rows, cols, t["encodings"], quick, small)))
        sessions.append(s)
    for c in caption_sessions(ctx, rnd, quick):
        s = dict(kind="cc", setup=c["cmds"], desc="caption channels %s" % c["channels"], fetches=[])
        for ch in (c["channels"][:2] if quick else c["channels"]):
            s["fetches"].append(dict(cmd="C %d" % ch, rows=15, cols=34, plan=plan_page(rnd, "cc", 15, 34, ["ISO-8859-1"], quick, False)))
        sessions.append(s)
    return sessions


# ----------------------------------------------------------------------------- edge pages x all regions (Gen_CanvasCells)
def edge_sessions(ctx, quick):
    """One session per page TLC printed: the page of the model made real (Teletext: X/26 enhancement through the decoder where the
    formatter can produce it, otherwise an edited vbi_page; caption: an edited caption page) and ALL its regions, each mapped to a real
    region whose edges lie in the rows / columns the model's edges stand for."""
    rnd = random.Random(ctx.seed * 104729 + 1616)
    out = []
    for fn, cfg in (("vt", "Gen_CanvasCells_q" if quick else "Gen_CanvasCells_t"), ("cc", "Gen_CanvasCells_cc")):
        g = tlc.run("Gen_CanvasCells", cfg, timeout=1200, workers=2, heap="4g", collect_tr=True)
        if g.violation:
            raise tlc.ToolFailure("GEN run reported " + str(g.violation))
        ctx.add_mc(g, "GEN " + cfg + " (edge pages x regions, %s)" % fn)
        recs = {}
        for rec in g.tr:
            recs.setdefault(rec["pi"], rec)
        if not recs:
            raise tlc.ToolFailure(cfg + " printed no page")
        for pi in sorted(recs):
            rec = recs[pi]
            d, geo, att = rec["d"], rec["geo"], rec["att"]
            if fn == "vt":
                n_cols = 41
                n_rows = [25, geo["rows"], 25, 12][pi % 4]
                setup, fetch = ep.edge_teletext(rnd, d, geo, att, n_rows)
                if fetch is None:                                     # via edit / wrap
                    fetch = ep.edge_edits(rec["sz"], geo, att, n_rows, n_cols)
            else:
                n_cols, n_rows = 34, 15
                pairs = [(0x14, 0x20), (0x14, 0x20), (0x15, 0x50 | (pi % 16)), (0x15, 0x50)] + ep.caption_text(rnd, 8) + [(0x14, 0x2F), (0x14, 0x2F)]
                from checks import c08
                setup = ["K 1 %02x %02x" % (c08.par(a), c08.par(b)) for a, b in pairs] + ["c 1"]
                fetch = ep.edge_edits(rec["sz"], geo, att, n_rows, n_cols)
            plan = []
            for cs in rec["cases"]:
                c0, w = ep.edge_span(rnd, cs["c"], cs["w"], n_cols, geo["cols"], geo["fc"])
                r0, h = ep.edge_span(rnd, cs["r"], cs["h"], n_rows, geo["rows"], geo["fr"])
                plan.append(("D %s %s %s %d %d %d %d %d %d" % (fn, cs["f"], cs["s"], c0, r0, w, h, cs["rv"], cs["fl"]),
                             dict(c="D", kind=fn, fmt=cs["f"], stride=cs["s"], col=c0, row=r0, w=w, h=h,
                                  mrg=[cs["c"], cs["r"], cs["w"], cs["h"]], cut=cs["cut"])))
            if fn == "vt" and (n_rows <= 12 or not quick):
                # the image modules draw the page with routines of their own (row by row, palette based): all targets, a few caller sizes
                for mod in ("xpm", "png", "ppm"):
                    opts = ["aspect=0"] if (pi + len(mod)) % 2 or n_rows > 12 else []
                    plan.append(("X %s 0 2 1 %d - 32 %s" % (mod, pi, ",".join(opts) or "-"), dict(c="X", mod=mod, opts=opts, decode="-", gfx=32)))
            model = dict(rows=geo["rows"], cols=geo["cols"], fr=geo["fr"], fc=geo["fc"], sz=rec["sz"])
            out.append(dict(kind=fn, setup=setup, desc="edge page %s of %s (size %d at model cell %d,%d, %d x %d)" % (
                d["via"], cfg, d["k"], d["r"], d["c"], n_cols, n_rows),
                fetches=[dict(cmd=fetch, rows=n_rows, cols=n_cols, plan=plan, model=model, via=d["via"])]))
    return out


# ----------------------------------------------------------------------------- running the recorder
def session_lines(s):
    out = list(s["setup"])
    for f in s["fetches"]:
        out.append(f["cmd"])
        out += [p[0] for p in f["plan"]]
    return out


FILL = ":max_malloc_fill_size=1073741824:malloc_fill_byte=%d"


def shadow_of(s):
    """the same transmission and fetches, every export once more (no caller sizes): run in a second process whose fresh heap memory
    has other contents, so that output depending on uninitialised memory shows up as a difference"""
    out = dict(s, fetches=[])
    for f in s["fetches"]:
        plan = []
        for cmd, meta in f["plan"]:
            if meta["c"] == "X":
                w = cmd.split()
                plan.append((" ".join(w[:2] + ["0", "0", "0"] + w[5:]), meta))
        out["fetches"].append(dict(f, plan=plan))
    return out


def run_sessions(ctx, drv, sessions, workers=8, fill=0x5A):
    n = max(1, min(workers, len(sessions)))
    chunks = [list(range(k, len(sessions), n)) for k in range(n)]
    env = build.san_env({"VERIF_SCRATCH": ctx.scratch})
    env["ASAN_OPTIONS"] += FILL % fill

    def job(idx):
        return idx, core.run_seq_driver([drv], [session_lines(sessions[i]) for i in idx], env=env, timeout=3000)
    res = [None] * len(sessions)
    for idx, rr in core.pmap(job, chunks, workers=n):
        for i, r in zip(idx, rr):
            res[i] = r
    return res


def split_cells(rows):
    return [list(r) for r in rows]


def strip_ansi(cp):
    """remove the terminal control sequences (ESC [ ... m, ESC # n) from a list of code points"""
    if any(c > 0x10FFFF for c in cp):
        return cp
    s = "".join(chr(c) for c in cp)
    return [ord(c) for c in ANSI.sub("", s)]


class Logs:
    """the three logs with, for every line, where it came from"""
    def __init__(self, ctx, tag):
        self.ctx, self.tag = ctx, tag
        self.lines = dict(io=[], text=[], canvas=[])
        self.where = dict(io=[], text=[], canvas=[])

    def add(self, which, rec, src):
        self.lines[which].append(rec)
        self.where[which].append(src)

    def path(self, which):
        p = os.path.join(self.ctx.scratch, "c16-%s-%s.ndjson" % (self.tag, which))
        with open(p, "w") as f:
            for rec in self.lines[which]:
                f.write(json.dumps(rec) + "\n")
        return p


def log_fetch(logs, si, fi, s, f, outs, shadow=None):
    """outs: the driver's answers to the fetch command and to every command of the plan (shadow: the answers of the second process
    to the fetch and the export commands).  Returns the number of cases logged."""
    page = outs[0].get("page")
    if page is None:
        return 0, None
    if shadow is not None and shadow[0].get("page") != page:
        raise tlc.ToolFailure("the second process fetched another page for %s" % f["cmd"])
    shadow = list(shadow[1:]) if shadow is not None else None
    cells = page["cells"]
    u = [c[0] for c in cells]; sz = [c[1] for c in cells]
    src0 = (si, fi, -1)
    if f.get("model"):
        logs.add("canvas", dict(a="Page", rows=page["rows"], cols=page["cols"], sz=sz, m=f["model"]), src0)
    else:
        logs.add("text", dict(a="Page", rows=page["rows"], cols=page["cols"], u=u, sz=sz), src0)
        logs.add("canvas", dict(a="Page", rows=page["rows"], cols=page["cols"], sz=sz), src0)
    n = 0
    for pi, ((cmd, meta), o) in enumerate(zip(f["plan"], outs[1:])):
        src = (si, fi, pi)
        if meta["c"] == "X":
            xo = o.get("x")
            if not xo or not xo.get("new") or xo.get("optfail"):
                raise tlc.ToolFailure("export command not executed: %s -> %s" % (cmd, json.dumps(o)[:300]))
            logs.add("io", dict(a="Case"), src)
            for t, k in (("ALLOC", "alloc"), ("FP", "stdio"), ("FILE", "file")):
                logs.add("io", dict(a="Export", t=t, ok=xo[k]["ok"], len=xo[k]["len"], h=xo[k]["h"], run=1), src)
            if shadow:
                x2 = shadow.pop(0).get("x")
                if not x2 or x2["mod"] != meta["mod"]:
                    raise tlc.ToolFailure("second process out of step at %s" % cmd)
                for t, k in (("ALLOC", "alloc"), ("FP", "stdio")):
                    logs.add("io", dict(a="Export", t=t, ok=x2[k]["ok"], len=x2[k]["len"], h=x2[k]["h"], run=2), src)
            for r in xo["mem"]["runs"]:
                logs.add("io", dict(a="ExportMem", **{"from": r[0]}, to=r[1], ret=r[2], guard=r[3], h=r[4]), src)
            logs.add("io", dict(a="ExportMem", **{"from": 0}, to=0, ret=xo["mem"]["nullbuf"], guard=0, h="-"), src)
            if meta["mod"] == "text":
                cp = xo.get("cp")
                dec = 1 if isinstance(cp, list) else 0
                ctl = any(x.startswith("control=") for x in meta["opts"])
                logs.add("text", dict(a="Export", gfx=meta["gfx"], skip=1 if ctl else 0, unrepr=xo.get("unrepr", []), dec=dec,
                                      cp=(strip_ansi(cp) if ctl else cp) if dec else []), src)
        elif meta["c"] == "T":
            to = o.get("t")
            if not to:
                raise tlc.ToolFailure("print command not executed: %s" % cmd)
            cp = to["cp"]
            dec = 1 if isinstance(cp, list) else 0
            logs.add("text", dict(a="Table", col=meta["col"], row=meta["row"], w=meta["w"], h=meta["h"], unrepr=to["unrepr"], dec=dec,
                                  cp=cp if dec else [], needed=to["ret0"], href=to["h"], runs=to["runs"]), src)
        elif meta["c"] == "D":
            do = o.get("d")
            if not do:
                raise tlc.ToolFailure("draw command not executed: %s" % cmd)
            rec = dict(a="Draw", fmt=meta["fmt"], stride=meta["stride"], col=meta["col"], row=meta["row"], w=meta["w"], h=meta["h"],
                       pad=list(do["pad"]), pre=do["pre"], post=do["post"])
            marks = set("".join(do["cells"]))
            if len(marks) == 1 and len(do["cells"]) == meta["h"] and all(len(x) == meta["w"] for x in do["cells"]):
                rec["uni"] = marks.pop()                                    # shorthand: all cells carry this mark
            else:
                rec["cells"] = split_cells(do["cells"])
            if "mrg" in meta:
                rec["mrg"] = meta["mrg"]
            logs.add("canvas", rec, src)
        n += 1
    return n, page


BAD = re.compile(r'<<"TV-BAD", (\d+), "([^"]*)", "([^"]*)">>')
SPEC = dict(io=("Trace_ExportIO", "Trace_ExportIO"), text=("Trace_ExportText", "Trace_ExportText"), canvas=("Trace_CanvasCells", "Trace_CanvasCells"))


def judge(ctx, logs, which, label, heap="6g", timeout=2400):
    """TLC judges the log; returns {line number: (what, class)} of the rejected lines"""
    if not logs.lines[which]:
        return {}
    mod, cfg = SPEC[which]
    r = tlc.run(mod, cfg, timeout=timeout, workers=1, heap=heap, env={"TRACEFILE": logs.path(which)}, deadlock=False)
    ctx.add_mc(r, "TV %s %s (%d lines)" % (which, label, len(logs.lines[which])))
    bad = {}
    for m in BAD.finditer(r.out):
        bad.setdefault(int(m.group(1)), (m.group(2), m.group(3)))
    if r.violation is None:
        if bad:
            raise tlc.ToolFailure("%s: rejected lines but no verdict" % mod)
        return {}
    if r.violation["kind"] == "invariant" and r.violation["name"] == "AllAccepted" and bad:
        return bad
    m = re.search(r'"TV-REJECT", (\d+), (\d+)', r.out)
    if m:
        raise tlc.ToolFailure("%s: log line %s of %s is not understood by the trace specification:\n%s" % (
            mod, m.group(1), m.group(2), json.dumps(logs.lines[which][int(m.group(1)) - 1])[:600]))
    # an invariant of the specification itself failed on a state reached through accepted steps
    ln = re.findall(r"/\\ l = (\d+)", r.violation.get("text", ""))
    at = int(ln[-1]) - 1 if ln else 0
    bad[at if at >= 1 else 1] = ("invariant", r.violation["name"])
    return bad


def report(ctx, logs, which, bad, sessions, scripts=None):
    """one violation per rejected line, keyed by what TLC said about it"""
    for ln in sorted(bad):
        what, cls = bad[ln]
        src = logs.where[which][ln - 1]
        rec = logs.lines[which][ln - 1]
        if src[0] == "W":
            sc = scripts[src[1]]
            key = "tv:io:%s:%s:%s" % (what, cls, sc["entry"])
            ctx.violate("tv", key, "script %s\nlog line: %s" % (json.dumps(sc), json.dumps(rec)[:700]), dict(kind="script", script=sc))
            continue
        si, fi, pi = src
        s = sessions[si]; f = s["fetches"][fi]
        if pi < 0:
            if cls == "binding":
                raise tlc.ToolFailure("the page is not the page of the model (%s): %s (%s)\nmodel %s\npage  %s" % (
                    what, f["cmd"], s["desc"], json.dumps(f.get("model")), json.dumps(rec)[:3000]))
            key = "tv:%s:%s:%s" % (which, what, cls)
            ctx.violate("tv", key, "page of %s (%s)" % (f["cmd"], s["desc"]), dict(kind="page", setup=s["setup"], fetch=f["cmd"], cmd=None, meta=None))
            continue
        cmd, meta = f["plan"][pi]
        if cls == "binding":
            raise tlc.ToolFailure("the case that ran is not the case TLC enumerated (%s): %s on the page of %s (%s)" % (what, cmd, f["cmd"], s["desc"]))
        if which == "io":
            key = "tv:io:%s:%s:%s" % (what, cls, meta["mod"])
        elif which == "text":
            key = "tv:text:%s:%s:%s" % (what, cls, s["kind"])
        else:
            key = "tv:draw:%s:%s:%s:%s" % (meta["kind"], what, cls, meta["fmt"] if meta["fmt"] in ("RGBA32_LE", "PAL8") else "unsupported")
        short = {k: (v if not isinstance(v, list) or len(v) < 60 else v[:60] + ["..."]) for k, v in rec.items()}
        ctx.violate("tv", key, "%s on the page of %s (%s)\nTLC: line rejected: %s / %s\nlog line: %s" % (
            cmd, f["cmd"], s["desc"], what, cls, json.dumps(short)[:1500]),
            dict(kind="page", setup=s["setup"], fetch=f["cmd"], cmd=cmd, meta=meta, model=f.get("model")))


def record_pages(ctx, drv, sessions, label, count=True, shadow=True, workers=8):
    shadows = [shadow_of(s) for s in sessions]
    if shadow:
        both = core.pmap(lambda a: run_sessions(ctx, drv, a[0], workers=a[1], fill=a[2]), [(sessions, 6, 0x5A), (shadows, 2, 0x27)], workers=2)
        res, res2 = both
    else:
        res = run_sessions(ctx, drv, sessions, workers=workers)
        res2 = [None] * len(sessions)
    logs = Logs(ctx, label)
    cases = []
    for si, (s, r) in enumerate(zip(sessions, res)):
        r2 = res2[si]
        if r2 is None:
            r2 = dict(lines=[])
        elif r2.get("skipped") or (r2["crashed"] and not core.sanitizer_reports(r2["stderr"])):
            raise tlc.ToolFailure("second recorder process failed in session %d: %s" % (si, r2["stderr"][-1500:]))
        pos2 = 0
        if r.get("skipped"):
            raise tlc.ToolFailure("recorder did not run session %d" % si)
        if r["stderr"]:
            sanitizers(ctx, r["stderr"], s)
        if r["crashed"] and not core.sanitizer_reports(r["stderr"]):
            raise tlc.ToolFailure("recorder died (rc=%s) in session %d (%s): %s" % (r["rc"], si, s["desc"], r["stderr"][-1500:]))
        lines = r["lines"]
        pos = 0
        for fi, f in enumerate(s["fetches"]):
            outs = lines[pos:pos + 1 + len(f["plan"])]
            pos += 1 + len(f["plan"])
            if len(outs) < 1 + len(f["plan"]):
                if r["crashed"]:
                    break
                raise tlc.ToolFailure("recorder output incomplete in session %d" % si)
            n2 = 1 + len(shadows[si]["fetches"][fi]["plan"])
            outs2 = r2["lines"][pos2:pos2 + n2]
            pos2 += n2
            n, page = log_fetch(logs, si, fi, s, f, outs, outs2 if shadow and len(outs2) == n2 else None)
            if page is None:
                ctx.notes.append("no page for %s (%s)" % (f["cmd"], s["desc"])) if len(ctx.notes) < 20 else None
                continue
            ph = hashlib.sha1(json.dumps(page["cells"]).encode()).hexdigest()[:12]
            wide = any(c[1] in (1, 3) for c in page["cells"])
            for pi, (cmd, meta) in enumerate(f["plan"]):
                cases.append(((si, fi, pi), (ph, cmd), wide or meta["c"] != "D"))
    return logs, cases


def sanitizers(ctx, stderr, s):
    """memory errors inside the export / rendering code are this property's business, the rest is only noted"""
    for kind, fn, where in core.sanitizer_reports(stderr):
        if kind.startswith("asan:") and re.match(r"(exp-|export\.c|conv\.c)", where):
            i = stderr.find(where)
            ctx.violate("sanitizer", "%s:%s" % (kind, fn), stderr[max(0, i - 300):i + 2000], dict(kind="page", setup=s["setup"], fetch=None, cmd=None, meta=None))
        else:
            note = "sanitizer report outside this property's statement (see C01): %s:%s at %s" % (kind, fn, where)
            if note not in ctx.notes:
                ctx.notes.append(note)


# ----------------------------------------------------------------------------- scripted export module
def w_line(sc):
    """the script as a command for the scripted export module; a Write of the model is vbi_export_write or (every third one) vbi_export_puts"""
    t = dict(MEM="mem", ALLOC="alloc", FP="stdio", FILE="file")[sc["entry"]]
    ops = []
    for i, o in enumerate(sc["ops"]):
        op = "s" if o["op"] == "w" and (i + len(sc["ops"]) + o["n"]) % 3 == 2 else o["op"]
        ops.append("%s%d" % (op, o["n"]) if op in "wpgs" else op)
    return "W %s %d %s" % (t, sc["csize"], " ".join(ops))


def record_scripts(ctx, drv, scripts, label):
    n = 8
    chunks = [list(range(k, len(scripts), n)) for k in range(n)]
    env = build.san_env({"VERIF_SCRATCH": ctx.scratch})

    def job(idx):
        """all scripts of the chunk in one process; after a crash the rest continues in a new one"""
        got, crashes, todo = {}, [], list(idx)
        while todo:
            r = core.run_seq_driver([drv], [[w_line(scripts[i]) for i in todo]], env=env, timeout=1200, max_restarts=0)[0]
            for i, o in zip(todo, r["lines"]):
                got[i] = o["w"]
            k = len(r["lines"])
            if k >= len(todo):
                break
            crashes.append((todo[k], r["stderr"]))
            todo = todo[k + 1:]
            if len(crashes) > 20:
                break
        return got, crashes
    logs = Logs(ctx, label)
    outs = [None] * len(scripts)
    died = set()
    for got, crashes in core.pmap(job, chunks, workers=n):
        for i, w in got.items():
            outs[i] = w
        for i, stderr in crashes:
            died.add(i)
            reps = [x for x in core.sanitizer_reports(stderr) if x[0].startswith("asan:")]       # UBSan reports do not end the process
            if not reps:
                raise tlc.ToolFailure("scripted export module died on %s: %s" % (w_line(scripts[i]), stderr[-1200:]))
            kind, fn, where = reps[0]
            at = stderr.find("ERROR: AddressSanitizer")
            ctx.violate("sanitizer", "%s:%s:%s" % (kind, fn, scripts[i]["entry"]), "%s\n%s" % (w_line(scripts[i]), stderr[max(0, at):at + 2500]),
                        dict(kind="script", script=scripts[i]))
    for i, (sc, w) in enumerate(zip(scripts, outs)):
        src = ("W", i)
        if i in died:
            continue
        if w is None:
            raise tlc.ToolFailure("script not executed: " + w_line(sc))
        logs.add("io", dict(a="Begin", t=w["begin"]["t"], n=w["begin"]["n"]), src)
        for o in w["ops"]:
            logs.add("io", dict(a="Op", **o), src)
        e = w["end"]
        if w["begin"]["t"] == "MEM":
            logs.add("io", dict(a="End", ok=1 if e["ret"] >= 0 else 0, ret=e["ret"], guard=e["guard"], out=e["cmem"]), src)
        else:
            logs.add("io", dict(a="End", ok=e["ok"], ret=len(e["out"]), guard=0, out=e["out"]), src)
    return logs, died


# ----------------------------------------------------------------------------- the check
def model_checking(ctx, quick):
    runs = [("ExportIO", "MC_ExportIO_q" if quick else "MC_ExportIO_t", None),
            ("MC_ExportText", "MC_ExportText_q" if quick else "MC_ExportText_t", None),
            ("MC_CanvasCells", "MC_CanvasCells_q" if quick else "MC_CanvasCells_t", None),
            ("MC_CanvasCells", "MC_CanvasCells_q2" if quick else "MC_CanvasCells_t2", None),
            ("MC_CanvasCells", "MC_CanvasCells_q3" if quick else "MC_CanvasCells_t3", None),
            # companions: the same invariants must fail when the design is broken
            ("ExportIO", "MC_ExportIO_nocarry", "Conserved"), ("ExportIO", "MC_ExportIO_noswitch", "MemBounded"),
            ("ExportIO", "MC_ExportIO_reach", "NeverFitsAfterSwitch"), ("MC_CanvasCells", "MC_CanvasCells_noclip", "Frame"),
            ("MC_CanvasCells", "MC_CanvasCells_pageclip", "Frame")]
    if not quick:
        runs.insert(2, ("MC_ExportText", "MC_ExportText_t2", None))

    def job(x):
        mod, cfg, expect = x
        return x, tlc.run(mod, cfg, timeout=2400, workers=2, heap="6g", coverage=(not quick and expect is None))
    for (mod, cfg, expect), r in core.pmap(job, runs, workers=4):
        if expect is None:
            ctx.add_mc(r, cfg)
            if r.violation:
                ctx.violate("mc", "mc:%s:%s" % (r.violation["kind"], r.violation["name"]), r.violation["text"][:3000])
        elif not r.violation or r.violation["name"] != expect:
            raise tlc.ToolFailure("%s: the broken design passes %s (the specification lost its teeth)" % (cfg, expect))


def run_edge(ctx, drv, quick):
    """every edge page of the model x every region (TLC enumerates, the driver draws, TLC judges)"""
    sessions = edge_sessions(ctx, quick)
    size = (len(sessions) + 3) // 4 if quick else 40
    chunks = [list(range(k, min(k + size, len(sessions)))) for k in range(0, len(sessions), size)]

    def job(idx):
        part = [sessions[i] for i in idx]
        logs, cases = record_pages(ctx, drv, part, "e%d" % idx[0], shadow=False, workers=2)
        return part, logs, cases, judge(ctx, logs, "canvas", "edge pages %d.." % idx[0], heap="3g"), judge(ctx, logs, "io", "edge pages %d.." % idx[0], heap="3g")
    npage = nwide = 0
    for part, logs, cases, bad, bad_io in core.pmap(job, chunks, workers=4):
        report(ctx, logs, "canvas", bad, part)
        report(ctx, logs, "io", bad_io, part)
        rejected = {logs.where["canvas"][ln - 1] for ln in bad} | {logs.where["io"][ln - 1] for ln in bad_io}
        for src, canon, nontrivial in cases:
            ctx.count_case(canon, nontrivial=nontrivial)
            if src not in rejected and (src[0], src[1], -1) not in rejected:
                ctx.validated()
        for rec in logs.lines["canvas"]:
            if rec["a"] == "Page":
                npage += 1
                cols = rec["cols"]
                nwide += any(rec["sz"][r * cols + cols - 1] in (1, 3, 7) for r in range(rec["rows"]))
    # vacuity guard: the arrangement the frame condition is about at the page's edge was really drawn
    if (npage != len(sessions) or nwide < 3) and not ctx.violations:
        raise tlc.ToolFailure("edge pages: %d of %d pages fetched, %d with a wide cell in the last column" % (npage, len(sessions), nwide))
    ctx.notes.append("edge pages: %d pages x all regions of the model, %d pages with a double width / size cell in the last column" % (npage, nwide))
    s = sessions[len(sessions) // 3]; f = s["fetches"][0]
    ctx.sample(dict(source="TLC-enumerated " + s["desc"], fetch=f["cmd"], commands=[p[0] for p in f["plan"][:3]], regions=len(f["plan"])))


def run(ctx):
    quick = ctx.tier == "quick"
    ctx.cov["rule"] = ("cases = (a) operation scripts generated by TLC from ExportIO, executed by a scripted export module through the four target "
                       "functions, (b) commands on decoded pages: export (module, options) to all four targets with a set of caller sizes, "
                       "vbi_print_page_region(region, encoding) with a set of buffer sizes, draw (format, stride, region); every case is a group "
                       "of log lines judged by TLC; distinct by (page content, command) / script; non-trivial = the script overflows a caller "
                       "buffer or reaches a file, the export / print command ran (every one tries sizes below the needed one), the drawn page "
                       "has double width or double size characters; (c) every region of every edge page enumerated by TLC (Gen_CanvasCells), one "
                       "case per (page, region, format, stride, reveal, flash)")
    ctx.assumptions += ["the C library's iconv defines which code points an encoding can represent and converts the output back",
                        "libpng / zlib produce the same stream for the same image (png module)",
                        "RGBA32_LE canvases have row strides that are multiples of 4 bytes",
                        "glyph pixels inside a cell are trusted (the full-page rendering is the oracle for a cell)"]
    drv = build.build_driver("drv_exportio")
    # the exhaustive model checking runs beside the scripted export module (joined below: its verdicts and failures count as before)
    from concurrent.futures import ThreadPoolExecutor
    pool = ThreadPoolExecutor(1)
    mc = pool.submit(model_checking, ctx, quick)
    try:
        run_bound(ctx, drv, quick, mc)
    finally:
        pool.shutdown(wait=True)
    mc.result()
    ctx.cov["exhaustive"] = False


def run_bound(ctx, drv, quick, mc):
    # ---- scripted export module
    scripts = []
    for cfg, keep in ([("Gen_ExportIO_q", 1), ("Gen_ExportIO_big", 6)] if quick else [("Gen_ExportIO_t", 1), ("Gen_ExportIO_big", 1)]):
        g = tlc.run("Gen_ExportIO", cfg, timeout=1200, workers=4, heap="6g", collect_tr=True, sample_tr=(keep, ctx.seed))
        if g.violation:
            raise tlc.ToolFailure("GEN run reported " + str(g.violation))
        ctx.add_mc(g, "GEN " + cfg)
        scripts += g.tr
    for k in range(0, len(scripts), 4000):
        part = scripts[k:k + 4000]
        logs, died = record_scripts(ctx, drv, part, "w%d" % k)
        bad = judge(ctx, logs, "io", "scripts %d.." % k)
        report(ctx, logs, "io", bad, None, part)
        rejected = {logs.where["io"][ln - 1][1] for ln in bad} | died
        for i, sc in enumerate(part):
            nontrivial = (sc["entry"] == "MEM" and sum(o["n"] for o in sc["ops"] if o["op"] in "wpcg") > sc["csize"]) or \
                         (sc["entry"] in ("FP", "FILE") and any(o["op"] in "wpcf" for o in sc["ops"]))
            ctx.count_case(w_line(sc), nontrivial=nontrivial)
            if i not in rejected:
                ctx.validated()
    if scripts:
        ctx.sample(dict(source="TLC-generated script for the scripted export module", command=w_line(scripts[len(scripts) // 2])))
    mc.result()
    # ---- edge pages x all regions
    run_edge(ctx, drv, quick)
    # ---- pages
    sessions = make_sessions(ctx, quick)
    for k in range(0, len(sessions), 24):
        part = sessions[k:k + 24]
        logs, cases = record_pages(ctx, drv, part, "p%d" % k)
        verdicts = core.pmap(lambda w: (w, judge(ctx, logs, w, "pages %d.." % k)), ["io", "text", "canvas"], workers=3)
        rejected = set()
        for w, bad in verdicts:
            report(ctx, logs, w, bad, part)
            rejected |= {logs.where[w][ln - 1] for ln in bad}
        for src, canon, nontrivial in cases:
            ctx.count_case(canon, nontrivial=nontrivial)
            if src not in rejected and (src[0], src[1], -1) not in rejected:
                ctx.validated()
        if k == 0 and part:
            s = part[0]; f = s["fetches"][0]
            ctx.sample(dict(source="decoded Teletext page (%s), %d packets" % (s["desc"], len(s["setup"]) - 1), fetch=f["cmd"],
                            commands=[p[0] for p in f["plan"][:1] + f["plan"][-3:]]))
            s = part[-1]; f = s["fetches"][0] if s["fetches"] else None
            if f:
                ctx.sample(dict(source="decoded page (%s)" % s["desc"], fetch=f["cmd"], commands=[p[0] for p in f["plan"][:2]]))


def replay(ctx, rp):
    drv = build.build_driver("drv_exportio")
    r = rp["replay"]
    if r["kind"] == "script":
        logs, died = record_scripts(ctx, drv, [r["script"]], "replay")
        for rec in logs.lines["io"]:
            print(json.dumps(rec)[:400])
        bad = judge(ctx, logs, "io", "replay")
        report(ctx, logs, "io", bad, None, [r["script"]])
        return
    plan = [(r["cmd"], r["meta"])] if r.get("cmd") else []
    fetches = [dict(cmd=r["fetch"], rows=0, cols=0, plan=plan, model=r.get("model"))] if r.get("fetch") else []
    s = dict(kind="vt" if any(c.startswith("P ") for c in r["setup"]) else "cc", setup=r["setup"], desc="replay", fetches=fetches)
    logs, cases = record_pages(ctx, drv, [s], "replay", shadow=not r.get("model"))
    for w in ("io", "text", "canvas"):
        for rec in logs.lines[w]:
            if rec["a"] != "Page":
                print(json.dumps(rec)[:600])
        bad = judge(ctx, logs, w, "replay")
        report(ctx, logs, w, bad, [s])


def selftest(ctx):
    """corrupt single fields of recorded logs: every corruption must be rejected by the trace specifications, the originals accepted"""
    import copy
    drv = build.build_driver("drv_exportio")
    sessions = make_sessions(ctx, True)[:2]
    for s in sessions:
        s["fetches"] = s["fetches"][:1]
    edge = [e for e in edge_sessions(ctx, True) if e["kind"] == "vt" and any(e["fetches"][0]["model"]["sz"])][:2]
    for e in edge:
        e["fetches"][0]["plan"] = e["fetches"][0]["plan"][:40]
    sessions += edge
    logs, cases = record_pages(ctx, drv, sessions, "self")
    scripts = [dict(entry="MEM", csize=4, ops=[dict(op="w", n=3), dict(op="g", n=8), dict(op="c", n=1)]),
               dict(entry="FILE", csize=0, ops=[dict(op="w", n=3), dict(op="f", n=0), dict(op="p", n=3)])]
    wlogs, died = record_scripts(ctx, drv, scripts, "selfw")
    ok = True
    for which, lg in (("io", logs), ("text", logs), ("canvas", logs), ("io", wlogs)):
        if judge(ctx, lg, which, "selftest original"):
            print("selftest: original %s log rejected" % which); ok = False

    def first(lg, which, pred):
        return next(i for i, r in enumerate(lg.lines[which]) if pred(r))

    def expand(r):
        if "uni" in r:
            r["cells"] = [[r["uni"]] * r["w"] for _ in range(r["h"])]
            del r["uni"]

    def flip_cell(r):
        expand(r)
        r["cells"][0][0] = "U" if r["cells"][0][0] == "G" else "G"

    def x_cell(r):
        expand(r)
        r["cells"][0][0] = "X"
    muts = [("io", wlogs, lambda r: r["a"] == "End" and r["out"], lambda r: r["out"].__setitem__(0, r["out"][0] ^ 1), "delivered byte changed"),
            ("io", wlogs, lambda r: r["a"] == "Op" and r["target"] == "ALLOC", lambda r: r.__setitem__("target", "MEM"), "target stays MEM"),
            ("io", wlogs, lambda r: r["a"] == "Op" and r["op"] == "g", lambda r: r.__setitem__("cap", r["off"]), "buffer not grown"),
            ("io", wlogs, lambda r: r["a"] == "End" and r["guard"] == 0, lambda r: r.__setitem__("guard", 1), "guard byte modified"),
            ("io", logs, lambda r: r["a"] == "Export" and r["t"] == "FP", lambda r: r.__setitem__("h", "0" * 16), "stream data differs"),
            ("io", logs, lambda r: r["a"] == "Export" and r["t"] == "FILE", lambda r: r.__setitem__("len", r["len"] + 1), "file longer"),
            ("io", logs, lambda r: r["a"] == "ExportMem" and r["from"] > 0, lambda r: r.__setitem__("ret", r["ret"] - 1), "size returned too small"),
            ("io", logs, lambda r: r["a"] == "ExportMem", lambda r: r.__setitem__("guard", 2), "wrote beyond the buffer"),
            ("text", logs, lambda r: r["a"] == "Export" and len(r["cp"]) > 50, lambda r: r["cp"].pop(45), "character lost"),
            ("text", logs, lambda r: r["a"] == "Export" and len(r["cp"]) > 50, lambda r: r["cp"].insert(45, r["cp"][45]), "character duplicated"),
            ("text", logs, lambda r: r["a"] == "Table" and r["cp"], lambda r: r["cp"].__setitem__(0, 0xEE21), "graphics character in table output"),
            ("text", logs, lambda r: r["a"] == "Table" and len(r["runs"]) > 1, lambda r: r["runs"][0].__setitem__(2, 1), "short buffer reported as success"),
            ("canvas", logs, lambda r: r["a"] == "Draw" and r["fmt"] == "PAL8" and r["w"] == 41 and r["h"] == 1, flip_cell, "cell not drawn"),
            ("canvas", logs, lambda r: r["a"] == "Draw" and r["fmt"] == "PAL8", lambda r: r["pad"].__setitem__(0, "X"), "padding touched"),
            ("canvas", logs, lambda r: r["a"] == "Draw" and r["fmt"] not in ("PAL8", "RGBA32_LE"), x_cell, "unsupported format drew"),
            ("canvas", logs, lambda r: r["a"] == "Draw", lambda r: r.__setitem__("post", 12), "wrote behind the canvas"),
            ("canvas", logs, lambda r: r["a"] == "Draw" and "mrg" in r, lambda r: r.__setitem__("pad", ["X"] + r["pad"][1:]), "padding touched (edge page)"),
            ("canvas", logs, lambda r: r["a"] == "Page" and "m" in r, lambda r: r["m"]["sz"].__setitem__(max(i for i, z in enumerate(r["m"]["sz"]) if z), 0),
             "page is not the model's page"),
            ("canvas", logs, lambda r: r["a"] == "Draw" and "mrg" in r and r["mrg"][0] > 1, lambda r: r["mrg"].__setitem__(0, r["mrg"][0] - 1),
             "region is not the model's region")]
    for which, lg, pred, mut, what in muts:
        try:
            i = first(lg, which, pred)
        except StopIteration:
            print("selftest: no line to corrupt for: " + what); ok = False
            continue
        c = Logs(ctx, "selfm")
        c.lines = copy.deepcopy(lg.lines); c.where = lg.where
        mut(c.lines[which][i])
        bad = judge(ctx, c, which, "selftest " + what)
        hit = (i + 1) in bad
        print("selftest: %-40s %s %s" % (what, "rejected" if hit else "ACCEPTED", bad.get(i + 1, "")))
        ok = ok and hit
    print("selftest:", "ok" if ok else "FAILED")
    return 0 if ok else 1
