"""C18 - each proxy client gets every captured frame, filtered to its services, in order.

spec/ProxyQueue.tla  capture clock, reference-counted frame queue with per-client cursors, service subscriptions at four
                     strictness levels, device open/close, bounded sockets, ghost "owed" (what each client must still get)
MC   exhaustive (2 clients quick, 3 clients thorough; select and thread variant): Delivery (exactly once, in order, none
     missing), Filtered, RefCount, CursorOK, DeviceOpen, LossOnlyWhenFull, OnlyBlockedLose
GEN  TLC random walks through ProxyQueue (Connect, ServiceReq, Disconnect, Tick, Read; a client that does not read is
     stalled) + seeded long schedules with stalls, bursts and service changes
TV   every schedule is executed step by step against the real zvbid on the synthetic device (select variant and
     acquisition-thread variant) with clients through the real client library and raw-socket clients; the daemon's
     action trace and every frame each client received (timestamp, line ids; payload compared with the device's) are
     validated by Trace_ProxyQueue."""
import json, os, random, re
from vlib import tlc, build, core, proxy
from vlib.proxy import MSG
from checks import c19

MANIFEST = dict(
    level="model_checking",
    engine="tlc-mc+trace-validation",
    technique="TLA+ spec ProxyQueue (reference-counted frame queue with per-client cursors, service sets per strictness level, device "
              "open/close, bounded sockets, force-free; select-loop and acquisition-thread variants) checked exhaustively by TLC; TLC-generated "
              "and seeded schedules (tick, read, stall, service request, disconnect, bursts) are executed against the real daemon on a "
              "synthetic capture device whose clock the harness owns, with clients through the real client library and raw sockets; the "
              "daemon's hook trace and every frame received by every client are validated step by step against the spec by TLC",
    text="TLC explores all interleavings of connect, service change, disconnect, capture, per-client send and read for 2-3 clients, 2 "
         "services, 2-3 queue buffers and 1-2 frames of socket capacity: what a client reads is exactly the sequence of frames captured "
         "while it was subscribed (minus frames it lost while blocked with the queue full and frames queued at its own service change), "
         "each with exactly the lines of its granted services; reference counts equal the number of cursors; only blocked clients lose "
         "frames; the device is open for exactly the union of granted services. The real daemon (both variants) executes the schedules; "
         "TLC accepts the recorded trace and the clients' frames only if every step and every state dump is a step of the specification.",
    note="Bounded: 2-3 clients, 3-4 frames in MC; real runs are sampled (seeded). The harness serialises stimuli (one at a time, daemon "
         "quiescent in between) except for bursts of frames; races between the acquisition thread and the main loop are covered by the "
         "thread-variant model only. Raw VBI services, norm changes and the TCP transport are not exercised. The kernel's socket semantics "
         "are trusted. Mutex discipline of the thread variant is not modelled here.",
)

NAME2MASK = dict(ttx=proxy.VBI_SLICED_TELETEXT_B, vps=proxy.VBI_SLICED_VPS, cc=proxy.VBI_SLICED_CAPTION_625, wss=proxy.VBI_SLICED_WSS_625,
                 x=0x00000100)      # x: a service the synthetic device does not have (VBI_SLICED_VBI_525 region bit)
ID2NAME = {proxy.VBI_SLICED_TELETEXT_B: "ttx", proxy.VBI_SLICED_VPS: "vps", proxy.VBI_SLICED_CAPTION_625: "cc", proxy.VBI_SLICED_WSS_625: "wss"}


def mask_of(names):
    m = 0
    for n in names:
        m |= NAME2MASK[n]
    return m


# ------------------------------------------------------------------------------------------------ execution

class Run:
    """one daemon process with library and raw clients; records what the clients received"""

    def __init__(self, lay, thread, variant="asan"):
        self.lay = lay
        self.ses = proxy.Session(lay, thread=thread, buffers=1, sndbuf=1, maxclients=20, variant=variant,
                                 send_delay_us=300 if thread else None)
        self.d = self.ses.d
        self.lib = proxy.LibClients(self.d, variant)
        self.cl = {}            # model client -> dict(kind, raw | slot, fd, acc, nread, svc_at)
        self.cl_all = []        # every connection made in this process
        self.reads = []         # (trace position, acc, record)
        self.problems = []      # (key, detail) found by the harness itself (payload, timestamps)
        self.nslot = 0
        self.shutdown = False

    # ---- helpers
    def conn_alive(self, k):
        c = self.cl.get(k)
        if c is None or c.get("gone"):
            return False
        return self._dropped(c) is None

    def _dropped(self, c):
        evs = self.d.events
        for i in range(c["acc"] + 1, len(evs)):
            if evs[i]["e"] == "closing" and evs[i].get("c") == c["fd"]:
                return i
        return None

    def avail(self, c):
        """frames the daemon has sent to this connection and the client has not taken yet"""
        evs = self.d.events
        start = c["svc_at"] if c["kind"] == "lib" else c["acc"]
        n = sum(1 for i in range(start, len(evs)) if evs[i]["e"] == "snd" and evs[i].get("c") == c["fd"])
        return n - c["nread"]

    def blocked(self, c):
        idle = self.d.last_idle()
        return idle is not None and c["fd"] in idle.get("w", [])

    def check_frame(self, c, ts, lines):
        """content oracle: the payload of every received line is what the synthetic device produced for that frame"""
        names = []
        for sid, line, hexdata in lines:
            if sid not in ID2NAME or (sid, line) not in proxy.SIM_LINES:
                self.problems.append(("content:unknown-line", "client fd %d frame %d: line %d with service id 0x%x" % (c["fd"], ts, line, sid)))
                continue
            if hexdata != proxy.sim_payload(ts, line).hex():
                self.problems.append(("content:payload", "client fd %d frame %d line %d: payload %s differs from the device's %s"
                                      % (c["fd"], ts, line, hexdata[:32], proxy.sim_payload(ts, line).hex()[:32])))
            if ID2NAME[sid] not in names:
                names.append(ID2NAME[sid])
        want = [[sid, ln] for sid, ln in proxy.SIM_LINES if ID2NAME[sid] in names]
        if [[sid, ln] for sid, ln, _ in lines] != want:
            self.problems.append(("content:lines", "client fd %d frame %d: lines %s, expected the lines %s of its services in ascending order"
                                  % (c["fd"], ts, [[s, l] for s, l, _ in lines], want)))
        return names

    def record_read(self, c, ts, lines):
        names = self.check_frame(c, ts, lines)
        self.reads.append((self.d.pos(), c["acc"], dict(e="read", c=c["fd"], id=ts, lines=names)))
        c["nread"] += 1

    # ---- steps
    def connect(self, k, kind, names, strict):
        if self.conn_alive(k):
            return False
        mask = mask_of(names)
        if mask and not (mask & proxy.SIM_SERVICES):
            return False                            # would be rejected (C19)
        if kind == "lib":
            slot = self.nslot % 8
            self.nslot += 1
            for x in [x for x in self.cl.values() if x["kind"] == "lib" and x["slot"] == slot and not x.get("gone")]:
                self.lib.cmd("D %d" % slot)     # (a connection the daemon has dropped)
                x["gone"] = True
            self.lib.create(slot)
            r = self.lib.start(slot, mask, strict=strict - 1, buffers=1, scanning=625)
            c = dict(kind="lib", slot=slot, fd=self.lib.fd[slot], acc=self.lib.acc[slot], nread=0)
            c["svc_at"] = c["acc"]
            if not r.get("cap") and mask:
                self.problems.append(("lib:connect", "vbi_capture_proxy_new failed: %s" % r))
        else:
            rc = self.ses.connect("r%d" % k)
            self.ses.send_msg(rc, self.lay.connect_req(services=mask, strict=strict - 1, buffers=1, scanning=625))
            rc.read_one("CONNECT_CNF")
            c = dict(kind="raw", raw=rc, fd=rc.fd, acc=rc.acc, nread=0, svc_at=rc.acc)
        self.cl[k] = c
        self.cl_all.append(c)
        return True

    def service(self, k, names, strict, reset):
        if not self.conn_alive(k):
            return False
        c = self.cl[k]
        mask = mask_of(names)
        p = self.d.pos()
        if c["kind"] == "lib":
            self.lib.call(c["slot"], "U %d %d 1 %d %d" % (c["slot"], 1 if reset else 0, mask, strict - 1))
            # the library discards the frames it had not read while it waits for the confirmation
            i = self.d.wait_event(lambda e: e["e"] == "msg" and e.get("c") == c["fd"], p, what="service confirmation")
            c["svc_at"] = i
            c["nread"] = 0
        else:
            if self.blocked(c):
                self.read_all(k)            # the daemon takes no request while its write to this client is stuck
            self.ses.send_msg(c["raw"], self.lay.service_req(mask, strict=strict - 1, reset=1 if reset else 0))
            # a client waits for the confirmation; the frames in front of it are read (and kept, unlike the library)
            while self._dropped(c) is None:
                m = c["raw"].read_one("SERVICE_CNF")
                if m is None or m["t"] in (MSG["SERVICE_CNF"], MSG["SERVICE_REJ"]):
                    break
                if m["t"] == MSG["SLICED_IND"]:
                    self.record_read(c, m["ts"], m["lines"])
        return True

    def tick_and_service(self, k, names, strict, reset):
        """a frame and a service request of raw client k reach the daemon in the same wake-up of its main loop (the
        daemon process is stopped while both are written): the frame is captured and queued for k, then k's request is
        taken - the frame is still queued for k when k changes its services"""
        if self.d.thread:
            # thread variant: the order of the capture and of the steps of the request is the scheduler's choice and
            # the specification takes a service request as one step - one after the other here
            self.tick()
            return self.service(k, names, strict, reset)
        if not self.conn_alive(k) or self.cl[k]["kind"] != "raw" or not c19.device_open(self.d):
            return False
        c = self.cl[k]
        if self.blocked(c):
            self.read_all(k)
        d = self.d
        p = d.pos()
        d.freeze()
        try:
            d.frame += 1
            f = d.frame
            os.write(d.tick_fd, proxy.struct.pack("=I", f))
            msg = self.lay.service_req(mask_of(names), strict=strict - 1, reset=1 if reset else 0)
            c["raw"].labels.append(dict(wf=True))
            c["raw"].s.send(msg)
        finally:
            d.thaw()
        fd = c["fd"]
        d.wait_quiet(p, lambda e: e["e"] == "cap" and e["id"] == f, "tick %d (with a service request)" % f)
        d.wait_quiet(p, lambda e: e.get("c") == fd and e["e"] in ("msg", "closing"), "service request (with a tick)")
        while self._dropped(c) is None:
            m = c["raw"].read_one("SERVICE_CNF")
            if m is None or m["t"] in (MSG["SERVICE_CNF"], MSG["SERVICE_REJ"]):
                break
            if m["t"] == MSG["SLICED_IND"]:
                self.record_read(c, m["ts"], m["lines"])
        return True

    def disconnect(self, k):
        if not self.conn_alive(k):
            return False
        c = self.cl[k]
        if c["kind"] == "lib":
            p = self.d.pos()
            self.lib.cmd("X %d" % c["slot"])
            self.lib.cmd("D %d" % c["slot"])
            fd = c["fd"]
            i = self.d.wait_event(lambda e: e["e"] == "closing" and e.get("c") == fd, p, what="daemon to notice the disconnect")
            self.d.wait_quiet(i, lambda e: e["e"] == "gone", "disconnect")
        else:
            c["raw"].close()
        c["gone"] = True
        return True

    def read(self, k):
        """the client takes one frame (if the daemon has sent one)"""
        if not self.conn_alive(k):
            return False
        c = self.cl[k]
        if self.avail(c) <= 0:
            return False
        if c["kind"] == "lib":
            r = self.lib.read(c["slot"])
            if r.get("r") != 1:
                raise proxy.Hang("library client fd %d: vbi_capture_pull_sliced returned %s though the daemon has sent a frame" % (c["fd"], r))
            self.record_read(c, r["ts"], r["lines"])
        else:
            while True:
                m = c["raw"].read_one("frame")
                if m is None:
                    raise proxy.Hang("raw client fd %d: connection ended though the daemon has sent a frame" % c["fd"])
                if m["t"] == MSG["SLICED_IND"]:
                    self.record_read(c, m["ts"], m["lines"])
                    break
        return True

    def read_all(self, k):
        """the client reads everything the daemon has sent and is able to send.  While the daemon reported the
        connection as write-blocked, emptying the socket makes it writable, so the daemon must run and go idle again."""
        n = 0
        while self.conn_alive(k):
            c = self.cl[k]
            ki = self.d.last_idle_index()
            while self.avail(c) > 0:
                self.read(k)
                n += 1
            if c["fd"] in self.d.events[ki].get("w", []):
                self.d.wait_event(lambda e: e["e"] == "idle", ki + 1, what="idle after unblocking fd %d" % c["fd"])
                continue
            if self.d.last_idle_index() == ki and self.avail(c) <= 0:
                break
        return n

    def tick(self):
        if not c19.device_open(self.d):
            return False
        self.d.tick(1)
        return True

    def burst(self, n):
        if not c19.device_open(self.d):
            return False
        self.d.burst(n)
        return True

    def finish(self):
        """everybody reads what is left; returns the descriptors of the clients that are still connected"""
        kept = []
        for k in list(self.cl):
            if self.conn_alive(k):
                self.read_all(k)
                kept.append(self.cl[k]["fd"])
        return kept

    def stop(self):
        try:
            if self.shutdown:
                self.d.stop()   # SIGTERM with clients connected and frames queued
            self.lib.stop()
        finally:
            self.ses.stop()
            if os.environ.get("VERIF_KEEP"):
                with open(os.path.join(os.environ["VERIF_KEEP"], "daemon-events.ndjson"), "a") as f:
                    f.write(json.dumps(dict(e="start", thread=self.d.thread)) + "\n")
                    for e in self.d.events:
                        f.write(json.dumps(e) + "\n")

    # ---- the log of Trace_ProxyQueue
    def queue_log(self, ends):
        """ends: list of (trace position, kept descriptors) - one "end" line per schedule"""
        evs = list(self.d.events)
        kind = {c["acc"]: c["kind"] for c in self.cl_all}
        reads = sorted(self.reads, key=lambda r: r[0])
        ri = 0
        ends = sorted(ends)
        ei = 0
        out, src = [dict(e="reset")], [-1]
        cur = {}
        forced = []
        grouped = set()
        deferred = []
        dropping = None
        last_idle = None
        prev_idle = False       # the previous daemon line (force lines aside) was an idle line

        def names(mask):
            return proxy.service_names(mask)

        def dump(e):
            return dict(clients=[[cl[0], cl[1], cl[2], 0, names(cl[4]), cl[5]] for cl in e["clients"]], open=e["open"],
                        devsrv=names(e["devsrv"]), queue=e["queue"])

        def emit(rec, i):
            out.append(rec); src.append(i)

        def emit_with_state(rec, i):
            """connect / service / drop line with its state dump; fetches of the restarted acquisition thread go between"""
            if not deferred:
                rec["chk"] = True
                emit(rec, i)
                return
            rec["chk"] = False
            emit(rec, i)
            for r, j in deferred:
                emit(r, j)
            del deferred[:]
            emit(dict(e="state", st=rec["st"]), i)

        def flush(i, acc=None):
            nonlocal ri, ei
            if acc is not None:
                rest = []
                for r in reads[ri:]:
                    if r[1] == acc:
                        emit(r[2], i)
                    else:
                        rest.append(r)
                reads[ri:] = rest
                return
            while ri < len(reads) and reads[ri][0] <= i:
                emit(reads[ri][2], i); ri += 1
            while ei < len(ends) and ends[ei][0] <= i:
                emit(dict(e="end", kept=ends[ei][1]), i); ei += 1

        for i, e in enumerate(evs):
            flush(i)
            k, fd = e["e"], e.get("c")
            if k == "idle":
                last_idle = e
                prev_idle = True
                continue
            if k in ("force", "wake"):
                if k == "force" and not self.d.thread:
                    forced.append([fd, e["id"]])
                elif k == "force" and i not in grouped:
                    # thread variant: the acquisition thread takes its buffer before it waits for the frame.  One
                    # call forces the same head frame away from several clients (lines of the main loop may lie between)
                    grp = []
                    for j in range(i, len(evs)):
                        if evs[j]["e"] == "force" and evs[j]["id"] == e["id"]:
                            grp.append([evs[j]["c"], evs[j]["id"]])
                            grouped.add(j)
                        elif evs[j]["e"] in ("cap", "force"):
                            break
                    rec = dict(e="fetch", forced=grp)
                    if dropping is not None or any(x["pend"] is not None for x in cur.values()):
                        # the acquisition thread was restarted by the service update of the message / removal being
                        # processed: its line follows, and the state dump of that line is taken after this fetch
                        deferred.append((rec, i))
                    else:
                        emit(rec, i)
                continue
            was_idle, prev_idle = prev_idle, False
            if k == "accept":
                cur[fd] = dict(acc=i, pend=None)
                emit(dict(e="accept", c=fd), i)
            elif k == "rcv":
                if fd in cur:
                    cur[fd]["pend"] = e
            elif k == "msg":
                st = cur.get(fd)
                if st is None or st["pend"] is None:
                    continue
                r = st["pend"]; st["pend"] = None
                mine = [cl for cl in e["clients"] if cl[0] == fd]
                if mine and mine[0][1] == 1:
                    st["pend"] = r
                    continue
                if r["t"] == MSG["CONNECT_REQ"]:
                    emit_with_state(dict(e="connect", c=fd, srv=names(r["a"][0]), strict=r["a"][1], st=dump(e)), i)
                elif r["t"] == MSG["SERVICE_REQ"]:
                    emit_with_state(dict(e="service", c=fd, srv=names(r["a"][0]), strict=r["a"][1], reset=bool(r["a"][2]),
                                         discard=(kind.get(st["acc"]) == "lib"), st=dump(e)), i)
            elif k == "closing":
                dropping = fd
            elif k == "gone":
                fd, dropping = dropping, None
                st = cur.pop(fd, None)
                if st is not None:
                    flush(i, st["acc"])
                emit_with_state(dict(e="drop", c=fd, st=dump(e)), i)
            elif k == "cap":
                emit(dict(e="tick", id=e["id"], lines=names(e["devsrv"]), n=e["n"], refs=e["refs"], forced=forced,
                          blk=(last_idle or {}).get("w", []), quiet=was_idle), i)
                forced = []
            elif k == "snd":
                emit(dict(e="send", c=fd, id=e["id"], n=e["n"]), i)
        flush(len(evs))
        return out, src


def execute(run, steps, seed):
    """one schedule; returns the descriptors of the clients that have read everything at its end"""
    rnd = random.Random(seed)
    kinds = {}
    for st in steps:
        a, k = st["a"], st.get("c")
        if k is not None and k not in kinds:
            kinds[k] = st.get("kind") or rnd.choice(["lib", "raw"])
        if a == "Connect":
            run.connect(k, kinds[k], st["srv"], st["l"])
        elif a == "ServiceReq":
            run.service(k, st["srv"], st["l"], st["reset"])
        elif a == "Disconnect":
            run.disconnect(k)
        elif a == "Tick":
            run.tick()
        elif a == "Burst":
            run.burst(st["n"])
        elif a == "TickService":
            run.tick_and_service(k, st["srv"], st["l"], st["reset"])
        elif a == "Read":
            run.read(k)
        elif a == "ReadAll":
            run.read_all(k)
        if not run.d.alive():
            raise proxy.DaemonDied("during " + a)
    if steps and steps[-1]["a"] == "Shutdown":
        return None         # the daemon is terminated with the clients connected and frames queued
    kept = run.finish()
    for k in list(run.cl):
        run.disconnect(k)
    return kept


def seeded_schedule(rnd, n):
    """long schedule with a stalled client, keeping-up clients, bursts, service changes, reconnects"""
    sets = [["ttx"], ["wss"], ["vps", "cc"], ["ttx", "wss"], ["ttx", "vps", "cc", "wss"], ["cc"], ["wss", "x"]]
    steps = []
    nc = rnd.choice([2, 3, 3])
    for k in range(1, nc + 1):
        steps.append(dict(a="Connect", c=k, srv=rnd.choice(sets), l=rnd.randint(0, 3), kind=rnd.choice(["lib", "raw"])))
    stalled = rnd.choice([None, 1, 1, 2])
    for i in range(n):
        r = rnd.random()
        if r < 0.62:
            steps.append(dict(a="Tick"))
            for k in range(1, nc + 1):
                if k != stalled and rnd.random() < 0.93:
                    steps.append(dict(a="ReadAll", c=k))
        elif r < 0.68:
            steps.append(dict(a="Burst", n=rnd.randint(2, 6)))
        elif r < 0.76:
            k = rnd.randint(1, nc)
            steps.append(dict(a=rnd.choice(["ServiceReq", "ServiceReq", "TickService"]), c=k, srv=rnd.choice(sets + [[]]),
                              l=rnd.randint(0, 3), reset=rnd.random() < 0.6))
        elif r < 0.80:
            k = rnd.randint(1, nc)
            steps.append(dict(a="Disconnect", c=k))
            steps.append(dict(a="Connect", c=k, srv=rnd.choice(sets + [[]]), l=rnd.randint(0, 3)))
        elif r < 0.86:
            stalled = rnd.choice([None] + list(range(1, nc + 1)))
        elif r < 0.93 and stalled:
            steps.append(dict(a="Read", c=stalled))
        else:
            steps.append(dict(a="ReadAll", c=rnd.randint(1, nc)))
    return steps


def thin(rnd, steps):
    """TLC's random walks take a service request at almost every step (many variants): keep one in six"""
    return [s for s in steps if s["a"] != "ServiceReq" or rnd.random() < 0.17]


# ------------------------------------------------------------------------------------------------ validation

def validate(ctx, logs, label, thread):
    path = os.path.join(ctx.scratch, "queue-%s.ndjson" % label)
    where = []
    with open(path, "w") as f:
        for recs, info in logs:
            for i, r in enumerate(recs):
                f.write(json.dumps(r) + "\n")
                where.append((info, i))
    if os.environ.get("VERIF_KEEP"):
        import shutil
        shutil.copy(path, os.environ["VERIF_KEEP"])
    ok, tr = tlc.validate_trace("Trace_ProxyQueue", "Trace_ProxyQueue_thr" if thread else "Trace_ProxyQueue", path, timeout=2400, heap="6g")
    ctx.add_mc(tr, "TV " + label)
    if ok:
        return True
    at = tr.reject_at
    if at is None:
        m = re.findall(r"/\\ l = (\d+)", (tr.violation or {}).get("text", ""))
        at = int(m[-1]) - 1 if m else None
    name = (tr.violation or {}).get("name", "rejected")
    detail = (tr.violation or {}).get("text", "")[:1500]
    rp, key = None, "tv:%s" % name
    if at and at <= len(where):
        info, i = where[at - 1]
        rec = json.loads(tr.reject_line) if tr.reject_line.startswith("{") else {}
        key = "tv:%s:%s" % (name, rec.get("e", "?"))
        rp = info(i)
        detail = "log line %d is not a step of ProxyQueue (%s)\nrejected line: %s\nlast matched state:%s\n%s" % (
            at, label, tr.reject_line[:1200], tr.last_state[:3500], detail)
    ctx.violate("tv", key, detail, rp)
    return False


def run_schedules(ctx, lay, scheds, label, thread=False, per_daemon=12, variant="asan"):
    logs = []
    clean = True
    b = 0
    nfail = 0
    while b < len(scheds):
        batch = scheds[b:b + per_daemon]
        run = Run(lay, thread, variant)
        spans, ends = [], []
        failed = None
        ndone = 0
        try:
            for j, (name, steps, seed) in enumerate(batch):
                spans.append(run.d.pos())
                ndone = j + 1
                try:
                    kept = execute(run, steps, seed)
                    if kept is None:
                        ndone = j + 1
                        run.cl = {}
                        run.shutdown = True
                        break
                    ends.append((run.d.pos(), kept))
                except proxy.DaemonDied:
                    failed = (j, "died")
                except proxy.Hang as ex:
                    failed = (j, "hang: %s" % ex)
                run.cl = {}
                if failed:
                    break
        finally:
            run.stop()

        def rp_of(j, batch=batch):
            return dict(kind="schedule", thread=thread, name=batch[j][0], steps=batch[j][1], seed=batch[j][2])

        recs, src = run.queue_log(ends)

        def info(i, spans=spans, src=src, rp_of=rp_of):
            return rp_of(max([k for k, p0 in enumerate(spans) if p0 <= src[i]] or [0]))
        logs.append((recs, info))
        rp = rp_of(failed[0]) if failed else rp_of(ndone - 1)
        for key, detail in run.problems[:5]:
            ctx.violate("content", key, detail, rp)
            clean = False
        if failed and failed[1].startswith("hang"):
            if not confirm_hang(lay, rp, variant):
                raise tlc.ToolFailure("non-reproducible hang in %s: %s" % (rp["name"], failed[1]))
            ctx.violate("hang", "hang:%s" % rp["name"].split("#")[0], failed[1], rp)
            clean = False
        if not c19.judge_daemon(ctx, run.d, rp, "schedules %s (%s)" % (label, rp["name"])):
            clean = False
        elif failed and failed[1] == "died":
            ctx.violate("crash", "died:%s" % rp["name"].split("#")[0], "daemon or client driver ended during schedule %s\n%s\n%s"
                        % (rp["name"], run.d.stderr[-1200:], run.lib.stderr[-800:]), rp)
            clean = False
        cerr, _ = c19.filter_stderr(run.lib.stderr)
        if core.report_sanitizers(ctx, cerr, replay=rp, in_scope=True):
            clean = False
        b += ndone
        if failed:
            nfail += 1
            if nfail >= 4:
                break
    ok = validate(ctx, logs, label, thread)
    if ok and clean:
        ctx.validated(len(scheds))
    for name, steps, seed in scheds:
        ctx.count_case([name.split("#")[0], thread, steps], nontrivial=sum(1 for s in steps if s["a"] in ("Tick", "Burst")) >= 2)
    return ok and clean


def confirm_hang(lay, rp, variant="asan"):
    run = Run(lay, rp.get("thread", False), variant)
    try:
        execute(run, [dict(s) for s in rp["steps"]], rp["seed"])
        return False
    except (proxy.Hang, proxy.DaemonDied):
        return True
    finally:
        run.stop()


# ------------------------------------------------------------------------------------------------ run

def run(ctx):
    quick = ctx.tier == "quick"
    ctx.cov["rule"] = ("cases = schedules (TLC random walks through ProxyQueue + seeded stall/burst schedules) executed against the real "
                       "daemon (select and thread variant) and validated by Trace_ProxyQueue together with every frame every client received; "
                       "distinct by (variant, steps); non-trivial = at least two captured frames")
    ctx.assumptions += ["the harness owns the capture clock (synthetic device sim:<fifo>); one stimulus at a time except frame bursts",
                        "clients request buffer_count <= the daemon's -buffers value (1)",
                        "sliced services only (the synthetic device has no raw service); local socket transport"]
    drv = build.build_driver("drv_proxycl")
    build.build_daemon()
    lay = proxy.Layout(drv)

    # ---- model checking
    for cfg, to in ([("MC_ProxyQueue_q", 600), ("MC_ProxyQueue_thr", 600)] if quick else
                    [("MC_ProxyQueue_q", 600), ("MC_ProxyQueue_thr", 600), ("MC_ProxyQueue_t", 900), ("MC_ProxyQueue_tthr", 900),
                     ("MC_ProxyQueue_a", 1500), ("MC_ProxyQueue_lvl", 1500), ("MC_ProxyQueue_t3", 1800)]):
        r = tlc.run("ProxyQueue", cfg, timeout=to, workers=8, heap="8g", coverage=not quick)
        ctx.add_mc(r, cfg)
        if r.violation:
            ctx.violate("mc", "mc:%s:%s" % (r.violation["kind"], r.violation["name"]), r.violation["text"][:3000])
    for cfg, prop in (("MC_ProxyQueue_reach", "NeverLost"),):
        r = tlc.run("ProxyQueue", cfg, timeout=600, workers=8, heap="6g")
        ctx.add_mc(r, cfg)
        if not r.violation:
            raise tlc.ToolFailure("%s: no frame is ever lost in the model (the loss properties would be vacuous)" % cfg)

    # ---- schedules
    rnd = random.Random(ctx.seed * 104729 + 18)
    scheds = []
    n = 14 if quick else 150
    g = tlc.run("Gen_ProxyQueue", "Gen_ProxyQueue", timeout=900, workers=4, simulate=n, depth=92, seed=ctx.seed, collect_tr=True,
                heap="2g", max_tr=4 * n)
    ctx.add_mc(g, "GEN Gen_ProxyQueue")
    seen = set()
    for t in g.tr:
        st = [{k: v for k, v in s.items() if k != "k"} for s in thin(rnd, t)]
        h = json.dumps(st, sort_keys=True)
        if h in seen or len(scheds) >= n:
            continue
        seen.add(h)
        scheds.append(("walk#%d" % len(scheds), st))
    for i in range(8 if quick else 100):
        scheds.append(("seeded#%d" % i, seeded_schedule(rnd, rnd.choice([25, 40, 60]))))
    scheds = [(nm, st, ctx.seed * 7919 + i) for i, (nm, st) in enumerate(scheds)]
    # a stalled client, the others keep up, frames arrive in bursts: in the thread variant the acquisition thread
    # forces buffers free while the main loop is forwarding (with the send-delay hook this interleaves every time)
    stress = [dict(a="Connect", c=1, srv=["ttx"], l=1, kind="raw"), dict(a="Connect", c=2, srv=["wss"], l=1, kind="raw"),
              dict(a="Connect", c=3, srv=["ttx", "wss"], l=1, kind="lib")] + [dict(a="Tick")] * 12
    for i in range(10 if quick else 40):
        stress += [dict(a="Burst", n=6), dict(a="ReadAll", c=2), dict(a="ReadAll", c=3)]
    scheds.append(("burst-stress", stress, ctx.seed * 7919 + len(scheds)))
    # the daemon is terminated while a stalled client still has frames queued (shutdown stops the acquisition first)
    down = [dict(a="Connect", c=1, srv=["ttx", "wss"], l=1, kind="raw"), dict(a="Connect", c=2, srv=["wss"], l=2, kind="raw"),
            dict(a="Connect", c=3, srv=["ttx"], l=0, kind="lib")]
    for i in range(16):
        down += [dict(a="Tick"), dict(a="ReadAll", c=2), dict(a="ReadAll", c=3)]
        if i % 5 == 2:      # a frame and a service request of client 2 in the same pass of the main loop
            down += [dict(a="TickService", c=2, srv=[["vps"], ["wss"], ["ttx", "cc"]][i // 5], l=1, reset=i > 8), dict(a="ReadAll", c=3)]
    down += [dict(a="Tick"), dict(a="Shutdown")]
    scheds.append(("shutdown-with-queue", down, ctx.seed * 7919 + len(scheds)))
    ctx.sample(dict(source="TLC random walk", steps=scheds[0][1][:16]))
    ctx.sample(dict(source="seeded schedule", steps=scheds[-1][1][:16]))
    run_schedules(ctx, lay, scheds if not quick else scheds[0:-2:2] + scheds[-2:], "select", thread=False)
    run_schedules(ctx, lay, scheds if not quick else scheds[1:-2:2] + scheds[-2:], "thread", thread=True)
    ctx.cov["exhaustive"] = False


def replay(ctx, rp):
    drv = build.build_driver("drv_proxycl")
    build.build_daemon()
    lay = proxy.Layout(drv)
    r = rp["replay"]
    run_schedules(ctx, lay, [(r["name"], [dict(s) for s in r["steps"]], r["seed"])], "replay", thread=r.get("thread", False))
