"""C18 - each proxy client gets every captured frame, filtered to its services, in order.

spec/ProxyQueue.tla  capture clock, reference-counted frame queue with per-client cursors, service subscriptions at four
                     strictness levels, device open/close, bounded sockets, ghost "owed" (what each client must still get)
MC   exhaustive (2 clients quick, 3 clients thorough; select and thread variant): Delivery (exactly once, in order, none
     missing), Filtered, RefCount, CursorOK, DeviceOpen, LossOnlyWhenFull, OnlyBlockedLose
GEN  TLC random walks through ProxyQueue (Connect, ServiceReq, Disconnect, Tick, Read; a client that does not read is
     stalled) + seeded long schedules with stalls, bursts and service changes
FLOW schedules with a client that misbehaves while frames flow (silent in the middle of a message for more frames than there
     are buffers, never connects, leaves in the middle of a frame written to it ...): TLC walks through spec/ProxyFlow.tla (the
     composition with C19's connection layer) + directed cases; the full set runs in C19
TV   every schedule is executed step by step against the real zvbid on the synthetic device (select variant and
     acquisition-thread variant) with clients through the real client library and raw-socket clients; the daemon's
     action trace and every frame each client received (timestamp, line ids; payload compared with the device's) are
     validated by Trace_ProxyQueue."""
import json, os, random, re
from vlib import tlc, build, core, proxy
from vlib.proxy import MSG
from checks import c19

MANIFEST = dict(
    level="model_checking",
    engine="tlc-mc+trace-validation",
    technique="TLA+ spec ProxyQueue (reference-counted frame queue with per-client cursors, service sets per strictness level, device "
              "open/close, bounded sockets, force-free; select-loop and acquisition-thread variants) checked exhaustively by TLC; TLC-generated "
              "and seeded schedules (tick, read, stall, service request, disconnect, bursts) are executed against the real daemon on a "
              "synthetic capture device whose clock the harness owns, with clients through the real client library and raw sockets; the "
              "daemon's hook trace and every frame received by every client are validated step by step against the spec by TLC",
    text="TLC explores all interleavings of connect, service change, disconnect, capture, per-client send and read - and of messages received "
         "in part, refused connects and requests that leave the data path alone - for 2-3 clients, 2 "
         "services, 2-3 queue buffers and 1-2 frames of socket capacity: what a client reads is exactly the sequence of frames captured "
         "while it was subscribed (minus frames it lost while blocked or silent in the middle of a message with the queue full, and frames "
         "queued at its own service change), "
         "each with exactly the lines of its granted services; reference counts equal the number of cursors; only blocked or silent clients "
         "lose frames; a buffer for the next frame is always found; a client's steps leave the other clients' frames alone; "
         "the device is open for exactly the union of granted services. The real daemon (both variants) executes the schedules; "
         "TLC accepts the recorded trace and the clients' frames only if every step and every state dump is a step of the specification.",
    note="Bounded: 2-3 clients, 3-4 frames in MC; real runs are sampled (seeded). The harness serialises stimuli (one at a time, daemon "
         "quiescent in between) except for bursts of frames; races between the acquisition thread and the main loop are covered by the "
         "thread-variant model only. Raw VBI services, norm changes and the TCP transport are not exercised. The kernel's socket semantics "
         "are trusted. Mutex discipline of the thread variant is not modelled here.",
)

NAME2MASK = dict(ttx=proxy.VBI_SLICED_TELETEXT_B, vps=proxy.VBI_SLICED_VPS, cc=proxy.VBI_SLICED_CAPTION_625, wss=proxy.VBI_SLICED_WSS_625,
                 x=0x00000100)      # x: a service the synthetic device does not have (VBI_SLICED_VBI_525 region bit)
ID2NAME = {proxy.VBI_SLICED_TELETEXT_B: "ttx", proxy.VBI_SLICED_VPS: "vps", proxy.VBI_SLICED_CAPTION_625: "cc", proxy.VBI_SLICED_WSS_625: "wss"}


REPLY_OF = {MSG["CONNECT_REQ"]: ("CONNECT_CNF", "CONNECT_REJ"), MSG["SERVICE_REQ"]: ("SERVICE_CNF", "SERVICE_REJ"),
            MSG["CHN_TOKEN_REQ"]: ("CHN_TOKEN_CNF",), MSG["CHN_NOTIFY_REQ"]: ("CHN_NOTIFY_CNF",),
            MSG["CHN_SUSPEND_REQ"]: ("CHN_SUSPEND_CNF", "CHN_SUSPEND_REJ"), MSG["CHN_IOCTL_REQ"]: ("CHN_IOCTL_CNF", "CHN_IOCTL_REJ"),
            MSG["DAEMON_PID_REQ"]: ("DAEMON_PID_CNF",)}


def mask_of(names):
    m = 0
    for n in names:
        m |= NAME2MASK[n]
    return m


# ------------------------------------------------------------------------------------------------ execution

class Run:
    """one daemon process with library and raw clients; records what the clients received"""

    def __init__(self, lay, thread, variant="asan", buffers=1):
        self.lay = lay
        self.ses = proxy.Session(lay, thread=thread, buffers=buffers, sndbuf=1, maxclients=20, variant=variant,
                                 send_delay_us=300 if thread else None)
        self.d = self.ses.d
        self.lib = proxy.LibClients(self.d, variant)
        self.cl = {}            # model client -> dict(kind, raw | slot, fd, acc, nread, svc_at)
        self.cl_all = []        # every connection made in this process
        self.reads = []         # (trace position, acc, record)
        self.problems = []      # (key, detail) found by the harness itself (payload, timestamps)
        self.nslot = 0
        self.shutdown = False

    # ---- helpers
    def conn_alive(self, k):
        c = self.cl.get(k)
        if c is None or c.get("gone"):
            return False
        return self._dropped(c) is None

    def _dropped(self, c):
        evs = self.d.events
        for i in range(c["acc"] + 1, len(evs)):
            if evs[i]["e"] == "closing" and evs[i].get("c") == c["fd"]:
                return i
        return None

    def avail(self, c):
        """frames the daemon has sent to this connection and the client has not taken yet"""
        evs = self.d.events
        start = c["svc_at"] if c["kind"] == "lib" else c["acc"]
        n = sum(1 for i in range(start, len(evs)) if evs[i]["e"] == "snd" and evs[i].get("c") == c["fd"])
        return n - c["nread"]

    def blocked(self, c):
        idle = self.d.last_idle()
        return idle is not None and c["fd"] in idle.get("w", [])

    def check_frame(self, c, ts, lines):
        """content oracle: the payload of every received line is what the synthetic device produced for that frame"""
        names = []
        for sid, line, hexdata in lines:
            if sid not in ID2NAME or (sid, line) not in proxy.SIM_LINES:
                self.problems.append(("content:unknown-line", "client fd %d frame %d: line %d with service id 0x%x" % (c["fd"], ts, line, sid)))
                continue
            if hexdata != proxy.sim_payload(ts, line).hex():
                self.problems.append(("content:payload", "client fd %d frame %d line %d: payload %s differs from the device's %s"
                                      % (c["fd"], ts, line, hexdata[:32], proxy.sim_payload(ts, line).hex()[:32])))
            if ID2NAME[sid] not in names:
                names.append(ID2NAME[sid])
        want = [[sid, ln] for sid, ln in proxy.SIM_LINES if ID2NAME[sid] in names]
        if [[sid, ln] for sid, ln, _ in lines] != want:
            self.problems.append(("content:lines", "client fd %d frame %d: lines %s, expected the lines %s of its services in ascending order"
                                  % (c["fd"], ts, [[s, l] for s, l, _ in lines], want)))
        return names

    def record_read(self, c, ts, lines):
        names = self.check_frame(c, ts, lines)
        self.reads.append((self.d.pos(), c["acc"], dict(e="read", c=c["fd"], id=ts, lines=names)))
        c["nread"] += 1

    # ---- steps
    def accept(self, k):
        """a raw connection that does not send its CONNECT_REQ (yet): it counts for the number of buffers, nothing else"""
        if self.conn_alive(k):
            return False
        rc = self.ses.connect("r%d" % k)
        c = dict(kind="raw", raw=rc, fd=rc.fd, acc=rc.acc, nread=0, svc_at=rc.acc, wait=True)
        self.cl[k] = c
        self.cl_all.append(c)
        return True

    def connect(self, k, kind, names, strict, reject=False):
        mask = 0x100 if reject else mask_of(names)
        if self.conn_alive(k) and self.cl[k].get("wait"):
            # CONNECT_REQ on a connection accepted earlier (the rest of it, if a part is already out)
            c = self.cl[k]
            if mask and not (mask & proxy.SIM_SERVICES) and not reject:
                return False
            self.send_message(k, self.lay.connect_req(services=mask, strict=strict - 1, buffers=1, scanning=625))
            c["wait"] = False
            if self._dropped(c) is not None:        # refused: the daemon has closed the connection
                c["raw"].close()
                c["gone"] = True
            return True
        if self.conn_alive(k):
            return False
        if reject:
            self.accept(k)
            return self.connect(k, "raw", names, strict, reject=True)
        if mask and not (mask & proxy.SIM_SERVICES):
            return False                            # would be rejected (C19)
        if kind == "lib":
            slot = self.nslot % 8
            self.nslot += 1
            for x in [x for x in self.cl.values() if x["kind"] == "lib" and x["slot"] == slot and not x.get("gone")]:
                self.lib.cmd("D %d" % slot)     # (a connection the daemon has dropped)
                x["gone"] = True
            self.lib.create(slot)
            r = self.lib.start(slot, mask, strict=strict - 1, buffers=1, scanning=625)
            c = dict(kind="lib", slot=slot, fd=self.lib.fd[slot], acc=self.lib.acc[slot], nread=0)
            c["svc_at"] = c["acc"]
            if not r.get("cap") and mask:
                self.problems.append(("lib:connect", "vbi_capture_proxy_new failed: %s" % r))
        else:
            rc = self.ses.connect("r%d" % k)
            self.ses.send_msg(rc, self.lay.connect_req(services=mask, strict=strict - 1, buffers=1, scanning=625))
            rc.read_one("CONNECT_CNF")
            c = dict(kind="raw", raw=rc, fd=rc.fd, acc=rc.acc, nread=0, svc_at=rc.acc)
        self.cl[k] = c
        self.cl_all.append(c)
        return True

    # ---- faulty clients (raw): a message in part, the rest of it, other requests, refused messages
    def stuck(self, k):
        c = self.cl.get(k)
        return bool(c and c.get("pend"))

    def partial(self, k, msg, upto):
        """the first `upto` bytes of message `msg` are out (then silence); more bytes of the same message later"""
        if not self.conn_alive(k) or self.cl[k]["kind"] != "raw":
            return False
        c = self.cl[k]
        if c.get("pend"):
            msg, sent = c["pend"]
        else:
            sent = 0
            if self.blocked(c):
                self.read_all(k)            # the daemon takes nothing from a client while its write to it is stuck
        upto = min(upto, len(msg) - 1)
        if upto <= sent:
            return False
        c["raw"].send(bytes(msg[sent:upto]))
        c["pend"] = (msg, upto)
        return True

    def send_message(self, k, msg):
        """complete message from raw client k (the rest of it, if a part is out already); the client then reads up to
        the reply (frames in front of it are taken), if a message of that type has one"""
        c = self.cl[k]
        sent = 0
        if c.get("pend"):
            msg, sent = c["pend"]
            c["pend"] = None
        elif self.blocked(c):
            self.read_all(k)
        reply = REPLY_OF.get(proxy.struct.unpack_from(">II", msg, 0)[1]) if len(msg) >= 8 else None
        self.ses.send_msg(c["raw"], msg, sent)
        while reply and self._dropped(c) is None:
            m = c["raw"].read_one(reply)
            if m is None or m["name"] in reply:
                break
            if m["t"] == MSG["SLICED_IND"]:
                self.record_read(c, m["ts"], m["lines"])
        return True

    def other(self, k, msg):
        """a request that leaves the data path alone (token, notify without flush, ioctl, suspend, reclaim confirmation)"""
        if not self.conn_alive(k) or self.cl[k]["kind"] != "raw":
            return False
        return self.send_message(k, msg)

    def drop(self, k, how, msg=None):
        """the connection ends: eof (the client closes, at whatever byte it is), hdr (illegal length field),
        or a message the daemon refuses (bad / state / close / pid)"""
        if not self.conn_alive(k):
            return False
        c = self.cl[k]
        if c["kind"] == "lib" or how == "eof" or (c.get("pend") and how == "hdr"):
            return self.disconnect(k)
        if how == "hdr":
            if self.blocked(c):
                self.read_all(k)
            self.ses.send_illegal_header(c["raw"], msg)
        else:
            self.send_message(k, msg)
        if self._dropped(c) is None:
            return self.disconnect(k)       # (a message the daemon took after all: the schedule says the client is gone)
        c["raw"].close()
        c["gone"] = True
        return True

    def service(self, k, names, strict, reset):
        if not self.conn_alive(k):
            return False
        c = self.cl[k]
        mask = mask_of(names)
        p = self.d.pos()
        if c["kind"] == "raw" and (c.get("pend") or c.get("wait")):
            if c.get("wait") and not c.get("pend"):
                return False                # (not connected yet: a SERVICE_REQ would be refused - that is Drop "state")
            return self.send_message(k, self.lay.service_req(mask, strict=strict - 1, reset=1 if reset else 0))
        if c["kind"] == "lib":
            self.lib.call(c["slot"], "U %d %d 1 %d %d" % (c["slot"], 1 if reset else 0, mask, strict - 1))
            # the library discards the frames it had not read while it waits for the confirmation
            i = self.d.wait_event(lambda e: e["e"] == "msg" and e.get("c") == c["fd"], p, what="service confirmation")
            c["svc_at"] = i
            c["nread"] = 0
        else:
            if self.blocked(c):
                self.read_all(k)            # the daemon takes no request while its write to this client is stuck
            self.ses.send_msg(c["raw"], self.lay.service_req(mask, strict=strict - 1, reset=1 if reset else 0))
            # a client waits for the confirmation; the frames in front of it are read (and kept, unlike the library)
            while self._dropped(c) is None:
                m = c["raw"].read_one("SERVICE_CNF")
                if m is None or m["t"] in (MSG["SERVICE_CNF"], MSG["SERVICE_REJ"]):
                    break
                if m["t"] == MSG["SLICED_IND"]:
                    self.record_read(c, m["ts"], m["lines"])
        return True

    def tick_and_service(self, k, names, strict, reset):
        """a frame and a service request of raw client k reach the daemon in the same wake-up of its main loop (the
        daemon process is stopped while both are written): the frame is captured and queued for k, then k's request is
        taken - the frame is still queued for k when k changes its services"""
        if self.d.thread:
            # thread variant: the order of the capture and of the steps of the request is the scheduler's choice and
            # the specification takes a service request as one step - one after the other here
            self.tick()
            return self.service(k, names, strict, reset)
        if not self.conn_alive(k) or self.cl[k]["kind"] != "raw" or not c19.device_open(self.d) or self.stuck(k) or self.cl[k].get("wait"):
            return False
        c = self.cl[k]
        if self.blocked(c):
            self.read_all(k)
        d = self.d
        p = d.pos()
        d.freeze()
        try:
            d.frame += 1
            f = d.frame
            os.write(d.tick_fd, proxy.struct.pack("=I", f))
            msg = self.lay.service_req(mask_of(names), strict=strict - 1, reset=1 if reset else 0)
            c["raw"].labels.append(dict(wf=True))
            c["raw"].s.send(msg)
        finally:
            d.thaw()
        fd = c["fd"]
        d.wait_quiet(p, lambda e: e["e"] == "cap" and e["id"] == f, "tick %d (with a service request)" % f)
        d.wait_quiet(p, lambda e: e.get("c") == fd and e["e"] in ("msg", "closing"), "service request (with a tick)")
        while self._dropped(c) is None:
            m = c["raw"].read_one("SERVICE_CNF")
            if m is None or m["t"] in (MSG["SERVICE_CNF"], MSG["SERVICE_REJ"]):
                break
            if m["t"] == MSG["SLICED_IND"]:
                self.record_read(c, m["ts"], m["lines"])
        return True

    def disconnect(self, k):
        if not self.conn_alive(k):
            return False
        c = self.cl[k]
        if c["kind"] == "lib":
            p = self.d.pos()
            self.ses.closed_acc[c["acc"]] = p
            self.lib.cmd("X %d" % c["slot"])
            self.lib.cmd("D %d" % c["slot"])
            fd = c["fd"]
            i = self.d.wait_event(lambda e: e["e"] == "closing" and e.get("c") == fd, p, what="daemon to notice the disconnect")
            self.d.wait_quiet(i, lambda e: e["e"] == "gone", "disconnect")
        else:
            c["raw"].close()
        c["gone"] = True
        return True

    def read(self, k):
        """the client takes one frame (if the daemon has sent one)"""
        if not self.conn_alive(k):
            return False
        c = self.cl[k]
        if self.avail(c) <= 0:
            return False
        if c["kind"] == "lib":
            r = self.lib.read(c["slot"])
            if r.get("r") != 1:
                raise proxy.Hang("library client fd %d: vbi_capture_pull_sliced returned %s though the daemon has sent a frame" % (c["fd"], r))
            self.record_read(c, r["ts"], r["lines"])
        else:
            while True:
                m = c["raw"].read_one("frame")
                if m is None:
                    raise proxy.Hang("raw client fd %d: connection ended though the daemon has sent a frame" % c["fd"])
                if m["t"] == MSG["SLICED_IND"]:
                    self.record_read(c, m["ts"], m["lines"])
                    break
        return True

    def read_all(self, k):
        """the client reads everything the daemon has sent and is able to send.  While the daemon reported the
        connection as write-blocked, emptying the socket makes it writable, so the daemon must run and go idle again."""
        n = 0
        while self.conn_alive(k):
            c = self.cl[k]
            ki = self.d.last_idle_index()
            while self.avail(c) > 0:
                self.read(k)
                n += 1
            if c["fd"] in self.d.events[ki].get("w", []):
                self.d.wait_event(lambda e: e["e"] == "idle", ki + 1, what="idle after unblocking fd %d" % c["fd"])
                continue
            if self.d.last_idle_index() == ki and self.avail(c) <= 0:
                break
        return n

    def tick(self):
        if not c19.device_open(self.d):
            return False
        self.d.tick(1)
        return True

    def burst(self, n):
        if not c19.device_open(self.d):
            return False
        self.d.burst(n)
        return True

    def finish(self):
        """everybody reads what is left; returns the descriptors of the clients that are still connected"""
        kept = []
        for k in list(self.cl):
            if self.conn_alive(k):
                self.read_all(k)
                if not self.stuck(k):       # (nothing is forwarded to a client in the middle of a message of its own)
                    kept.append(self.cl[k]["fd"])
        return kept

    def note_observations(self):
        """what the raw clients received besides frames (replies, token indications): the observation records of
        Trace_ProxyConn; each connection's records are placed in front of its removal by Session.conn_log"""
        for c in self.ses.conns:
            for m in c.msgs[c.seen:]:
                if m["t"] in proxy.CHANNEL_OBS:
                    self.ses.obs.append((1 << 60, c, dict(e="obs", c=c.fd, m=proxy.CHANNEL_OBS[m["t"]], ind=int(m.get("token_ind", 0) != 0))))
            c.seen = len(c.msgs)

    def stop(self):
        try:
            if self.shutdown:
                self.d.stop()   # SIGTERM with clients connected and frames queued
            for c in self.cl_all:
                if c["kind"] == "lib":
                    self.ses.closed_acc.setdefault(c["acc"], self.d.pos())
            self.lib.stop()
        finally:
            self.ses.stop()
            if os.environ.get("VERIF_KEEP"):
                with open(os.path.join(os.environ["VERIF_KEEP"], "daemon-events.ndjson"), "a") as f:
                    f.write(json.dumps(dict(e="start", thread=self.d.thread)) + "\n")
                    for e in self.d.events:
                        f.write(json.dumps(e) + "\n")

    # ---- the log of Trace_ProxyQueue
    def queue_log(self, ends):
        """ends: list of (trace position, kept descriptors) - one "end" line per schedule"""
        evs = list(self.d.events)
        kind = {c["acc"]: c["kind"] for c in self.cl_all}
        reads = sorted(self.reads, key=lambda r: r[0])
        ri = 0
        ends = sorted(ends)
        ei = 0
        out, src = [dict(e="reset")], [-1]
        cur = {}
        forced = []
        grouped = set()
        deferred = []
        dropping = None
        last_idle = None
        prev_idle = False       # the previous daemon line (force lines aside) was an idle line

        def names(mask):
            return proxy.service_names(mask)

        def dump(e):
            return dict(clients=[[cl[0], cl[1], cl[2], 0, names(cl[4]), cl[5]] for cl in e["clients"]], open=e["open"],
                        devsrv=names(e["devsrv"]), queue=e["queue"])

        def emit(rec, i):
            out.append(rec); src.append(i)

        def emit_with_state(rec, i):
            """connect / service / drop line with its state dump; fetches of the restarted acquisition thread go between"""
            if not deferred:
                rec["chk"] = True
                emit(rec, i)
                return
            rec["chk"] = False
            emit(rec, i)
            for r, j in deferred:
                emit(r, j)
            del deferred[:]
            emit(dict(e="state", st=rec["st"]), i)

        def flush(i, acc=None):
            nonlocal ri, ei
            if acc is not None:
                rest = []
                for r in reads[ri:]:
                    if r[1] == acc:
                        emit(r[2], i)
                    else:
                        rest.append(r)
                reads[ri:] = rest
                return
            while ri < len(reads) and reads[ri][0] <= i:
                emit(reads[ri][2], i); ri += 1
            while ei < len(ends) and ends[ei][0] <= i:
                emit(dict(e="end", kept=ends[ei][1]), i); ei += 1

        for i, e in enumerate(evs):
            flush(i)
            k, fd = e["e"], e.get("c")
            if k == "idle":
                last_idle = e
                prev_idle = True
                continue
            if k in ("force", "wake"):
                if k == "force" and not self.d.thread:
                    forced.append([fd, e["id"]])
                elif k == "force" and i not in grouped:
                    # thread variant: the acquisition thread takes its buffer before it waits for the frame.  One
                    # call forces the same head frame away from several clients (lines of the main loop may lie between)
                    grp = []
                    for j in range(i, len(evs)):
                        if evs[j]["e"] == "force" and evs[j]["id"] == e["id"]:
                            grp.append([evs[j]["c"], evs[j]["id"]])
                            grouped.add(j)
                        elif evs[j]["e"] in ("cap", "force"):
                            break
                    rec = dict(e="fetch", forced=grp)
                    if dropping is not None or any(x["pend"] is not None for x in cur.values()):
                        # the acquisition thread was restarted by the service update of the message / removal being
                        # processed: its line follows, and the state dump of that line is taken after this fetch
                        deferred.append((rec, i))
                    else:
                        emit(rec, i)
                continue
            was_idle, prev_idle = prev_idle, False
            if k == "accept":
                cur[fd] = dict(acc=i, pend=None)
                emit(dict(e="accept", c=fd), i)
            elif k == "rcv":
                if fd in cur:
                    cur[fd]["pend"] = e
            elif k == "msg":
                st = cur.get(fd)
                if st is None or st["pend"] is None:
                    continue
                r = st["pend"]; st["pend"] = None
                mine = [cl for cl in e["clients"] if cl[0] == fd]
                if mine and mine[0][1] == 1:
                    st["pend"] = r
                    # WAIT_CLOSE: a CONNECT_REQ of the right protocol version was processed (service update) and refused
                    st["rej"] = r["t"] == MSG["CONNECT_REQ"] and bool(r["a"]) and r["a"][5] == self.lay.l["compat_version"]
                    continue
                if r["t"] == MSG["CONNECT_REQ"]:
                    emit_with_state(dict(e="connect", c=fd, srv=names(r["a"][0]), strict=r["a"][1], st=dump(e)), i)
                elif r["t"] == MSG["SERVICE_REQ"]:
                    emit_with_state(dict(e="service", c=fd, srv=names(r["a"][0]), strict=r["a"][1], reset=bool(r["a"][2]),
                                         discard=(kind.get(st["acc"]) == "lib"), st=dump(e)), i)
                else:
                    # a request that leaves the data path alone (token, notify, ioctl, suspend, reclaim confirmation)
                    emit_with_state(dict(e="other", c=fd, t=r["t"], st=dump(e)), i)
            elif k == "part":
                if fd in cur:
                    emit(dict(e="part", c=fd, off=e["off"]), i)
            elif k == "overflow":
                if not out or out[-1].get("e") != "overflow":
                    emit(dict(e="overflow"), i)
            elif k == "closing":
                dropping = fd
            elif k == "gone":
                fd, dropping = dropping, None
                st = cur.pop(fd, None)
                if st is not None:
                    flush(i, st["acc"])
                if st is not None and st.get("rej"):
                    emit_with_state(dict(e="reject", c=fd, st=dump(e)), i)
                else:
                    emit_with_state(dict(e="drop", c=fd, st=dump(e)), i)
            elif k == "cap":
                emit(dict(e="tick", id=e["id"], lines=names(e["devsrv"]), n=e["n"], refs=e["refs"], forced=forced,
                          blk=(last_idle or {}).get("w", []), quiet=was_idle), i)
                forced = []
            elif k == "snd":
                emit(dict(e="send", c=fd, id=e["id"], n=e["n"]), i)
        flush(len(evs))
        return out, src


def flow_message(lay, st, rnd):
    """bytes of the message a step of a faulty-client schedule stands for (None: not a message step)"""
    a = st["a"]
    if a == "Connect":
        return lay.connect_req(services=mask_of(st["srv"]), strict=st["l"] - 1, buffers=1, scanning=625)
    if a == "ConnectRej":
        return lay.connect_req(services=0x100, strict=0, buffers=1, scanning=625)
    if a == "ServiceReq":
        return lay.service_req(mask_of(st["srv"]), strict=st["l"] - 1, reset=1 if st["reset"] else 0)
    if a == "Other":
        m = st["m"]
        if m == "suspend":
            return lay.suspend_req()
        if m == "ioctl":
            return lay.ioctl_req(rnd.choice([0x80685600, 0xC02C5638, 0x12345678]), bytes(rnd.choice([0, 4, 44])))
        if m == "reclaimcnf":
            return lay.reclaim_cnf()
        if m == "token":
            return lay.token_req(st.get("p", 2), 1 if st.get("v") else 0, sub_prio=rnd.choice([0x10, 0x20]), min_duration=rnd.choice([0, 100000]))
        f = 0
        for n in st.get("f", []):
            f |= dict(RELEASE=proxy.CHN_RELEASE, TOKEN=proxy.CHN_TOKEN)[n]     # (never FLUSH: it empties everybody's queue by design)
        return lay.notify_req(f, scanning=0)
    if a == "Drop":
        how = st["how"]
        if how == "bad":
            return rnd.choice(c19.bad_messages(lay, rnd))
        if how == "state":
            if st.get("st") == "fwd":
                return rnd.choice([lay.connect_req(services=proxy.VBI_SLICED_TELETEXT_B), lay.pid_req()])
            return rnd.choice([lay.service_req(proxy.VBI_SLICED_TELETEXT_B), lay.token_req(1, 1), lay.notify_req(2), lay.ioctl_req(0x80685600, bytes(4))])
        if how == "close":
            return lay.close_req()
        if how == "pid":
            return lay.pid_req()
        if how == "hdr":
            return rnd.choice(c19.illegal_headers(lay))
    return None


def execute(run, steps, seed):
    """one schedule; returns the descriptors of the clients that have read everything at its end"""
    rnd = random.Random(seed)
    kinds = {}
    raw_only = {s.get("c") for s in steps if s["a"] in ("Partial", "Other", "Drop", "ConnectRej", "TickService")}
    for n, st in enumerate(steps):
        a, k = st["a"], st.get("c")
        if k is not None and k not in kinds:
            kinds[k] = st.get("kind") or ("raw" if k in raw_only else rnd.choice(["lib", "raw"]))
        if a == "Accept":
            if kinds[k] == "raw":           # (a library client connects and sends its CONNECT_REQ in one call)
                run.accept(k)
        elif a == "Partial":
            # a part of the message of this client's next message step (or of a notify request, if it has none)
            if run.conn_alive(k) and run.cl[k]["kind"] == "raw":
                if run.stuck(k):
                    msg, sent = run.cl[k]["pend"]
                else:
                    nxt = next((x for x in steps[n + 1:] if x.get("c") == k and x["a"] != "Partial" and x["a"] != "Read"), None)
                    msg = (flow_message(run.lay, nxt, rnd) if nxt and not (nxt["a"] == "Drop" and nxt["how"] in ("eof", "hdr")) else None) \
                        or run.lay.notify_req(0)
                    sent = 0
                if st.get("upto"):
                    upto = st["upto"]
                elif st.get("ph") == "hdr":
                    upto = rnd.randint(sent + 1, 7) if sent < 7 else 0
                else:
                    upto = rnd.randint(max(8, sent + 1), len(msg) - 1) if len(msg) - 1 >= max(8, sent + 1) else 0
                if upto:
                    run.partial(k, msg, upto)
        elif a == "Other":
            run.other(k, flow_message(run.lay, st, rnd))
        elif a == "Drop":
            run.drop(k, st["how"], flow_message(run.lay, st, rnd))
        elif a == "ConnectRej":
            run.connect(k, "raw", [], 1, reject=True)
        elif a == "Connect":
            run.connect(k, kinds[k], st["srv"], st["l"])
        elif a == "ServiceReq":
            run.service(k, st["srv"], st["l"], st["reset"])
        elif a == "Disconnect":
            run.disconnect(k)
        elif a == "Tick":
            run.tick()
        elif a == "Burst":
            run.burst(st["n"])
        elif a == "TickService":
            run.tick_and_service(k, st["srv"], st["l"], st["reset"])
        elif a == "Read":
            run.read(k)
        elif a == "ReadAll":
            run.read_all(k)
        if not run.d.alive():
            raise proxy.DaemonDied("during " + a)
    if steps and steps[-1]["a"] == "Shutdown":
        return None         # the daemon is terminated with the clients connected and frames queued
    kept = run.finish()
    for k in list(run.cl):
        run.disconnect(k)
    return kept


def seeded_schedule(rnd, n):
    """long schedule with a stalled client, keeping-up clients, bursts, service changes, reconnects"""
    sets = [["ttx"], ["wss"], ["vps", "cc"], ["ttx", "wss"], ["ttx", "vps", "cc", "wss"], ["cc"], ["wss", "x"]]
    steps = []
    nc = rnd.choice([2, 3, 3])
    for k in range(1, nc + 1):
        steps.append(dict(a="Connect", c=k, srv=rnd.choice(sets), l=rnd.randint(0, 3), kind=rnd.choice(["lib", "raw"])))
    stalled = rnd.choice([None, 1, 1, 2])
    for i in range(n):
        r = rnd.random()
        if r < 0.62:
            steps.append(dict(a="Tick"))
            for k in range(1, nc + 1):
                if k != stalled and rnd.random() < 0.93:
                    steps.append(dict(a="ReadAll", c=k))
        elif r < 0.68:
            steps.append(dict(a="Burst", n=rnd.randint(2, 6)))
        elif r < 0.76:
            k = rnd.randint(1, nc)
            steps.append(dict(a=rnd.choice(["ServiceReq", "ServiceReq", "TickService"]), c=k, srv=rnd.choice(sets + [[]]),
                              l=rnd.randint(0, 3), reset=rnd.random() < 0.6))
        elif r < 0.80:
            k = rnd.randint(1, nc)
            steps.append(dict(a="Disconnect", c=k))
            steps.append(dict(a="Connect", c=k, srv=rnd.choice(sets + [[]]), l=rnd.randint(0, 3)))
        elif r < 0.86:
            stalled = rnd.choice([None] + list(range(1, nc + 1)))
        elif r < 0.93 and stalled:
            steps.append(dict(a="Read", c=stalled))
        else:
            steps.append(dict(a="ReadAll", c=rnd.randint(1, nc)))
    return steps


def thin(rnd, steps):
    """TLC's random walks take a service request at almost every step (many variants): keep one in six"""
    return [s for s in steps if s["a"] != "ServiceReq" or rnd.random() < 0.17]


# ------------------------------------------------------------------------------------------------ validation

def validate(ctx, logs, label, thread, buffers=1):
    path = os.path.join(ctx.scratch, "queue-%s.ndjson" % label)
    where = []
    with open(path, "w") as f:
        for recs, info in logs:
            for i, r in enumerate(recs):
                f.write(json.dumps(r) + "\n")
                where.append((info, i))
    if os.environ.get("VERIF_KEEP"):
        import shutil
        shutil.copy(path, os.environ["VERIF_KEEP"])
    cfg = ("Trace_ProxyQueue_thr" if thread else "Trace_ProxyQueue") + ("" if buffers == 1 else "_b%d" % buffers)
    ok, tr = tlc.validate_trace("Trace_ProxyQueue", cfg, path, timeout=2400, heap="6g")
    ctx.add_mc(tr, "TV " + label)
    if ok:
        return True
    at = tr.reject_at
    if at is None:
        m = re.findall(r"/\\ l = (\d+)", (tr.violation or {}).get("text", ""))
        at = int(m[-1]) - 1 if m else None
    name = (tr.violation or {}).get("name", "rejected")
    detail = (tr.violation or {}).get("text", "")[:1500]
    rp, key = None, "tv:%s" % name
    if at and at <= len(where):
        info, i = where[at - 1]
        rec = json.loads(tr.reject_line) if tr.reject_line.startswith("{") else {}
        key = "tv:%s:%s" % (name, rec.get("e", "?"))
        rp = info(i)
        detail = "log line %d is not a step of ProxyQueue (%s)\nrejected line: %s\nlast matched state:%s\n%s" % (
            at, label, tr.reject_line[:1200], tr.last_state[:3500], detail)
    ctx.violate("tv", key, detail, rp)
    return False


def run_schedules(ctx, lay, scheds, label, thread=False, per_daemon=12, variant="asan", buffers=1, conn_tv=False, nontrivial=None,
                  conn_logs=None):
    """execute the schedules (name, steps, seed) on fresh daemons (several per process) and validate what was recorded
    with Trace_ProxyQueue; conn_tv: the same runs are validated by Trace_ProxyConn as well (faulty-client schedules)"""
    logs, clogs = [], []
    clean = True
    b = 0
    nfail = 0
    while b < len(scheds):
        batch = scheds[b:b + per_daemon]
        run = Run(lay, thread, variant, buffers)
        spans, ends = [], []
        failed = None
        ndone = 0
        try:
            for j, (name, steps, seed) in enumerate(batch):
                spans.append(run.d.pos())
                ndone = j + 1
                try:
                    kept = execute(run, steps, seed)
                    if kept is None:
                        ndone = j + 1
                        run.cl = {}
                        run.shutdown = True
                        break
                    ends.append((run.d.pos(), kept))
                except proxy.DaemonDied:
                    failed = (j, "died")
                except proxy.Overflow as ex:
                    failed = (j, "overflow: %s" % ex)
                except proxy.DeviceClosed as ex:
                    failed = (j, "devclosed: %s" % ex)
                except proxy.Hang as ex:
                    failed = (j, "hang: %s" % ex)
                run.cl = {}
                if failed:
                    break
        finally:
            run.note_observations()
            run.stop()

        def rp_of(j, batch=batch):
            return dict(kind="flow" if conn_tv else "schedule", thread=thread, buffers=buffers, name=batch[j][0], steps=batch[j][1],
                        seed=batch[j][2])

        recs, src = run.queue_log(ends)

        def info(i, spans=spans, src=src, rp_of=rp_of):
            return rp_of(max([k for k, p0 in enumerate(spans) if p0 <= src[i]] or [0]))
        logs.append((recs, info))
        if conn_tv:
            crecs, csrc = run.ses.conn_log()
            clogs.append((crecs, lambda i, spans=spans, csrc=csrc, rp_of=rp_of:
                          rp_of(max([k for k, p0 in enumerate(spans) if p0 <= csrc[i]] or [0]))))
        rp = rp_of(failed[0]) if failed else rp_of(ndone - 1)
        if failed and failed[1].startswith("overflow"):
            ctx.violate("stall", "overflow:%s" % rp["name"].split("#")[0],
                        "schedule %s (%s): %s - no frame is read from the device any more, no client gets data" % (rp["name"], label, failed[1][10:]), rp)
            clean = False
        if failed and failed[1].startswith("devclosed"):
            ctx.violate("stall", "thread:devclosed", "schedule %s (%s): %s - no client gets data any more" % (rp["name"], label, failed[1][11:]), rp)
            clean = False
        for key, detail in run.problems[:5]:
            ctx.violate("content", key, detail, rp)
            clean = False
        if failed and failed[1].startswith("hang"):
            if not confirm_hang(lay, rp, variant, buffers):
                raise tlc.ToolFailure("non-reproducible hang in %s: %s" % (rp["name"], failed[1]))
            ctx.violate("hang", "hang:%s" % rp["name"].split("#")[0], failed[1], rp)
            clean = False
        if not c19.judge_daemon(ctx, run.d, rp, "schedules %s (%s)" % (label, rp["name"])):
            clean = False
        elif failed and failed[1] == "died":
            ctx.violate("crash", "died:%s" % rp["name"].split("#")[0], "daemon or client driver ended during schedule %s\n%s\n%s"
                        % (rp["name"], run.d.stderr[-1200:], run.lib.stderr[-800:]), rp)
            clean = False
        cerr, _ = c19.filter_stderr(run.lib.stderr)
        if core.report_sanitizers(ctx, cerr, replay=rp, in_scope=True):
            clean = False
        b += ndone
        if failed:
            nfail += 1
            if nfail >= 4:
                break
    ok = validate(ctx, logs, label, thread, buffers)
    if conn_tv and conn_logs is not None:
        conn_logs += clogs              # the caller validates the connection-layer logs of several passes in one TLC run
    elif conn_tv:
        ok = c19.validate(ctx, clogs, label + "-conn") and ok
    if ok and clean:
        ctx.validated(len(scheds))
    for name, steps, seed in scheds:
        ctx.count_case([name.split("#")[0], thread, buffers, steps],
                       nontrivial=(nontrivial or (lambda st: sum(1 for s in st if s["a"] in ("Tick", "Burst")) >= 2))(steps))
    return ok and clean


def confirm_hang(lay, rp, variant="asan", buffers=1):
    run = Run(lay, rp.get("thread", False), variant, buffers)
    try:
        execute(run, [dict(s) for s in rp["steps"]], rp["seed"])
        return False
    except (proxy.Hang, proxy.DaemonDied):
        return True
    finally:
        run.stop()


# ------------------------------------------------------------------------------------------------ faulty client x frame flow

def flow_nontrivial(steps):
    """a faulty-client schedule exercises the property if frames are captured while some client is silent in the middle
    of a message, never connected, gone in the middle, or stalled"""
    return sum(1 for s in steps if s["a"] in ("Tick", "Burst", "TickService")) >= 2 and \
        any(s["a"] in ("Partial", "Drop", "Accept", "Other", "ConnectRej", "TickService") for s in steps)


def flow_walks(ctx, n, cfg="Gen_ProxyFlow"):
    """schedules generated from the model: TLC random walks through ProxyFlow (ProxyConn x ProxyQueue) in which frames
    were taken away from a client that is silent in the middle of a message (Gen_ProxyFlow prints only those)"""
    g = tlc.run("Gen_ProxyFlow", cfg, timeout=900, workers=4, simulate=max(8, 3 * n), depth=110, seed=ctx.seed, collect_tr=True,
                heap="2g", max_tr=200 * n)
    ctx.add_mc(g, "GEN " + cfg)
    out, seen = [], set()
    for t in g.tr:
        st = [{k: v for k, v in s.items() if k != "k"} for s in t[:-1]]      # (every successor of the last state is printed)
        h = json.dumps(st, sort_keys=True)
        if h in seen or len(out) >= n:
            continue
        seen.add(h)
        out.append(("flow-walk#%d" % len(out), st))
    if len(out) < min(n, 3):
        raise tlc.ToolFailure("Gen_ProxyFlow: only %d of the random walks reached a client that loses frames in the middle of a message" % len(out))
    return out


def flow_directed(base=1):
    """the neighbouring cases, each with two witnesses of different service sets (W1 raw, W2 through the client library)
    that read every frame, and more frames than the daemon has buffers (base + one per connection)"""
    W1 = dict(a="Connect", c=1, srv=["ttx"], l=1, kind="raw")
    W2 = dict(a="Connect", c=2, srv=["wss", "vps"], l=2, kind="lib")

    def ticks(n, readers=(1, 2)):
        out = []
        for _ in range(n):
            out.append(dict(a="Tick"))
            out += [dict(a="ReadAll", c=k) for k in readers]
        return out

    def many(nconn):
        return base + nconn + 3         # more frames than there are buffers
    F = dict(a="Connect", c=3, srv=["vps", "cc"], l=1, kind="raw")
    G = dict(a="Connect", c=4, srv=["ttx", "wss"], l=0, kind="raw")
    A3, A4 = dict(a="Accept", c=3), dict(a="Accept", c=4)
    out = []
    # a part of the header / the header and a part of the body, silence for many frames, then the rest
    for k in (1, 4, 7):
        out.append(("stuck-hdr%d" % k, [W1, W2, A3, F] + ticks(2) + [dict(a="Partial", c=3, upto=k)] + ticks(many(3)) +
                    [dict(a="Other", c=3, m="notify", f=[])] + ticks(2, (1, 2, 3))))
    out.append(("stuck-body", [W1, W2, A3, F] + ticks(1) + [dict(a="Partial", c=3, upto=11)] + ticks(many(3)) +
                [dict(a="ServiceReq", c=3, srv=["wss"], l=1, reset=True)] + ticks(2, (1, 2, 3))))
    out.append(("stuck-hdr-body", [W1, W2, A3, F] + ticks(1) + [dict(a="Partial", c=3, upto=3)] + ticks(2) + [dict(a="Partial", c=3, upto=8)] +
                ticks(2) + [dict(a="Partial", c=3, upto=20)] + ticks(many(3)) + [dict(a="Other", c=3, m="token", p=2, v=False)] + ticks(2, (1, 2, 3))))
    # ... then a disconnect at that byte / the rest is garbage / the message is one the daemon refuses
    out.append(("stuck-eof", [W1, W2, A3, F] + ticks(1) + [dict(a="Partial", c=3, upto=5)] + ticks(many(3)) + [dict(a="Drop", c=3, how="eof")] + ticks(2)))
    out.append(("stuck-bad", [W1, W2, A3, F] + ticks(1) + [dict(a="Partial", c=3, ph="hdr")] + ticks(many(3)) + [dict(a="Drop", c=3, how="bad")] + ticks(2)))
    out.append(("stuck-state", [W1, W2, A3, F] + ticks(1) + [dict(a="Partial", c=3, ph="body")] + ticks(many(3)) +
                [dict(a="Drop", c=3, how="state", st="fwd")] + ticks(2)))
    # connected, CONNECT_REQ never sent / sent in part
    out.append(("never-connects", [W1, W2, A3] + ticks(many(3)) + [dict(a="Partial", c=3, upto=6)] + ticks(many(3)) + [F] + ticks(2, (1, 2, 3)) +
                [A4] + ticks(2, (1, 2, 3)) + [dict(a="Drop", c=4, how="eof")] + ticks(1, (1, 2, 3))))
    # ... while another client is silent in the middle of a message (the connection without CONNECT_REQ counts for the buffers)
    out.append(("stuck-while-waiting", [W1, W2, A3, A4, F] + ticks(1) + [dict(a="Partial", c=3, upto=6)] + ticks(many(4)) +
                [dict(a="Partial", c=4, upto=3)] + ticks(3) + [dict(a="Drop", c=4, how="eof")] + ticks(3) +
                [dict(a="Other", c=3, m="notify", f=[])] + ticks(2, (1, 2, 3))))
    # all services removed while a frame is queued for the client (frame and request in one pass of the main loop)
    out.append(("service-none-queued", [W1, W2, A3, F] + ticks(2, (1, 2, 3)) + [dict(a="TickService", c=3, srv=[], l=1, reset=True), dict(a="ReadAll", c=1),
                dict(a="ReadAll", c=2)] + ticks(3) + [dict(a="TickService", c=3, srv=["ttx"], l=1, reset=False), dict(a="ReadAll", c=1), dict(a="ReadAll", c=2)] +
                ticks(2, (1, 2, 3))))
    # the token holder (a stalled reader with frames queued) disconnects while frames flow; the token goes to the next one
    # (tokens are scheduled only while every client is at background priority: all four are raw clients that say so)
    out.append(("token-holder-leaves", [W1, dict(W2, kind="raw"), A3, F, A4, G, dict(a="Other", c=1, m="token", p=1, v=False),
                dict(a="Other", c=2, m="token", p=1, v=False), dict(a="Other", c=3, m="token", p=1, v=True), dict(a="Other", c=4, m="token", p=1, v=True)] +
                ticks(many(4), (1, 2, 4)) + [dict(a="Drop", c=3, how="eof")] + ticks(3, (1, 2, 4)) +
                [dict(a="Other", c=4, m="notify", f=["TOKEN"]), dict(a="Drop", c=4, how="close")] + ticks(2)))
    # two faulty clients at once, silent at different bytes; one goes on, the other leaves
    out.append(("two-stuck", [W1, W2, A3, F, A4, G] + ticks(1) + [dict(a="Partial", c=3, upto=2), dict(a="Partial", c=4, upto=13)] + ticks(many(4)) +
                [dict(a="Other", c=4, m="suspend")] + ticks(2, (1, 2, 4)) + [dict(a="Drop", c=3, how="eof")] + ticks(2, (1, 2, 4))))
    # a slow reader (blocked write) for many frames, then it closes while the daemon is in the middle of writing a frame to it
    big = dict(a="Connect", c=3, srv=["ttx", "vps", "cc", "wss"], l=1, kind="raw")
    out.append(("close-mid-write", [W1, W2, A3, big] + ticks(many(3) + 8) + [dict(a="Drop", c=3, how="eof")] + ticks(3)))
    out.append(("slow-reader", [W1, W2, A3, big] + ticks(many(3) + 8) + [dict(a="ReadAll", c=3)] + ticks(2, (1, 2, 3))))
    # a slow reader that is also silent in the middle of a message
    out.append(("slow-and-stuck", [W1, W2, A3, big] + ticks(2) + [dict(a="Partial", c=3, upto=9)] + ticks(many(3)) + [dict(a="ReadAll", c=3)] +
                [dict(a="Other", c=3, m="ioctl")] + ticks(2, (1, 2, 3))))
    return out


# ------------------------------------------------------------------------------------------------ run

def run(ctx):
    quick = ctx.tier == "quick"
    ctx.cov["rule"] = ("cases = schedules (TLC random walks through ProxyQueue + seeded stall/burst schedules) executed against the real "
                       "daemon (select and thread variant) and validated by Trace_ProxyQueue together with every frame every client received; "
                       "distinct by (variant, steps); non-trivial = at least two captured frames")
    ctx.assumptions += ["the harness owns the capture clock (synthetic device sim:<fifo>); one stimulus at a time except frame bursts",
                        "clients request buffer_count <= the daemon's -buffers value (1)",
                        "sliced services only (the synthetic device has no raw service); local socket transport"]
    drv = build.build_driver("drv_proxycl")
    build.build_daemon()
    lay = proxy.Layout(drv)

    # ---- model checking
    for cfg, to in ([("MC_ProxyQueue_q", 600), ("MC_ProxyQueue_thr", 600), ("MC_ProxyQueue_stuck", 600), ("MC_ProxyQueue_stuckthr", 600)] if quick else
                    [("MC_ProxyQueue_q", 600), ("MC_ProxyQueue_thr", 600), ("MC_ProxyQueue_stuck", 600), ("MC_ProxyQueue_stuckthr", 600),
                     ("MC_ProxyQueue_t", 900), ("MC_ProxyQueue_tthr", 900),
                     ("MC_ProxyQueue_a", 1500), ("MC_ProxyQueue_lvl", 1500), ("MC_ProxyQueue_t3", 1800)]):
        r = tlc.run("ProxyQueue", cfg, timeout=to, workers=8, heap="8g", coverage=not quick)
        ctx.add_mc(r, cfg)
        if r.violation:
            ctx.violate("mc", "mc:%s:%s" % (r.violation["kind"], r.violation["name"]), r.violation["text"][:3000])
    for cfg, prop in (("MC_ProxyQueue_reach", "NeverLost"), ("MC_ProxyQueue_reachstuck", "NeverStuckLoses")):
        r = tlc.run("ProxyQueue", cfg, timeout=600, workers=8, heap="6g")
        ctx.add_mc(r, cfg)
        if not r.violation or r.violation["name"] != prop:
            raise tlc.ToolFailure("%s: %s holds in the model - no frame is ever lost / taken away from a client in the middle of a "
                                  "message (the loss properties would be vacuous)" % (cfg, prop))

    # ---- schedules
    rnd = random.Random(ctx.seed * 104729 + 18)
    scheds = []
    n = 14 if quick else 150
    g = tlc.run("Gen_ProxyQueue", "Gen_ProxyQueue", timeout=900, workers=4, simulate=n, depth=92, seed=ctx.seed, collect_tr=True,
                heap="2g", max_tr=4 * n)
    ctx.add_mc(g, "GEN Gen_ProxyQueue")
    seen = set()
    for t in g.tr:
        st = [{k: v for k, v in s.items() if k != "k"} for s in thin(rnd, t)]
        h = json.dumps(st, sort_keys=True)
        if h in seen or len(scheds) >= n:
            continue
        seen.add(h)
        scheds.append(("walk#%d" % len(scheds), st))
    for i in range(8 if quick else 100):
        scheds.append(("seeded#%d" % i, seeded_schedule(rnd, rnd.choice([25, 40, 60]))))
    scheds = [(nm, st, ctx.seed * 7919 + i) for i, (nm, st) in enumerate(scheds)]
    # a stalled client, the others keep up, frames arrive in bursts: in the thread variant the acquisition thread
    # forces buffers free while the main loop is forwarding (with the send-delay hook this interleaves every time)
    stress = [dict(a="Connect", c=1, srv=["ttx"], l=1, kind="raw"), dict(a="Connect", c=2, srv=["wss"], l=1, kind="raw"),
              dict(a="Connect", c=3, srv=["ttx", "wss"], l=1, kind="lib")] + [dict(a="Tick")] * 12
    for i in range(10 if quick else 40):
        stress += [dict(a="Burst", n=6), dict(a="ReadAll", c=2), dict(a="ReadAll", c=3)]
    scheds.append(("burst-stress", stress, ctx.seed * 7919 + len(scheds)))
    # the daemon is terminated while a stalled client still has frames queued (shutdown stops the acquisition first)
    down = [dict(a="Connect", c=1, srv=["ttx", "wss"], l=1, kind="raw"), dict(a="Connect", c=2, srv=["wss"], l=2, kind="raw"),
            dict(a="Connect", c=3, srv=["ttx"], l=0, kind="lib")]
    for i in range(16):
        down += [dict(a="Tick"), dict(a="ReadAll", c=2), dict(a="ReadAll", c=3)]
        if i % 5 == 2:      # a frame and a service request of client 2 in the same pass of the main loop
            down += [dict(a="TickService", c=2, srv=[["vps"], ["wss"], ["ttx", "cc"]][i // 5], l=1, reset=i > 8), dict(a="ReadAll", c=3)]
    down += [dict(a="Tick"), dict(a="Shutdown")]
    scheds.append(("shutdown-with-queue", down, ctx.seed * 7919 + len(scheds)))
    ctx.sample(dict(source="TLC random walk", steps=scheds[0][1][:16]))
    ctx.sample(dict(source="seeded schedule", steps=scheds[-1][1][:16]))
    run_schedules(ctx, lay, scheds if not quick else scheds[0:-2:2] + scheds[-2:], "select", thread=False)
    run_schedules(ctx, lay, scheds if not quick else scheds[1:-2:2] + scheds[-2:], "thread", thread=True)
    # ---- clients that misbehave while frames flow (C19 runs the full set): a client silent in the middle of a message, one that
    # never sends its CONNECT_REQ, one that leaves in the middle of a frame written to it ... - the others get every frame
    want = ("stuck-hdr4", "stuck-body", "two-stuck", "never-connects", "stuck-while-waiting", "service-none-queued", "close-mid-write", "slow-and-stuck")
    flow = flow_walks(ctx, 3 if quick else 60) + [x for x in flow_directed(1) if not quick or x[0] in want]
    flow = [(nm, st, ctx.seed * 7919 + 100000 + i) for i, (nm, st) in enumerate(flow)]
    ctx.sample(dict(source="TLC random walk through ProxyFlow (a client silent in the middle of a message)", steps=flow[0][1][:20]))
    # (quick: Trace_ProxyQueue only - the connection layer's view of the same runs is C19's business)
    run_schedules(ctx, lay, flow if not quick else flow[0::2], "flow", thread=False, conn_tv=not quick, nontrivial=flow_nontrivial)
    run_schedules(ctx, lay, flow if not quick else flow[1::2], "flow-thread", thread=True, conn_tv=not quick, nontrivial=flow_nontrivial)
    if not quick:
        b8 = [(nm, st, ctx.seed * 7919 + 200000 + i) for i, (nm, st) in enumerate(flow_directed(8))]
        run_schedules(ctx, lay, b8, "flow-b8", thread=False, conn_tv=True, buffers=8, nontrivial=flow_nontrivial)
    ctx.cov["exhaustive"] = False


def replay(ctx, rp):
    drv = build.build_driver("drv_proxycl")
    build.build_daemon()
    lay = proxy.Layout(drv)
    r = rp["replay"]
    run_schedules(ctx, lay, [(r["name"], [dict(s) for s in r["steps"]], r["seed"])], "replay", thread=r.get("thread", False),
                  buffers=r.get("buffers", 1), conn_tv=(r.get("kind") == "flow"))
