"""X01 (supplementary) - the Teletext page number table and the sliced filter built on it behave as documented.
spec/PageTable.tla:    vbi_page_table as a set of (page, subpage) numbers, one action per API call (add/remove of all pages,
  displayable pages, page ranges, pages, subpage ranges, subpages incl. invalid and swapped arguments; the queries
  contains_page/_subpage/_all_subpages, num_pages, next_page, next_subpage).  Properties on single numbers: set algebra,
  add-then-contains, remove-then-not, idempotence, swapped ranges, whole pages, queries agree, next = least item above,
  iteration enumerates exactly the table in order, num_pages agrees, cutting a whole page splits it.
spec/SlicedFilter.tla: vbi_sliced_filter on top of it: services, Teletext pages/subpages, system pages, reset, frames of
  headers / page packets / time filling headers / 8-30 + IDL packets / VPS, CC, WSS / damaged packets; per-magazine page
  state coded as in the implementation, property Faithful = every decision equals the page/magazine rules of EN 300 706
  evaluated on the history since the last reset; order preserved, nothing invented, count <= max, reset = new.
MC:     both modules exhaustively on small constants (scaled point universes for the table).
GEN:    transition cover + random walks with the real limits (pages 0x100..0x8FF, subpages 0..0x3F7E).
REPLAY: harness/drv_pagetable.c - after EVERY call: return value, num_pages, contains_page / contains_all_subpages for every
        page number, the complete next_page and next_subpage iterations, contains_subpage probes - folded onto the elements
        of the model and compared with the table TLC predicts.  harness/drv_slicedfilter.c - three filters (cor, feed +
        callback, cor in place) get real packets (lib/vlib/ttx.py); return values and kept lines compared per call."""
import json, os
from vlib import tlc, build, core, ttx

MANIFEST = dict(
    level="model_checking",
    engine="tlc-mc+replay",
    technique="TLA+ specs PageTable (set of page/subpage numbers, one action per API call, set-algebra / iteration / counting properties "
              "stated on single numbers) and SlicedFilter (services, page table, per-magazine page state; every keep/drop decision "
              "compared with the EN 300 706 page rules evaluated on the line history) checked exhaustively by TLC on small constants; "
              "transition covers and random walks with the real limits are replayed on the real library under ASan/UBSan with the "
              "complete observable state compared after every call",
    text="TLC checks on scaled universes that every page-table call adds / removes exactly the (page, subpage) numbers it names, fails "
         "without effect on invalid arguments, treats swapped ranges as documented, is idempotent, that contains_page / _subpage / "
         "_all_subpages and num_pages agree with the set, that next_subpage returns the least item above its argument and the iteration "
         "from (0, ANY) enumerates exactly the table in ascending order with as many pages as num_pages counts; and that the sliced filter "
         "keeps a line iff its service is kept or it is a Teletext packet of a wanted page (header decided by table or system-page flag, "
         "packets X/1..29 by the last header of their magazine, serial mode ending pages on any header), plus the header ending a kept "
         "page and the first header after reset; order preserved, nothing invented, never more than max lines. Generated call sequences "
         "with the real limits run on the real library: after every call the full table (every page number, both iterations, probes) "
         "resp. the kept lines of three filter variants (cor, feed+callback, in place) are compared with the prediction.",
    note="Supplementary check (not one of the 20 listed properties). Bounded: table model over a handful of individually addressed pages / "
         "subpages plus the ranges between them; filter histories of <= 14 lines between resets in replay, <= 4 in MC. Left open where the "
         "sources are silent: whether subpage ranges covering a whole page are merged; packets after a time filling header; mixed serial / "
         "parallel headers; continuing without reset after an output overflow or a switch between whole-service and per-page Teletext.",
)

# ------------------------------------------------------------------------------------------------ page table
def is_bcd(p):
    return (p & 15) <= 9 and ((p >> 4) & 15) <= 9


class Part:
    """the partition TLC printed: page elements (lo, hi, kind) and subpage elements (lo, hi)"""
    def __init__(self, d):
        self.maxsub, self.minpg, self.maxpg = d["maxsub"], d["minpg"], d["maxpg"]
        self.any = self.maxsub + 1
        self.pel = sorted((e["lo"], e["hi"], e["k"]) for e in d["pel"])
        self.sel = sorted((x["lo"], x["hi"]) for x in d["sel"])
        self.pages = {e: [p for p in range(e[0], e[1] + 1) if is_bcd(p) == (e[2] == "b")] for e in self.pel}
        self.el_of = {}
        for e, ps in self.pages.items():
            for p in ps:
                self.el_of[p] = e
        ppg = []
        for e in self.pel:
            ps = self.pages[e]
            ppg += [ps[0], ps[-1]]
        self.probe_pages = sorted(set(ppg)) + [self.minpg - 1, self.maxpg + 1]
        psub = []
        for x in self.sel:
            psub += [x[0], x[1]]
        self.probe_subs = sorted(set(psub)) + [self.any, self.any + 1, -1]

    def sub_el(self, s):
        for x in self.sel:
            if x[0] <= s <= x[1]:
                return x
        return None


def coalesce(iv):
    out = []
    for lo, hi in sorted(iv):
        if out and out[-1][1] + 1 >= lo:
            out[-1][1] = max(out[-1][1], hi)
        else:
            out.append([lo, hi])
    return [tuple(x) for x in out]


def pt_cmd(op):
    o = op["o"]
    if o in ("add_all_pages", "add_all_displayable_pages", "remove_all_pages", "num_pages"):
        return o
    if o in ("add_pages", "remove_pages"):
        return "%s %d %d" % (o, op["a"], op["b"])
    if o in ("add_page", "remove_page", "contains_page", "contains_all_subpages", "next_page"):
        return "%s %d" % (o, op["p"])
    if o in ("add_subpages", "remove_subpages"):
        return "%s %d %d %d" % (o, op["p"], op["a"], op["b"])
    return "%s %d %d" % (o, op["p"], op["a"])       # add_subpage remove_subpage contains_subpage next_subpage


def pt_script(part, beh):
    return ["P %s | %s" % (" ".join(map(str, part.probe_pages)), " ".join(map(str, part.probe_subs)))] + [pt_cmd(st["op"]) for st in beh]


def expand_runs(runs):
    out = []
    for lo, hi in runs:
        out += range(lo, hi + 1)
    return out


def pt_check_state(part, obs, g):
    """compare the driver's dump g with the predicted table obs; returns None or (aspect, text)"""
    exp = {}
    for e in obs["els"]:
        exp[(e["lo"], e["hi"], e["k"])] = (e["all"], coalesce([tuple(x) for x in e["subs"]]), set(tuple(x) for x in e["subs"]))
    exp_pages = sorted(p for e in exp for p in part.pages[e])
    cp = expand_runs(g["cp"])
    if cp != exp_pages:
        d = sorted(set(cp) ^ set(exp_pages))
        return "contains_page", "contains_page differs from the model for pages %s" % ["%X" % p for p in d[:8]]
    ca = set(expand_runs(g["ca"]))
    for e in part.pel:
        a = exp[e][0] if e in exp else "F"
        for p in part.pages[e]:
            if (a == "T" and p not in ca) or (a == "F" and p in ca):
                return "contains_all_subpages", "contains_all_subpages(%X) = %d, the model says %s" % (p, p in ca, a)
    if any(p < part.minpg or p > part.maxpg for p in ca):
        return "contains_all_subpages", "TRUE for an invalid page number"
    if g["num"] != len(exp_pages):
        return "num_pages", "num_pages = %d, the table holds %d pages" % (g["num"], len(exp_pages))
    np_ = expand_runs(g["np"])
    if np_ != exp_pages or g["npn"] != len(exp_pages):
        return "next_page", "next_page iteration from 0 returned %d pages %s.., the table holds %d pages %s.." % (
            g["npn"], ["%X" % p for p in np_[:6]], len(exp_pages), ["%X" % p for p in exp_pages[:6]])
    # next_subpage iteration: runs [plo, phi] (whole pages) / [pg, slo, shi]
    seen = {}
    last = (-1, -1)
    for r in g["ns"]:
        first = (r[0], part.any) if len(r) == 2 else (r[0], r[1])
        if not last < first:
            return "next_subpage", "iteration not ascending: %s after %s" % (first, last)
        if len(r) == 2:
            for p in range(r[0], r[1] + 1):
                seen[p] = "any"
            last = (r[1], part.any)
        else:
            if seen.get(r[0]) == "any":
                return "next_subpage", "page %X returned as ANY and by subpage" % r[0]
            seen.setdefault(r[0], []).append((r[1], r[2]))
            last = (r[0], r[2])
    if sorted(seen) != exp_pages:
        d = sorted(set(seen) ^ set(exp_pages))
        return "next_subpage", "iteration from (0, ANY) visits pages %s.. differently from the table" % ["%X" % p for p in d[:8]]
    full = [(0, part.maxsub)]
    for p in exp_pages:
        a, iv, _ = exp[part.el_of[p]]
        got = seen[p] if seen[p] == "any" else coalesce(seen[p])
        ok = (got == "any") if a == "T" else (got == "any" or got == full) if a == "O" else (got == iv)
        if not ok:
            return "next_subpage", "iteration of page %X returns %s, the table holds %s" % (p, got, "all subpages" if a != "F" else iv)
    for p in part.probe_pages:
        s = g["probe"].get(str(p))
        if s is None:
            return "contains_subpage", "no probe for page %X" % p
        e = part.el_of.get(p)
        a, iv, subs = exp.get(e, ("F", [], set())) if e else ("F", [], set())
        for c, sn in zip(s, part.probe_subs):
            if sn == part.any:
                want = bool(subs)
            elif 0 <= sn <= part.maxsub:
                want = part.sub_el(sn) in subs
            else:
                if a != "F":
                    continue          # a subpage number which does not exist asked of a complete page: undetermined
                want = False
            if (c == "1") != want:
                return "contains_subpage", "contains_subpage(%X, %s) = %s, the model says %s" % (p, hex(sn), c, want)
    return None


def pt_check_ret(part, st, g):
    op, ret = st["op"], st["ret"]
    o = op["o"]
    if o == "contains_all_subpages":
        if ret["all"] != "O" and g["ret"] != (1 if ret["all"] == "T" else 0):
            return "return value %d, the model says %s" % (g["ret"], ret["all"])
    elif o == "num_pages":
        if g["ret"] != ret["n"]:
            return "returns %d, the model says %d" % (g["ret"], ret["n"])
    elif o in ("next_page", "next_subpage"):
        if bool(g["ret"]) != ret["ok"]:
            return "returns %d, the model says %s" % (g["ret"], ret)
        if ret["ok"]:
            if g["pg"] != ret["pg"]:
                return "returns page %X, the model says %X" % (g["pg"], ret["pg"])
            if o == "next_subpage" and g["sub"] != ret["sub"] and not (ret["open"] and g["sub"] == 0):
                return "returns subpage %X of page %X, the model says %X" % (g["sub"], g["pg"], ret["sub"])
    else:
        if bool(g["ret"]) != ret["ok"]:
            return "returns %d, the model says %s" % (g["ret"], ret["ok"])
    return None


def pt_compare(part, beh, lines):
    lines = lines[1:]            # answer to P
    for n, st in enumerate(beh):
        o = st["op"]["o"]
        if n >= len(lines):
            return (n, "diverge:pagetable:%s:crash" % o, "the driver stopped in this call")
        g = lines[n]
        if "error" in g:
            raise tlc.ToolFailure("drv_pagetable: " + str(g))
        bad = pt_check_ret(part, st, g)
        if bad:
            return (n, "diverge:pagetable:%s:return" % o, bad)
        bad = pt_check_state(part, st["obs"], g)
        if bad:
            return (n, "diverge:pagetable:%s:%s" % (o, bad[0]), bad[1])
    return None


def pt_nontrivial(beh):
    return any(st["op"]["o"] in ("add_subpages", "remove_subpages", "add_subpage", "remove_subpage") and st["ret"].get("ok") for st in beh)


def run_parallel(drv, scripts, nproc=8):
    chunks = [list(range(k, len(scripts), nproc)) for k in range(nproc)]

    def job(idx):
        return (idx, core.run_seq_driver([drv], [scripts[i] for i in idx], env=build.san_env(), timeout=900)) if idx else (idx, [])
    out = [None] * len(scripts)
    for idx, res in core.pmap(job, chunks, workers=nproc):
        for j, i in enumerate(idx):
            out[i] = res[j]
    return out


def pt_run_set(ctx, drv, part, behs, label):
    scripts = [pt_script(part, b) for b in behs]
    res = run_parallel(drv, scripts)
    for b, sc, r in zip(behs, scripts, res):
        if r.get("skipped"):
            continue
        rp = dict(kind="pagetable", part=part.raw, beh=b)
        ctx.count_case(sc[1:], nontrivial=pt_nontrivial(b))
        nsan = core.report_sanitizers(ctx, r["stderr"], replay=rp, in_scope=True) if r["stderr"] else 0
        bad = pt_compare(part, b, r["lines"])
        if bad is None:
            if not nsan:
                ctx.validated()
        elif not (nsan and bad[1].endswith(":crash")):
            n, key, why = bad
            ctx.violate("replay", key, "call %d of %s: %s" % (n + 1, [pt_cmd(st["op"]) for st in b[:n + 1]][-6:], why), rp)
        elif r["crashed"] and not nsan:
            ctx.violate("replay", bad[1], r["stderr"][-1500:], rp)
    if behs:
        b = behs[len(behs) // 2]
        ctx.sample(dict(source=label, calls=[pt_cmd(st["op"]) for st in b][:12], predicted_after_last_call=b[-1]["obs"], returned=b[-1]["ret"]))


def split_part(tr):
    part = None
    behs = []
    for t in tr:
        if isinstance(t, dict) and "pel" in t:
            part = Part(t)
            part.raw = t
        else:
            behs.append(t)
    if part is None:
        raise tlc.ToolFailure("generator did not print the partition")
    return part, behs


# ------------------------------------------------------------------------------------------------ sliced filter
SVC_MASK = dict(ttx=3, vps=4, cc=0x18, wss=0x400)
SVC_LINE = dict(vps=(4, 16), cc=(8, 22), wss=(0x400, 23))
TTX_IDS = (3, 1, 2)


def flip2(b):
    return b ^ 0x05         # two bit errors: uncorrectable for Hamming 8/4


def sf_lines(frame, serial):
    """model frame -> list (per model line) of lists of 'id:line:hex' sliced lines"""
    out = []
    pos = 0
    for l in frame:
        k = l["k"]
        grp = []
        n = l["b"] if k == "svc" else 1
        for j in range(n):
            pos += 1
            tail = [(pos * 7 + i) & 0xFF for i in range(14)]
            if k == "svc":
                sid, _ = SVC_LINE[l["s"]]
                data = [(pos * 13 + i * 5 + len(l["s"])) & 0xFF for i in range(56)]
            else:
                sid = TTX_IDS[pos % 3]
                if k == "hdr":
                    pk = ttx.header(l["a"], l["b"], ttx.C11_SERIAL if serial else 0)
                elif k == "row":
                    pk = ttx.row(l["m"], l["a"], [0x20 + ((pos + i) % 0x5F) for i in range(40)])
                elif k == "fill":
                    pk = ttx.header((l["m"] & 7) << 8 | 0xFF, 0x3F7F, ttx.C11_SERIAL if serial else 0)
                elif k == "bsd":
                    pk = ttx.mrag(l["m"], l["a"]) + [ttx.ham8((pos + i) & 15) for i in range(40)]
                else:
                    if l["s"] == "addr":
                        pk = ttx.row(1, 1, [0x41] * 40)
                        pk[0] = flip2(pk[0])
                    else:
                        pk = ttx.header(0x100, 0, ttx.C11_SERIAL if serial else 0)
                        i = 2 if l["s"] == "page" else 6
                        pk[i] = flip2(pk[i])
                data = pk + tail
            grp.append("%d:%d:%s" % (sid, 5 + pos, "".join("%02x" % b for b in data)))
        out.append(grp)
    return out


def sf_cmd(st):
    c = st["call"]
    if c == "filter":
        grp = sf_lines(st["frame"], st["serial"])
        return "F %d %s" % (st["max"], " ".join(x for g in grp for x in g))
    if c == "reset":
        return "reset"
    if c in ("keep_services", "drop_services"):
        return "%s %d" % (c, sum(SVC_MASK[s] for s in st["set"]))
    if c == "keep_ttx_system_pages":
        return "%s %d" % (c, 1 if st["flag"] else 0)
    op = st["op"]
    if c in ("keep_ttx_pages", "drop_ttx_pages"):
        return "%s %d %d" % (c, op["a"], op["b"])
    if c in ("keep_ttx_page", "drop_ttx_page"):
        return "%s %d" % (c, op["p"])
    if c in ("keep_ttx_subpages", "drop_ttx_subpages"):
        return "%s %d %d %d" % (c, op["p"], op["a"], op["b"])
    return "%s %d %d" % (c, op["p"], op["a"])


def sf_compare(beh, lines):
    for n, st in enumerate(beh):
        c = st["call"]
        if n >= len(lines):
            return (n, "diverge:filter:%s:crash" % c, "the driver stopped in this call")
        g = lines[n]
        if c == "filter":
            grp = sf_lines(st["frame"], st["serial"])
            width = [len(x) for x in grp]
            size = sum(width)
            exp_out = [x for i in st["out"] for x in grp[i - 1]]
            exp_all = [x for i in st["all"] for x in grp[i - 1]]
            fail = st["fail"]
            full_ok = fail == 0
            full_nin = sum(width[:fail - 1]) if fail else size
            short = st["max"] < size
            want = dict(A=(st["ok"], st["nin"], exp_out),
                        B=(full_ok, full_nin, exp_all),
                        C=(full_ok, full_nin, exp_all) if short else (st["ok"], st["nin"], exp_out))
            for inst in "ABC":
                ok, nin, out = want[inst]
                o = g[inst]
                if bool(o["ok"]) != ok:
                    return (n, "diverge:filter:%s:return" % inst, "variant %s returns %d, the model says %s (frame %s, %d lines kept)" % (
                        inst, o["ok"], ok, [(l["k"], l["m"], l["a"], l["b"], l["s"]) for l in st["frame"]], len(exp_all)))
                if inst == "B":
                    if o["cb"] != (1 if ok else 0):
                        return (n, "diverge:filter:B:callback", "callback called %d times, success = %s" % (o["cb"], ok))
                    if not ok:
                        if o["nin"] != nin:
                            return (n, "diverge:filter:B:lines_read", "n_lines = %d after the failure, the model says %d" % (o["nin"], nin))
                        continue
                elif o["nout"] != len(out):
                    return (n, "diverge:filter:%s:count" % inst, "variant %s kept %d lines, the model says %d of %s" % (
                        inst, o["nout"], len(out), [(l["k"], l["m"], l["a"], l["b"], l["s"]) for l in st["frame"]]))
                if o["out"] != out:
                    allx = [x for gg in grp for x in gg]
                    got = [allx.index(x) + 1 if x in allx else "?" for x in o["out"]]
                    return (n, "diverge:filter:%s:lines" % inst, "variant %s kept the sliced lines %s of the frame %s, the model keeps %s" % (
                        inst, got, [(l["k"], l["m"], l["a"], l["b"], l["s"]) for l in st["frame"]], [allx.index(x) + 1 for x in out]))
                if o["nin"] != nin:
                    return (n, "diverge:filter:%s:lines_read" % inst, "variant %s reports %d lines read, the model says %d" % (inst, o["nin"], nin))
        elif c in ("keep_services", "drop_services"):
            want = sum(SVC_MASK[s] for s in st["now"])
            if g["ret"] != [want] * 3:
                return (n, "diverge:filter:%s:return" % c, "returns %s, the model says %#x" % (g["ret"], want))
        elif c != "reset":
            want = 1 if st["ok"] else 0
            if [1 if x else 0 for x in g["ret"]] != [want] * 3:
                return (n, "diverge:filter:%s:return" % c, "%s returns %s, the model says %d" % (sf_cmd(st), g["ret"], want))
    return None


def sf_nontrivial(beh):
    return any(st["call"] == "filter" and any(st["frame"][i - 1]["k"] in ("hdr", "row") for i in st["all"]) for st in beh)


def sf_run_set(ctx, drv, behs, label):
    scripts = [[sf_cmd(st) for st in b] for b in behs]
    res = run_parallel(drv, scripts)
    for b, sc, r in zip(behs, scripts, res):
        if r.get("skipped"):
            continue
        rp = dict(kind="filter", beh=b)
        ctx.count_case(sc, nontrivial=sf_nontrivial(b))
        nsan = core.report_sanitizers(ctx, r["stderr"], replay=rp, in_scope=True) if r["stderr"] else 0
        bad = sf_compare(b, r["lines"])
        if bad is None:
            if not nsan:
                ctx.validated()
        elif not (nsan and bad[1].endswith(":crash")):
            n, key, why = bad
            ctx.violate("replay", key, "call %d (%s): %s" % (n + 1, " ; ".join(x[:60] for x in sc[max(0, n - 4):n + 1]), why), rp)
        elif r["crashed"] and not nsan:
            ctx.violate("replay", bad[1], r["stderr"][-1500:], rp)
    if behs:
        b = behs[len(behs) // 2]
        ctx.sample(dict(source=label, calls=[(st["call"], st.get("op") or st.get("set") or [(l["k"], l["m"], l["a"], l["b"], l["s"]) for l in st.get("frame", [])],
                                              st.get("all")) for st in b][:10]))


def dedupe(trs, exact=False):
    """walks are written once per candidate last step: keep one per common prefix (exact: drop identical ones only)"""
    seen, out = set(), []
    for t in trs:
        k = json.dumps(t if exact else t[:-1], sort_keys=True)
        if k in seen or not t:
            continue
        seen.add(k)
        out.append(t)
    return out


# ------------------------------------------------------------------------------------------------ driver
def mc(ctx, module, cfg, timeout, workers=8):
    r = tlc.run(module, cfg, timeout=timeout, workers=workers, heap="8g")
    ctx.add_mc(r, cfg)
    if r.violation:
        ctx.violate("mc", "mc:%s:%s:%s" % (cfg, r.violation["kind"], r.violation["name"]), r.violation["text"][:3000])
    return r


def walks(module, cfg, n, depth, seed, nproc=4):
    """tlc -simulate runs with one worker each (reproducible by seed), nproc of them side by side"""
    per = (n + nproc - 1) // nproc

    def job(k):
        # TLC's RandomElement draws the same values for seeds which differ only in the low bits: spread them
        sd = ((seed * 2654435761 + k * 1000003 * 7919) >> 3) % (1 << 31)
        return tlc.run(module, cfg, timeout=1500, workers=1, simulate=per, depth=depth, seed=sd, collect_tr=True, heap="2g")
    return core.pmap(job, list(range(nproc)), workers=nproc)


def run(ctx):
    quick = ctx.tier == "quick"
    ctx.cov["rule"] = ("cases = call sequences generated from the PageTable / SlicedFilter models (transition cover and random walks), "
                       "replayed on the real library with the full observable state compared after every call; distinct by driver script; "
                       "non-trivial = a successful subpage call (table) / a kept Teletext packet (filter)")
    ctx.assumptions += ["magazine serial mode (C11) is the same in all headers of a stream",
                        "Teletext is kept or dropped as one service (VBI_SLICED_TELETEXT_B_625, both line sets)",
                        "allocation failures are not injected"]
    drv_pt = build.build_driver("drv_pagetable")
    drv_sf = build.build_driver("drv_slicedfilter")
    # ---- exhaustive model checking
    for cfg, to in ([("MC_PageTable_q", 600)] if quick else [("MC_PageTable_q", 600), ("MC_PageTable_t2", 900), ("MC_PageTable_t", 1500)]):
        mc(ctx, "MC_PageTable", cfg, to)
    for cfg, to in ([("MC_SlicedFilter_q", 600)] if quick else [("MC_SlicedFilter_q", 600), ("MC_SlicedFilter_t", 1500), ("MC_SlicedFilter_t2", 1500), ("MC_SlicedFilter_t3", 1500)]):
        mc(ctx, "MC_SlicedFilter", cfg, to)
    # ---- page table: transition cover + random walks, replayed
    # one worker: strict breadth-first order, so every table state is entered by a shortest call sequence (deterministic cover)
    g = tlc.run("Gen_PageTable", "Gen_PageTable_cover" if quick else "Gen_PageTable_cover_t", timeout=1500, workers=1, collect_tr=True, heap="8g")
    if g.violation:
        raise tlc.ToolFailure("GEN run reported " + str(g.violation))
    ctx.add_mc(g, "GEN PageTable cover")
    part, behs = split_part(g.tr)
    pt_run_set(ctx, drv_pt, part, behs, "transition cover")
    for cfg, n, depth in ([("Gen_PageTable_walk", 160, 26)] if quick else [("Gen_PageTable_walk", 2400, 26), ("Gen_PageTable_walk_long", 240, 122)]):
        behs = []
        for r in walks("Gen_PageTable", cfg, n, depth, ctx.seed):
            ctx.add_mc(r, "GEN %s" % cfg)
            part, b = split_part(r.tr)
            behs += b
        pt_run_set(ctx, drv_pt, part, behs, "random walk")
    # ---- sliced filter
    if not quick:
        g = tlc.run("Gen_SlicedFilter", "Gen_SlicedFilter_all", timeout=1500, workers=8, collect_tr=True, heap="8g")
        if g.violation:
            raise tlc.ToolFailure("GEN run reported " + str(g.violation))
        ctx.add_mc(g, "GEN SlicedFilter exhaustive")
        sf_run_set(ctx, drv_sf, dedupe(g.tr, exact=True), "all behaviours within the bounds")
    behs = []
    for r in walks("Gen_SlicedFilter", "Gen_SlicedFilter_walk", 160 if quick else 2400, 82, ctx.seed):
        ctx.add_mc(r, "GEN Gen_SlicedFilter_walk")
        behs += r.tr
    sf_run_set(ctx, drv_sf, dedupe(behs), "random walk")
    ctx.cov["exhaustive"] = True


def replay(ctx, rp):
    r = rp["replay"]
    if r["kind"] == "pagetable":
        drv = build.build_driver("drv_pagetable")
        part = Part(r["part"])
        part.raw = r["part"]
        sc = pt_script(part, r["beh"])
        res = core.run_seq_driver([drv], [sc], env=build.san_env())[0]
        for l, g in zip(sc[1:], res["lines"][1:]):
            print(l, "->", json.dumps(g)[:400])
        if res["stderr"]:
            print(res["stderr"][-3000:])
            core.report_sanitizers(ctx, res["stderr"], replay=r, in_scope=True)
        bad = pt_compare(part, r["beh"], res["lines"])
    else:
        drv = build.build_driver("drv_slicedfilter")
        sc = [sf_cmd(st) for st in r["beh"]]
        res = core.run_seq_driver([drv], [sc], env=build.san_env())[0]
        for l, g in zip(sc, res["lines"]):
            print(l[:200], "->", json.dumps(g)[:400])
        if res["stderr"]:
            print(res["stderr"][-3000:])
            core.report_sanitizers(ctx, res["stderr"], replay=r, in_scope=True)
        bad = sf_compare(r["beh"], res["lines"])
    if bad and not (ctx.violations and bad[1].endswith(":crash")):
        ctx.violate("replay", bad[1], bad[2], r)


def selftest(ctx):
    """the comparison rejects corrupted predictions: a table element, a return value, a kept line, a lines-read count"""
    import copy
    drv_pt = build.build_driver("drv_pagetable")
    drv_sf = build.build_driver("drv_slicedfilter")
    r = tlc.run("Gen_PageTable", "Gen_PageTable_walk", timeout=600, workers=1, simulate=20, depth=26, seed=ctx.seed * 331804471 % (1 << 31), collect_tr=True, heap="2g")
    part, behs = split_part(r.tr)
    res = core.run_seq_driver([drv_pt], [pt_script(part, b) for b in behs], env=build.san_env())
    fails = []
    n_ok = sum(1 for b, x in zip(behs, res) if pt_compare(part, b, x["lines"]) is None)
    if n_ok != len(behs):
        fails.append("unmodified page table behaviours rejected: %d of %d" % (len(behs) - n_ok, len(behs)))
    done = set()
    for b, x in zip(behs, res):
        for n, st in enumerate(b):
            els = st["obs"]["els"]
            if "el" not in done and els:
                c = copy.deepcopy(b); c[n]["obs"]["els"] = els[1:]
                done.add("el")
                if pt_compare(part, c, x["lines"]) is None:
                    fails.append("dropped table element accepted")
            if "sub" not in done and any(e["all"] == "F" and len(e["subs"]) > 1 for e in els):
                c = copy.deepcopy(b)
                e = [e for e in c[n]["obs"]["els"] if e["all"] == "F" and len(e["subs"]) > 1][0]
                e["subs"] = e["subs"][1:]
                done.add("sub")
                if pt_compare(part, c, x["lines"]) is None:
                    fails.append("dropped subpage element accepted")
            if "ret" not in done and "ok" in st["ret"] and st["op"]["o"].startswith(("add_", "remove_")):
                c = copy.deepcopy(b); c[n]["ret"]["ok"] = not st["ret"]["ok"]
                done.add("ret")
                if pt_compare(part, c, x["lines"]) is None:
                    fails.append("flipped return value accepted")
            if "num" not in done and els:
                c = copy.deepcopy(b); c[n]["obs"]["num"] += 1       # num is derived from els in the comparison: corrupt the driver side
                y = copy.deepcopy(x["lines"]); y[n + 1]["num"] += 1
                done.add("num")
                if pt_compare(part, b, y) is None:
                    fails.append("wrong num_pages accepted")
    if done != {"el", "sub", "ret", "num"}:
        fails.append("page table corruptions not all applicable: %s" % sorted(done))
    rs = tlc.run("Gen_SlicedFilter", "Gen_SlicedFilter_walk", timeout=600, workers=1, simulate=20, depth=82, seed=ctx.seed * 331804471 % (1 << 31), collect_tr=True, heap="2g")
    behs = dedupe(rs.tr)
    res = core.run_seq_driver([drv_sf], [[sf_cmd(st) for st in b] for b in behs], env=build.san_env())
    n_ok = sum(1 for b, x in zip(behs, res) if sf_compare(b, x["lines"]) is None)
    if n_ok != len(behs):
        fails.append("unmodified filter behaviours rejected: %d of %d" % (len(behs) - n_ok, len(behs)))
    done = set()
    for b, x in zip(behs, res):
        for n, st in enumerate(b):
            if st["call"] != "filter":
                continue
            if "out" not in done and st["ok"] and st["out"]:
                c = copy.deepcopy(b); c[n]["out"] = st["out"][1:]; c[n]["all"] = st["all"][1:]
                done.add("out")
                if sf_compare(c, x["lines"]) is None:
                    fails.append("dropped kept line accepted")
            if "nin" not in done and not st["ok"]:
                c = copy.deepcopy(b); c[n]["nin"] = st["nin"] + 1
                done.add("nin")
                if sf_compare(c, x["lines"]) is None:
                    fails.append("wrong lines-read count accepted")
            if "ok" not in done and st["ok"] and st["max"] == st["size"]:
                c = copy.deepcopy(b); c[n]["ok"] = False
                done.add("ok")
                if sf_compare(c, x["lines"]) is None:
                    fails.append("flipped success accepted")
    if done != {"out", "nin", "ok"}:
        fails.append("filter corruptions not all applicable: %s" % sorted(done))
    for f in fails:
        print("SELFTEST FAILED:", f)
    print("selftest: %d corruptions rejected" % (7 - len(fails)) if not fails else "selftest: FAILED")
    return 0 if not fails else 2
