"""C01 - the service decoder survives every input: no crash, abort, hang, bad access, undefined behaviour, leak or unbounded growth.
spec/ServiceDecoder.tla: the decoder behind its public alphabet - frames of <= 4 sliced lines with a time step (every Teletext packet
  class, caption pairs by EIA-608 class on both fields incl. XDS and ITV text, VPS, WSS, `Arbitrary` lines) interleaved with every
  read-side / control call; composition (INSTANCE) of TtxAssembly, Xds, Announce, TtxEvents + the frame loop / channel-switch countdown,
  X/26 triplet counter, caption cursor machine, page slot and search context written after the code.
MC:  type / bound invariants of the composition on small constants (TripletBound, XdsBound, CursorOK, ItvBound, CacheBound, HandlersOK ...).
GEN: random walks (tlc -simulate) through the full alphabet + transition cover of the small model.
REPLAY: harness/drv_service.c executes every history on a real vbi_decoder under ASan + UBSan + LSan with a watchdog; allocation counters
  after every repetition of the transmission cycle (plateau) and after vbi_decoder_delete; where the reference knows the state (cached
  page keys, countdown, fetch result) it is compared.   Thorough: byte-level mutation pass over a recorded valid transmission."""
import json, os, re, random, subprocess, time, hashlib
from vlib import tlc, build, core, ttx, service

MANIFEST = dict(
    level="exploration",
    engine="tlc-gen+replay",
    technique="TLA+ spec ServiceDecoder (composition of TtxAssembly, Xds, Announce, TtxEvents with the frame loop, channel-switch countdown, "
              "X/26 counter and caption cursor machine of the code) model-checked by TLC for its type/bound invariants; TLC-generated histories "
              "(random walks over the full line and API alphabet + transition cover of the small model) replayed on the real vbi_decoder under "
              "ASan/UBSan/LSan with watchdog and allocation accounting; spec-predicted cache keys / countdown / fetch results compared",
    text="TLC checks the composition's sanity invariants (triplet count <= 16*13, XDS buffers <= 32, caption cursor and roll-up window inside "
         "the page, ITV buffer index, cache keys only of transmitted pages, handler list / enabled services) on small constants and generates "
         "histories: frames of <= 4 sliced lines (Teletext headers/rows/X26/X27/X28/M29/8-30, system pages MOT MIP BTT AIT MPT POP DRCS trigger, "
         "caption control/text/XDS/ITV on both fields, VPS, WSS 625 and CPR-1204, damaged packets, lines with arbitrary bytes / ids / line "
         "numbers) with regular, repeated, backward and jumping timestamps, interleaved with fetches at all levels, caption fetches, classify, "
         "title, link resolution, export with every module, region rendering, printing, searches with regex metacharacters, channel switch, "
         "handler (un)registration incl. handlers that call back into the read API. The real decoder executes each history under the "
         "sanitizers; a report, an abort, a watchdog timeout, allocation growing with every repetition of the same transmission or not "
         "returning to the pre-new value after vbi_decoder_delete, or a divergence from the predicted cache keys is a violation.",
    note="Exploration, not proof: memory safety / UB / leaks / hangs are decided by the instrumented build on the generated histories and on "
         "the byte-level mutation pass (thorough tier), not by the model. UBSan checks outside the statement (pointer-overflow on NULL+0, "
         "alignment, enum/bool loads) are noted, not counted. Three deliberate first-row indexing sites of 2-D arrays are allow-listed "
         "(DESIGN.md 8.3). Threads, the raw decoder, DVB and the proxy are other properties.",
)

JOBS = int(os.environ.get("VERIF_JOBS", "12"))

# ------------------------------------------------------------------ sanitizer policy (DESIGN.md C01)
FATAL_UB = [("shift", r"shift exponent|left shift of|right shift of"),
            ("signed-integer-overflow", r"signed integer overflow|negation of .* cannot be represented"),
            ("integer-divide-by-zero", r"division by zero"),
            ("float-cast-overflow", r"is outside the range of representable values"),
            ("null", r"null pointer of type|load of null pointer|store to null pointer|member (access|call) (within|on) null pointer|reference binding to null"),
            ("return", r"reached the end of a value-returning function"),
            ("unreachable", r"unreachable program point"),
            ("vla-bound", r"variable length array bound"),
            ("bounds", r"index -?\w+ out of bounds")]

# deliberate first-row indexing of a 2-D array, same site as core.BOUNDS_ALLOW's parse_mot entries (DESIGN.md 5/C01: drcs_link[0][8..15]);
# the element type is vbi_pgno, which the shared list does not spell
BOUNDS_ALLOW = core.BOUNDS_ALLOW + [("packet.c", "parse_mot", "vbi_pgno[8]")]

# Genuine defects without a small safe repair, proposed for known-findings.json (doc/notes-C01.md); matched exactly like
# core.match_finding so that the entries can be moved there unchanged.  Everything else is still reported.
PROPOSED_KNOWN = []     # entries moved to known-findings.json by the lead (D8 known; the duplicate-version growth is fixed: D34)


def ub_class(kind):
    """kind: 'ubsan:<normalised message>' -> check name of the fatal set, or None (outside the statement)"""
    msg = kind[6:]
    for name, rx in FATAL_UB:
        if re.search(rx, msg):
            return name
    return None


def split_stderr(se):
    """-> {reset number: text}"""
    out, cur = {}, 0
    for part in re.split(r"(@@R \d+\n)", se):
        m = re.match(r"@@R (\d+)\n", part)
        if m:
            cur = int(m.group(1))
        else:
            out[cur] = out.get(cur, "") + part
    return out


# ------------------------------------------------------------------ running the driver
WARMUP = None


def warmup_script(sp):
    """one behaviour touching every API once: one-time allocations of libc / the library happen here, not in a judged behaviour"""
    T = service.ID_TTX
    s = ["R", "G 0 0 fff", "G 1 1 fff"]

    def D(pk, sid=T, line=7, dt=0):
        return "D %x 1 %x %x %s" % (dt, sid, line, service.hx(pk))
    s.append(D(ttx.header(0x100, 0, ttx.C4_ERASE)))
    for r in range(1, 24):
        s.append(D(ttx.row(1, r, [0x41 + r] * 40)))
    s.append(D(ttx.header(0x1FF, 0x3F7F, 0)))
    s.append(D(list(bytes.fromhex(sp[("vps", "a")])), service.ID_VPS, 16))
    s.append(D(list(bytes.fromhex(sp[("p1", "a")]))))
    s.append(D([0x08, 0x00], service.ID_WSS, 23))
    s.append(D([ttx.par8(0x14), ttx.par8(0x25)], service.ID_CC1, 21))
    s.append(D([ttx.par8(0x41), ttx.par8(0x20)], service.ID_CC1, 21))
    s.append(D([ttx.par8(0x01), ttx.par8(0x03)], service.ID_CC2, 284))
    for lv in range(4):
        s += ["F 100 3f7f %x 19 1" % lv, "K", "P", "W 0", "W 3"] + ["E " + m for m in ("text", "html", "png", "ppm", "xpm", "vtx", "tmpl", "nosuch")]
    s += ["Y 100", "T 100 0", "S 100 3f7f 1 1 42,2e,2a", "N 1", "N -1", "Q", "C 1 0", "W 0", "E text", "E png", "V 3", "Z 16", "H", "L", "M", "X"]
    return s


def run_process(drv, scripts, timeout):
    """scripts: list of lists of command lines (each starts with R).  -> (segments, stderr by reset number, rc, timed_out)"""
    text = "\n".join("\n".join(s) for s in scripts) + "\n"
    rc, so, se, to = core.run_driver([drv, "20"], text, timeout=timeout, env=build.san_env())
    segs = []
    for ln in so.split("\n"):
        if not ln.startswith("{"):
            continue
        try:
            o = json.loads(ln)
        except ValueError:
            continue
        if "reset" in o:
            segs.append([])
        elif segs:
            segs[-1].append(o)
    return segs, split_stderr(se), rc, to


def run_items(drv, items, timeout=900, max_restarts=25):
    """items: list of dict(script=.., checks=..).  Runs them in one driver process (warm-up behaviour first), restarting after a
    fatal report.  Sets it['out'] (answers), it['err'] (stderr of this behaviour), it['died'] = None | dict(rc, timeout) or
    it['skipped'].  Returns the items plus one pseudo item per warm-up behaviour that produced a report."""
    extra = []
    first, restarts = 0, 0
    while first < len(items):
        batch = items[first:]
        segs, errs, rc, to = run_process(drv, [WARMUP] + [it["script"] for it in batch], timeout)
        nstarted = len(segs)                  # including the warm-up behaviour (segment 0, reset number 1)
        # the process died inside the last started behaviour iff that one did not print its final answer
        # (exit codes alone do not tell: UBSan / LSan change the status of a normal exit)
        died = to or nstarted < len(batch) + 1 or not (segs and segs[-1] and "del" in segs[-1][-1])
        werr = errs.get(0, "") + errs.get(1, "")
        if werr.strip() or (died and nstarted <= 1):
            extra.append(dict(script=WARMUP, checks=[], out=segs[0] if segs else [], err=werr, warm=True, label="warm-up",
                              died=dict(rc=rc, timeout=to) if (died and nstarted <= 1) else None))
            if died and nstarted <= 1:
                for it in batch:
                    it["skipped"] = True
                break
        ndone = min(nstarted - 1, len(batch))
        for j in range(ndone):
            it = batch[j]
            it["out"] = segs[j + 1]
            it["err"] = errs.get(j + 2, "")
            it["died"] = dict(rc=rc, timeout=to) if (died and j == ndone - 1) else None
        if not died:
            break
        first += max(ndone, 1)
        restarts += 1
        if restarts > max_restarts:
            for it in items[first:]:
                it["skipped"] = True
            break
    return items + extra


# ------------------------------------------------------------------ judging one behaviour
def frames_fn(err):
    m = re.search(r"#\d+ 0x[0-9a-f]+ in (\S+) " + re.escape(build.REPO) + r"/\S+", err)
    return m.group(1) if m else "?"


class Sink:
    """collects the findings of one executed behaviour (same interface as Ctx.violate)"""
    def __init__(self, ctx):
        self.violations, self.notes, self.seed = [], ctx.notes, ctx.seed

    def violate(self, stage, key, detail="", replay=None):
        self.violations.append(core.Violation(stage, key, detail, replay))


def judge(ctx, it):
    """all monitors for one executed behaviour; returns True when nothing was found.  ctx: Ctx or Sink"""
    if it.get("skipped"):
        return None
    rp = dict(script=it["script"], checks=it.get("checks", []), label=it.get("label", ""), seed=ctx.seed)
    n0 = len(ctx.violations)
    err, out = it.get("err", ""), it.get("out", [])
    # 1. sanitizer reports (ASan is fatal, UBSan continues)
    seen = set()
    for kind, fn, where in core.sanitizer_reports(err, allow=BOUNDS_ALLOW):
        if kind.startswith("ubsan:"):
            cls = ub_class(kind)
            if cls is None:
                note = "UBSan report outside the statement's categories (not counted): %s in %s at %s" % (kind[6:], fn, where)
                if note not in ctx.notes and len(ctx.notes) < 40:
                    ctx.notes.append(note)
                continue
            key = "ubsan:%s:%s" % (cls, fn)
        else:
            key = "%s:%s" % (kind, fn)
        if key in seen:
            continue
        seen.add(key)
        i = err.find(where) if where else -1
        ctx.violate("sanitizer", key, err[max(0, i - 300):i + 2500] if i >= 0 else err[-2500:], rp)
    d = it.get("died")
    if d and not seen:
        hang = [o for o in out if "hang" in o]
        if hang:
            cmd = hang[-1]["hang"]
            api = {"N": "vbi_search_next", "F": "vbi_fetch_vt_page", "D": "vbi_decode", "E": "vbi_export", "W": "vbi_draw", "S": "vbi_search_new",
                   "K": "vbi_resolve_link", "P": "vbi_print_page", "T": "vbi_page_title", "Y": "vbi_classify_page", "X": "vbi_decoder_delete"}.get(cmd[:1], cmd[:1])
            ctx.violate("watchdog", "hang:%s" % api, "no return within 20 s from command `%s` (command %s of the behaviour)" % (cmd, hang[-1].get("ncmd")), rp)
        elif d["timeout"]:
            ctx.violate("watchdog", "hang:process", "driver process exceeded its time limit", rp)
        else:
            m = re.search(r"(\S+): Assertion [`'](.+?)' failed", err)
            if d["rc"] == -6 or m:
                fn = m.group(1).rstrip(":") if m else "?"
                ctx.violate("abort", "abort:assert:%s" % fn, err[-1500:], rp)
            else:
                ctx.violate("crash", "crash:rc%s:%s" % (d["rc"], frames_fn(err)), err[-2500:], rp)
    if d:
        return len(ctx.violations) == n0
    # 2. answers
    checks = it.get("checks", [])
    allocs, a0, final = [], None, None
    for idx, kind, exp in checks:
        if idx >= len(out):
            ctx.violate("replay", "diverge:short-output", "driver answered %d of %d commands" % (len(out), len(it["script"]) - 1), rp)
            break
        o = out[idx]
        if kind == "cache" and exp and o.get("pages") is not None and exp.get("sure"):
            real = {(p[0], p[1]) for p in o["pages"] if p[0] not in service.SPECIAL}
            must = {tuple(k) for k in exp["must"] if k[0] not in service.SPECIAL}
            may = {tuple(k) for k in exp["may"] if k[0] not in service.SPECIAL}
            if not must <= real:
                ctx.violate("oracle", "diverge:cache:missing", "after frame (answer %d): the reference says pages %s are cached, the decoder holds %s"
                            % (idx, sorted("%x/%x" % k for k in must - real), sorted("%x/%x" % k for k in real)), rp)
                break
            if not real <= may:
                ctx.violate("oracle", "diverge:cache:extra", "after frame (answer %d): the decoder holds pages %s the reference does not expect (expected at most %s)"
                            % (idx, sorted("%x/%x" % k for k in real - may), sorted("%x/%x" % k for k in may)), rp)
                break
            if exp.get("cdk") and "cd" in o and o["cd"] != exp["cd"]:
                ctx.violate("oracle", "diverge:countdown", "after frame (answer %d): channel-switch countdown %d, reference %d" % (idx, o["cd"], exp["cd"]), rp)
                break
        elif kind == "fetch":
            if "fetch" in o and o["fetch"]:
                if not (1 <= o["rows"] <= 25 and 40 <= o["cols"] <= 41):
                    ctx.violate("oracle", "diverge:fetch:geometry", "vbi_fetch_vt_page returned %d rows x %d columns" % (o["rows"], o["cols"]), rp)
            if exp in ("yes", "no") and "fetch" in o and bool(o["fetch"]) != (exp == "yes"):
                ctx.violate("oracle", "diverge:fetch:%s" % exp, "`%s`: the reference says the page is %scached, vbi_fetch_vt_page returned %d"
                            % (it["script"][idx + 1], "" if exp == "yes" else "not ", o["fetch"]), rp)
                break
        elif kind == "final":
            final = o
        elif kind == "alloc0":
            a0 = o.get("alloc")
        elif kind == "alloc":
            allocs.append(o.get("alloc"))
        elif kind == "del":
            if o.get("leak"):
                m = re.search(r"(Direct|Indirect) leak of (\d+) byte", err)
                ctx.violate("leak", "lsan:leak:%s" % leak_fn(err), err[err.find("ERROR: LeakSanitizer"):][:2500] if "LeakSanitizer" in err else err[-2000:], rp)
            elif o.get("now") != o.get("base"):
                it["undeleted"] = o.get("now", 0) - o.get("base", 0)
    # 3. plateau: the same transmission cycle repeated must not keep allocating
    if len(allocs) >= 4 and all(a is not None for a in allocs):
        tail = allocs[-4:]
        if all(tail[k] < tail[k + 1] for k in range(3)):
            # name the cause where the cache listing shows it: several stored versions of one page key
            cause, dups = "", []
            if final and final.get("pages"):
                keys = [(p[0], p[1]) for p in final["pages"]]
                dups = sorted({k for k in keys if keys.count(k) > 1})
                if dups:
                    cause = ":duplicate-page-versions" + ("-subno0" if all(k[1] == 0 for k in dups) else "")
            ctx.violate("alloc", "alloc:grows-per-cycle" + cause, "allocated bytes after each repetition of the same transmission cycle: %s (before: %s)%s"
                        % (allocs, a0, "; the cache holds several versions of %s" % ["%x/%x x%d" % (k[0], k[1], keys.count(k)) for k in dups] if dups else ""), rp)
    it["allocs"] = allocs
    return len(ctx.violations) == n0


def leak_fn(err):
    i = err.find("ERROR: LeakSanitizer")
    seg = err[i:] if i >= 0 else err
    for m in re.finditer(r"#\d+ 0x[0-9a-f]+ in (\S+) (\S+?):(\d+)", seg):
        if m.group(2).startswith(build.REPO) and not m.group(1).startswith("__"):
            return m.group(1)
    return "?"


def confirm_undeleted(ctx, drv, it):
    """allocation counter after vbi_decoder_delete differs from the value before vbi_decoder_new: run the behaviour twice in a fresh
    process; one-time allocations (libc, tables) appear only the first time"""
    a = dict(script=it["script"], checks=[])
    b = dict(script=it["script"], checks=[])
    run_items(drv, [a, b], timeout=600)
    o = [x for x in b.get("out", []) if "del" in x]
    if o and o[-1]["now"] != o[-1]["base"]:
        ctx.violate("alloc", "alloc:not-released-after-delete", "vbi_decoder_delete left %d bytes allocated (before vbi_decoder_new %d, after delete %d; "
                    "second execution in the same process)" % (o[-1]["now"] - o[-1]["base"], o[-1]["base"], o[-1]["now"]),
                    dict(script=it["script"], label=it.get("label", ""), seed=ctx.seed, twice=True))
        return False
    return True


# ------------------------------------------------------------------ generation
# station codes of the composition's own transmitter (two listed stations a/b and an unlisted code u per carrier)
ST_CODE = dict(vps=dict(a=0xAC1, b=0xAC2, u=0x123), p1=dict(a=0x4301, b=0x4302, u=0x1234), p2=dict(a=0x1AC1, b=0x1AC2, u=0x5123))
ST_PIL = dict(a=0x12345, b=0x2468A, u=0x3F0F0)
ST_TIME = dict(a=(0x45000, 0x123456, 2), b=(0x51603, 0x213243, -7), u=(0x53735, 0x235959, 0))


def station_packets(drv):
    lines, keys = [], []
    for c in ("vps", "p1", "p2"):
        for v in ("a", "b", "u"):
            code = ST_CODE[c][v]
            if c == "vps":
                lines.append("ev %x %x" % (code, ST_PIL[v]))
            elif c == "p1":
                mjd, utc, lto = ST_TIME[v]
                lines.append("e1 %x %x %x %d" % (code, mjd, utc, lto))
            else:
                lines.append("e2 %x %x" % (code, ST_PIL[v]))
            keys.append((c, v))
    rc, so, se, to = core.run_driver([drv], "\n".join(lines) + "\n", timeout=60, env=build.san_env())
    hexes = [json.loads(l)["hex"] for l in so.split("\n") if l.startswith("{")]
    if len(hexes) != len(keys) or not all(hexes):
        raise tlc.ToolFailure("station packet encoders failed: %s %s" % (so[-300:], se[-300:]))
    return dict(zip(keys, hexes))


def nontrivial(beh):
    """a history exercises the property when it feeds lines to the decoder and calls the read side"""
    acts = [st["act"]["a"] for st in beh["steps"]]
    return ("EndFrame" in acts) and any(a in acts for a in ("Fetch", "FetchCc", "SearchNext", "Export", "Render", "Links", "Classify", "Title"))


def make_items(ctx, behs, sp, seeds, label, audit=True, repeats=5):
    items = []
    for bi, beh in enumerate(behs):
        for s in seeds:
            seed = (ctx.seed * 7919 + s * 104729 + bi) & 0x7FFFFFFF
            script, checks = service.compile_history(beh, seed, sp, audit=audit, repeats=repeats)
            items.append(dict(script=script, checks=checks, label="%s #%d seed %d" % (label, bi, seed), beh=beh, cseed=seed))
    return items


def execute(ctx, drv, items, timeout):
    """run the items in JOBS driver processes; every finding is confirmed by running that single history on its own in a
    fresh process - only a finding that shows up again (same key) is a violation, anything else is noted (DESIGN.md 3.6 step 1)"""
    chunks = [items[k::JOBS] for k in range(JOBS)]

    def job(ch):
        return run_items(drv, ch, timeout=timeout) if ch else []
    nskip = 0
    suspects = []
    for res in core.pmap(job, chunks, workers=JOBS):
        for it in res:
            if it.get("skipped"):
                nskip += 1
                continue
            sink = Sink(ctx)
            ok = judge(sink, it)
            if it.get("warm") and ok:
                continue
            if not ok or it.get("undeleted"):
                suspects.append((it, sink))
            if not it.get("warm"):
                ctx.count_case(it["script"], nontrivial=nontrivial(it["beh"]) if "beh" in it else True)
                if ok and not it.get("undeleted"):
                    ctx.validated()
    # confirmation runs, one process per suspect history (at most a few per distinct key)
    perkey = {}
    todo = []
    for it, sink in suspects:
        keys = tuple(sorted({v.key for v in sink.violations})) or ("alloc:not-released-after-delete?",)
        if perkey.get(keys, 0) >= 3:
            continue
        perkey[keys] = perkey.get(keys, 0) + 1
        todo.append((it, sink))

    def confirm(pair):
        it, sink = pair
        solo = dict(script=it["script"], checks=it.get("checks", []), label=it.get("label", ""))
        res = run_items(drv, [solo], timeout=max(600, timeout))
        s2 = Sink(ctx)
        for x in res:
            if x.get("warm") and not it.get("warm"):
                continue
            ok = judge(s2, x)
            if ok and x.get("undeleted"):
                confirm_undeleted(s2, drv, x)
        return it, sink, s2
    for it, sink, s2 in core.pmap(confirm, todo, workers=min(JOBS, 8)):
        again = {v.key for v in s2.violations}
        for v in s2.violations:
            ctx.violations.append(v)
        for v in sink.violations:
            if v.key not in again:
                note = "not reproduced when the history ran on its own (no verdict): %s (%s)" % (v.key, it.get("label", ""))
                if len(ctx.notes) < 60:
                    ctx.notes.append(note)
    if nskip:
        ctx.notes.append("%d behaviours not executed (driver restarted too often after fatal reports)" % nskip)
        if nskip > len(items) // 2:
            raise tlc.ToolFailure("more than half of the behaviours could not be executed (%d of %d)" % (nskip, len(items)))


def sample_of(it):
    acts = [st["act"] for st in it["beh"]["steps"]]
    return dict(source=it["label"], steps=len(acts), first_actions=acts[:25], commands=len(it["script"]),
                allocated_after_each_cycle=it.get("allocs"))


# ------------------------------------------------------------------ byte-level mutation pass (thorough)
def recorded_transmission(sp):
    """a valid transmission: Teletext magazine 1 with enhancement (MOT, POP, DRCS, page with X/26 X/27 X/28), TOP, trigger page, caption
    (roll-up, pop-on, text/ITV), XDS packets, VPS, 8/30, WSS.  -> list of (sid, line, bytes)"""
    cz = service.Conc(12345, "parallel", sp)
    r = random.Random(4711)
    L = []
    T = service.ID_TTX

    marks = []      # start index of every page (recorded_transmission.marks: the pages as blocks, for the order permutations)

    def page(pg, sub, rows, x26=0, extra=()):
        m = pg >> 8
        marks.append(len(L))
        cz.open[m & 7] = pg
        L.append((T, 7, ttx.header(pg, sub, ttx.C4_ERASE)))
        for grp in rows:
            L.append((T, 7, cz.row_packet(r, m, grp, 1, pg)))
        for dc in range(x26):
            L.append((T, 7, cz.x26(r, m, dc, 13, 1)))
        for pk, dc in extra:
            L.append((T, 7, cz.ext(r, m, pk, dc, 1)))
    page(service.MOT1, 0, [1, 2, 3, 4, 5, 6])
    page(service.POP, 0, [1, 1, 2, 3, 3, 4])
    page(service.GPOP, 0, [1, 2, 3])
    page(service.DRCS, 0, [1, 2, 3, 4, 6])
    page(service.GDRCS, 0, [1, 2, 3])
    page(service.BTT, 0, [1, 2, 5, 5, 6])
    page(service.AIT, 0, [1, 2, 3])
    page(service.MPT, 0, [1, 2])
    page(service.TRIG, 0, [1, 2])
    page(0x100, 0, [1, 2, 3, 4, 5], x26=3, extra=[(27, 0), (28, 0)])
    page(0x101, 0, [1, 2, 3], x26=1, extra=[(27, 4), (29, 0)])
    page(0x150, 1, [1, 2], x26=1)             # DRCS characters, no X/28
    marks.append(len(L))
    recorded_transmission.marks = list(marks)
    L.append((T, 7, ttx.header(0x1FF, 0x3F7F, 0)))
    L.append((service.ID_VPS, 16, list(bytes.fromhex(sp[("vps", "a")]))))
    L.append((service.ID_VPS, 16, list(bytes.fromhex(sp[("vps", "a")]))))
    L.append((T, 7, list(bytes.fromhex(sp[("p1", "a")]))))
    L.append((T, 7, list(bytes.fromhex(sp[("p2", "a")]))))
    for _ in range(4):
        L.append((service.ID_WSS, 23, [0x08, 0x00]))
    L.append((service.ID_CPR, 20, [0x00, 0x00, 0x00]))
    P = ttx.par8

    def cc(f, a, b):
        L.append((service.ID_CC1 if f == 1 else service.ID_CC2, 21 if f == 1 else 284, [P(a), P(b)]))
    cc(1, 0x14, 0x26); cc(1, 0x14, 0x70)
    for a, b in ("HE", "LL", "O ", "WO", "RL", "D "):
        cc(1, ord(a), ord(b))
    cc(1, 0x14, 0x2D); cc(1, 0x14, 0x20); cc(1, 0x11, 0x4E); cc(1, ord("p"), ord("o")); cc(1, 0x14, 0x2F)
    cc(1, 0x1C, 0x2A)                      # text restart T2 -> ITV
    for k in range(0, 30, 2):
        s = "<http://a.bc/d>[n:Xy][s:1f] "
        cc(1, ord(s[k % len(s)]), ord(s[(k + 1) % len(s)]))
    cc(1, 0x1C, 0x2D)
    # XDS: current class programme name, channel class network name, misc time of day
    for c1, c2, txt in ((0x01, 0x03, "VERIF SHOW"), (0x05, 0x01, "NETA"), (0x07, 0x01, "\x41\x42\x43\x44\x45\x46")):
        cc(2, c1, c2)
        s = c1 + c2
        t = txt + ("\x00" if len(txt) % 2 else "")
        for k in range(0, len(t), 2):
            cc(2, ord(t[k]), ord(t[k + 1])); s += ord(t[k]) + ord(t[k + 1])
        s += 0x0F
        cc(2, 0x0F, (128 - (s & 127)) & 127)
    return L


READS = ["F 100 3f7f 3 19 1", "K", "E html", "W 0", "F 101 3f7f 2 19 1", "E text", "P", "F 100 0 1 19 0", "W 3", "F 15b 3f7f 3 19 1", "F 1f0 3f7f 3 19 1",
         "F 900 3f7f 3 19 1", "T 100 0", "Y 100", "Y 15c", "S 100 3f7f 1 1 5b,41,2d,5a,5d,2b", "N 1", "N 1", "N -1", "C 1 0", "W 0", "E text", "C 6 0", "P", "U"]


def mutation_items(ctx, sp, values, positions_per_packet=None):
    """every byte position of every packet of the recorded transmission replaced by every value of `values` (xor masks / absolute values)"""
    base = recorded_transmission(sp)

    def D(sid, line, bs):
        return "D 0 1 %x %x %s" % (sid, line, service.hx(bs))
    items = []
    rnd = random.Random(ctx.seed)
    for pi, (sid, line, bs) in enumerate(base):
        pos = list(range(len(bs)))
        if positions_per_packet and len(pos) > positions_per_packet:
            pos = sorted(rnd.sample(pos, positions_per_packet))
        script = ["R", "G 0 0 fff", "G 1 1 fff"]
        # all mutants of one packet in one behaviour: (prefix with the mutated packet, the rest, the read side)
        for p in pos:
            for kind, v in values:
                mb = list(bs)
                mb[p] = (mb[p] ^ v) if kind == "xor" else v
                if mb == list(bs):
                    continue
                for qi, (s2, l2, b2) in enumerate(base):
                    script.append(D(s2, l2, mb if qi == pi else b2))
                script += READS
                script.append("H")            # new network before the next mutant
                script.append("D 0 0")
        script += ["M", "X"]
        items.append(dict(script=script, checks=[(len(script) - 2, "del", None)], label="mutation of packet %d (%d positions)" % (pi, len(pos))))
    return items


def directed_items(sp):
    """a few hand-written histories around the recorded valid transmission: situations the random walks reach only by luck"""
    base = recorded_transmission(sp)
    tx = ["D 0 1 %x %x %s" % (a, b, service.hx(c)) for a, b, c in base]
    pre = ["R", "G 0 0 fff", "G 1 1 fff"]
    items = []

    def add(label, body, repeats=3):
        frames = [l for l in body if l.startswith("D ")]
        script = pre + body + ["U", "M"]
        checks = [(len(script) - 2, "alloc0", None)]
        for k in range(repeats):
            script += frames + ["M"]
            checks.append((len(script) - 2, "alloc", None))
        script += ["L", "X"]
        checks += [(len(script) - 3, "final", None), (len(script) - 2, "del", None)]
        items.append(dict(script=script, checks=checks, label="directed: " + label))
    # a page held by the application while the transmission goes on (display of a rolling page)
    for pg in ("100", "150", "101"):
        for lv in (1, 2, 3):
            add("page %s level %d held across a retransmission" % (pg, lv), tx + ["F %s 3f7f %d 19 1" % (pg, lv)] + tx + ["W 0", "W 3", "K", "P", "E png", "E html", "E text"])
    add("every read-side call on the recorded transmission", tx + READS + ["H", "D 0 0"] + tx + READS)
    # the pages of the recorded transmission in other orders (a page that is the TARGET of a link - AIT of the BTT, POP / DRCS of the
    # MOT, the pages of X/27/4 links - received before or long after the page that names it), every read-side call between any two
    # pages: the decoder then finds the target cached with another function, not yet converted, or missing
    mk = recorded_transmission.marks
    blocks = [tx[mk[i]:mk[i + 1]] for i in range(len(mk) - 1)]
    filler, tail = tx[mk[-1]:mk[-1] + 1], tx[mk[-1] + 1:]
    orders = [("reversed", list(reversed(range(len(blocks)))))]
    for k in range(len(blocks)):
        orders.append(("page %d first" % k, [k] + [i for i in range(len(blocks)) if i != k]))
        orders.append(("page %d last" % k, [i for i in range(len(blocks)) if i != k] + [k]))
    for name, order in orders:
        body = []
        for i in order:
            body += blocks[i] + filler + READS
        add("pages in another order (%s), every read-side call after every page" % name, body + tail + READS + tx + READS, repeats=1)
    # rolling pages: one page number transmitted over and over with changing subcodes (0000 between subpage numbers, clock
    # subcodes, subpage numbers 01..03 in a cycle) with and without the erase flag - the cache must settle, not keep one more copy per cycle
    def D(pk):
        return "D 0 1 %x %x %s" % (service.ID_TTX, 7, service.hx(pk))
    for erase in (ttx.C4_ERASE, 0):
        for name, subs in (("0000 / 0001", [0, 1]), ("0000 / 0001 / 0002 / 0003", [0, 1, 0, 2, 0, 3]), ("clock subcodes", [0x1200, 0x1201, 0, 0x1202]),
                           ("subpages 01..03", [1, 2, 3])):
            cyc = []
            for pg in (0x123, 0x1AB):
                for k, sub in enumerate(subs):
                    cyc += [D(ttx.header(pg, sub, erase)), D(ttx.row(1, 1, [0x41 + k] * 40)), D(ttx.row(1, 2, [0x61 + (k % 26)] * 40)),
                            D(ttx.filler_header(1))]
            add("rolling page, subcodes %s, erase flag %s" % (name, "set" if erase else "clear"),
                cyc + ["F 123 3f7f 1 19 0", "U", "Y 123"], repeats=5)
    # caption: every miscellaneous control code in every mode, before and after a roll-up command
    P = ttx.par8
    ccs = []
    for mode in (None, 0x20, 0x29, 0x25, 0x26, 0x27, 0x2A, 0x2B):
        for code in range(0x20, 0x30):
            for ch in (0x14, 0x1C):
                seq = ([(ch, mode)] if mode else []) + [(0x11, 0x4E), (ord("a"), ord("b")), (ch, code), (ord("c"), ord(" ")), (ch, 0x2D), (ch, 0x2D), (ch, 0x2F)]
                ccs += ["D 0 2 20 15 %02x%02x 40 11c %02x%02x" % (P(a), P(b), P(a | 1) if a < 0x20 else P(a), P(b)) for a, b in seq]
    add("caption control codes in every mode", ccs + ["C %d 0" % k for k in range(1, 9)] + ["W 0", "E text"], repeats=1)
    return items


# ------------------------------------------------------------------ entry points
def build_drv():
    try:
        return build.build_driver("drv_service"), True
    except build.BuildError:
        # internal audit (cache-priv.h) does not compile against this tree: API-level observations only
        return build.build_driver("drv_service_noaudit", extra=["-DNO_AUDIT"], srcs=[os.path.join(core.VERIF, "harness", "drv_service.c")]), False


def run(ctx):
    global WARMUP
    quick = ctx.tier == "quick"
    ctx.level = "exploration"
    ctx.cov["rule"] = ("cases = histories (TLC random walks x concretisation seeds, transition cover of the small model, byte mutation behaviours in the "
                       "thorough tier) executed on the real decoder under the sanitizers; distinct by driver script; non-trivial = the history feeds at "
                       "least one frame to vbi_decode and calls the read side on the result")
    ctx.assumptions += ["one thread; vbi_decode is not called from an event handler (documented restriction)",
                        "display_rows 1..25 and column/row arguments inside the fetched page (documented ranges)",
                        "clang sanitizers (ASan, UBSan, LSan) detect the fault when the history reaches it"]
    drv, audit = build_drv()
    if not audit:
        ctx.notes.append("internal_audit: unavailable (cache listing not compared)")
    sp = station_packets(drv)
    WARMUP = warmup_script(sp)
    # --- model checking of the composition and generation of the histories (TLC runs side by side)
    cfgs = ["MC_ServiceDecoder_q", "MC_ServiceDecoder_qcc", "MC_ServiceDecoder_qx", "MC_ServiceDecoder_qtx"] if quick else \
           ["MC_ServiceDecoder_t", "MC_ServiceDecoder_tcc", "MC_ServiceDecoder_tx", "MC_ServiceDecoder_ttx"]
    t0 = time.time()
    jenv = {"JAVA_TOOL_OPTIONS": "-XX:ParallelGCThreads=2"}
    REACH = ("ReachTripletLimit", "ReachTripletReject", "ReachXdsLimit", "ReachItvLimit")

    def one(cfg):
        if cfg == "MC_ServiceDecoder_prog":
            return tlc.run("MC_ServiceDecoder", cfg, timeout=300, workers=1, heap="1g", env=jenv, extra=["-continue"])
        return tlc.run("MC_ServiceDecoder", cfg, timeout=300 if quick else 1700, workers=4 if quick else 8, heap="3g" if quick else "10g",
                       coverage=not quick, env=jenv)

    def tl(job):
        kind, arg = job
        if kind == "mcs":          # model checking runs, one after the other
            return job, [(cfg, one(cfg)) for cfg in arg]
        if kind == "sim":
            return job, tlc.run("Gen_ServiceDecoder", arg, timeout=400 if quick else 1500, collect_tr=True, heap="6g", env=jenv,
                                simulate=12 if quick else 25, depth=700 if quick else 4100, seed=ctx.seed, workers=8)
        return job, tlc.run("Gen_ServiceDecoder", arg, timeout=300, collect_tr=True, heap="3g", workers=2, env=jenv,
                            sample_tr=(40, ctx.seed) if quick else (4, ctx.seed))
    jobs = [("sim", "Gen_ServiceDecoder_sim" if quick else "Gen_ServiceDecoder_simt"), ("mcs", cfgs[:2]), ("mcs", cfgs[2:] + ["MC_ServiceDecoder_prog"]),
            ("cover", "Gen_ServiceDecoder_cover")]
    sim = cov = None
    for (kind, arg), r in core.pmap(tl, jobs, workers=4 if quick else 2):
        if kind == "mcs":
            for cfg, x in r:
                ctx.add_mc(x, cfg)
                if cfg == "MC_ServiceDecoder_prog":
                    bad = set(re.findall(r"Invariant (\w+) is violated", x.out))
                    # vacuity guards: the limits must be reached in the model, i.e. exactly these invariants are violated
                    miss = [n for n in REACH if n not in bad]
                    if miss:
                        raise tlc.ToolFailure("vacuity guard: %s not violated - the model never reaches the limit its bound invariant talks about" % miss)
                    for n in sorted(bad - set(REACH)):
                        ctx.violate("mc", "mc:invariant:%s" % n, x.out[x.out.find("Invariant %s is violated" % n):][:3000])
                elif x.violation:
                    ctx.violate("mc", "mc:%s:%s" % (x.violation["kind"], x.violation["name"]), x.violation["text"][:3000])
        elif kind == "sim":
            sim = r
            ctx.add_mc(r, "GEN simulate")
        else:
            cov = r
            ctx.add_mc(r, "GEN transition cover (small model)")
    ctx.notes.append("random walks: %d, transition cover histories printed %d, replayed %d; TLC phase %.0f s" % (len(sim.tr), cov.n_tr, len(cov.tr), time.time() - t0))
    if not sim.tr:
        raise tlc.ToolFailure("no random walk was generated:\n" + sim.out[-1500:])
    items = make_items(ctx, sim.tr, sp, seeds=(1, 2, 3) if quick else (1, 2, 3, 4), label="walk", audit=audit)
    items += make_items(ctx, cov.tr, sp, seeds=(1,), label="cover", audit=audit, repeats=0)
    items += directed_items(sp)
    execute(ctx, drv, items, timeout=900 if quick else 2400)
    walks = [it for it in items if "beh" in it and it.get("label", "").startswith("walk") and "out" in it]
    for it in walks[:1] + walks[len(walks) // 2:len(walks) // 2 + 1] + walks[-1:]:
        ctx.sample(sample_of(it))
    # --- byte-level mutation pass over a recorded valid transmission
    if not quick:
        vals = [("xor", 1 << b) for b in range(8)] + [("abs", 0x00), ("abs", 0xFF), ("abs", 0x15), ("abs", 0xEA), ("abs", 0x7F), ("abs", 0x80)]
        mit = mutation_items(ctx, sp, vals)
        ctx.notes.append("mutation pass: %d packets, %d values per byte position" % (len(mit), len(vals)))
        execute(ctx, drv, mit, timeout=3000)
    ctx.cov["exhaustive"] = False
    apply_proposed_known(ctx)


def apply_proposed_known(ctx):
    """findings proposed in doc/notes-C01.md that are not yet in known-findings.json"""
    have = {f.get("id") for f in core.load_findings()}
    keep = []
    shown = set()
    for v in ctx.violations:
        hit = None
        for f in PROPOSED_KNOWN:
            if f["id"] in have:
                continue
            if ("key" in f and f["key"] == v.key) or ("key_regex" in f and re.search(f["key_regex"], v.key)):
                hit = f
        if hit:
            if hit["id"] not in shown:
                shown.add(hit["id"])
                print("KNOWN-FINDING: property=C01 %s" % hit["what"])
        else:
            keep.append(v)
    ctx.violations = keep


def replay(ctx, rp):
    global WARMUP
    drv, audit = build_drv()
    sp = station_packets(drv)
    WARMUP = warmup_script(sp)
    r = rp["replay"]
    it = dict(script=r["script"], checks=[tuple(c) for c in r.get("checks", [])], label=r.get("label", "replay"))
    if r.get("twice"):
        confirm_undeleted(ctx, drv, it)
        return
    for x in run_items(drv, [it], timeout=900):
        ok = judge(ctx, x)
        if ok and x.get("undeleted"):
            confirm_undeleted(ctx, drv, x)
    o = it.get("out", [])
    print("replayed %d commands, %d answers%s" % (len(r["script"]), len(o), " (process died)" if it.get("died") else ""))
