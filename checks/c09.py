"""C09 - XDS packets are delivered intact, exactly once, and only with a valid checksum.
spec/Xds.tla: receiver shaped like vbi_xds_demux_feed()/xds_separator() (count, buffer indices, guard)
              + reference (what the transmitter sent) + programme-information layer.
MC:   Delivered (out = ref), InBounds, NoCross, LengthOK, InfoOK, EvOK on all pair sequences (small L).
GEN:  every pair sequence (real L = 32) ending in a distinct model state -> REPLAY on both routes:
      vbi_xds_demux_feed() callback log, and vbi_decode() line 284 -> programme description + PROG_INFO.
TV:   long seeded transmissions (lengths around 31..34, odd splits, interleaving, faults) executed by the
      real code, log validated by Trace_Xds with every invariant evaluated in every state."""
import json, os, random
from vlib import tlc, build, core

MANIFEST = dict(
    level="model_checking",
    engine="tlc-mc+replay+tv",
    technique="TLA+ spec Xds (receiver as coded + transmitter-side reference + info layer) checked exhaustively by TLC; "
              "all generated pair sequences replayed on vbi_xds_demux_feed and on vbi_decode (line 284); long recorded "
              "executions of both validated against the spec by TLC trace validation under ASan/UBSan",
    text="TLC checks on every sequence of start/continue/data/half-pair/end(good,bad)/caption/null/parity-error pairs for up to 3 "
         "interleaved packets that the delivered sequence equals the sequence of packets sent intact, that no buffer index leaves "
         "the packet buffer, that packets never mix, and that the programme information equals the last delivered content and is "
         "announced only on a repeated identical reception. Every generated sequence is replayed on the real demultiplexer and the "
         "real service decoder and compared after every pair; seeded long transmissions (lengths 1..40 incl. 31-34, odd splits, "
         "interleaving, faults) are recorded from the real code and validated step by step by TLC (Trace_Xds, L = 32).",
    note="Bounded: MC with buffer limit L=3/4 and <= 8 pairs; generation with the real L=32 and <= 7 pairs, 2 payload byte values; "
         "the real-size lengths are reached by the recorded long runs (sampled). Keys are EIA-608 programme description packets "
         "(current/future class) because their text is observable through the public programme info; other packet types share the same code path. "
         "A parity error is attributed to the packet in progress (both implementations discard it).",
)

CLS3 = [0, 0, 1]
TYP3 = [16, 17, 16]


def par(b):
    return b | (0x80 if bin(b).count("1") % 2 == 0 else 0)


def concretise(act, rnd, cls, typ):
    a = act["a"]
    if a == "Start":
        k = act["k"] - 1
        return par(2 * cls[k] + 1), par(typ[k])
    if a == "Cont":
        k = act["k"] - 1
        return par(2 * cls[k] + 2), par(typ[k])
    if a == "Data":
        return par(act["b1"]), par(act["b2"])
    if a == "End":
        return par(0x0F), par(act["c"])
    if a == "Caption":
        return par(0x10 + rnd.randrange(16)), par(0x20 + rnd.randrange(0x60))
    if a == "Null":
        return 0x80, 0x80
    if a == "Error":
        b1, b2 = par(act["b1"]), par(act["b2"])
        v = rnd.randrange(3)
        if v == 0 or act["b2"] == 0 and v == 2:
            return b1 ^ 0x80, b2
        if v == 1:
            return b1, b2 ^ 0x80
        return b1 ^ 0x80, b2 ^ 0x80
    raise ValueError(a)


def run_route(drv, mode, seqs):
    """seqs: list of list of (b0,b1) -> per sequence dict(lines, crashed, stderr, rc)"""
    return core.run_seq_driver([drv, mode], [["F %02x %02x" % p for p in s] for s in seqs], env=build.san_env())


def san_of(ctx, r, rp):
    if r["stderr"]:
        return core.report_sanitizers(ctx, r["stderr"], replay=rp, in_scope=True)
    return 0


def project(mode, o, cls, typ):
    """driver output line -> the spec's vocabulary (keys)"""
    keyof = {(cls[i], typ[i]): i + 1 for i in range(len(cls))}
    if mode == "demux":
        d = []
        for c, t, b in o["d"]:
            d.append([keyof.get((c, t), 99), b])
        return dict(d=d)
    info = [[] for _ in cls]
    extra = []
    for c, ln, b in o["info"]:
        k = keyof.get((c, 16 + ln))
        if k:
            info[k - 1] = b
        else:
            extra.append([c, ln, b])
    r = dict(info=info, evs=o["evs"])
    if extra:
        r["extra"] = extra
    return r


def compare(mode, b, got, cls, typ, rc=0):
    if len(got) != len(b):
        return (len(got), "driver stopped (rc=%s)" % rc)
    for n, (st, o) in enumerate(zip(b, got)):
        p = project(mode, o, cls, typ)
        if mode == "demux":
            exp = dict(d=[[x[0], list(x[1])] for x in st["d"]])
        else:
            exp = dict(info=[list(x) for x in st["info"]], evs=list(st["evs"]))
        if p != exp:
            return (n, "spec predicts %s, real code shows %s" % (exp, p))
    return None


def replay_gen(ctx, drv, behs, cls, typ, label):
    rnd = random.Random(ctx.seed)
    seqs = [[concretise(st["act"], rnd, cls, typ) for st in b] for b in behs]
    for mode in ("demux", "decode"):
        chunks = [list(range(i, len(behs), 16)) for i in range(16)]

        def job(idx):
            return (idx, run_route(drv, mode, [seqs[i] for i in idx])) if idx else (idx, [])
        for idx, res in core.pmap(job, chunks):
            for j, i in enumerate(idx):
                b, r = behs[i], res[j]
                rp = dict(mode=mode, pairs=seqs[i], beh=b, cls=cls, typ=typ)
                if r.get("skipped"):
                    ctx.cov["exhaustive_replay"] = False
                    continue
                ctx.count_case([mode, [st["act"] for st in b]], nontrivial=any(st["d"] for st in b))
                nsan = san_of(ctx, r, rp)
                bad = compare(mode, b, r["lines"], cls, typ, r["rc"])
                if bad is None:
                    ctx.validated()
                elif not (r["crashed"] and nsan):
                    n, why = bad
                    acts = [st["act"] for st in b]
                    kind = acts[n]["a"] if n < len(acts) else "crash"
                    ctx.violate("replay", "diverge:%s:%s" % (mode, kind), "step %d of %s: %s" % (n + 1, acts, why), rp)
    if behs:
        ctx.sample(dict(source=label, actions=[st["act"] for st in behs[len(behs) // 2]],
                        pairs=["%02x %02x" % p for p in seqs[len(behs) // 2]],
                        expected_deliveries=[st["d"] for st in behs[len(behs) // 2]]))


# ---------------------------------------------------------------------- long random transmissions
def transmit(rnd, nk, n_pairs):
    """An (honest or faulty) transmitter: returns abstract actions.  Only encoding knowledge here
    (checksum = two's complement of the byte sum mod 128)."""
    acts = []
    pk = {}            # key -> dict(sum, todo bytes)
    cur = None
    lens = [1, 2, 3, 4, 5, 15, 16, 29, 30, 31, 32, 32, 32, 31, 33, 34, 35, 40]
    while len(acts) < n_pairs:
        r = rnd.random()
        if cur is None or r < 0.06:
            k = rnd.randrange(1, nk + 1)
            if k in pk and rnd.random() < 0.7:
                acts.append(dict(a="Cont", k=k)); cur = k
            elif rnd.random() < 0.05:
                acts.append(dict(a="Cont", k=k)); cur = k if k in pk else None      # missing start
            else:
                n = rnd.choice(lens)
                pk[k] = dict(sum=2 * CLS3[k - 1] + 1 + TYP3[k - 1], todo=[rnd.choice([0x40, 0x40, 0x41, 0x62, 0x7F, 0x21, 0x30]) for _ in range(n)])
                acts.append(dict(a="Start", k=k)); cur = k
        elif r < 0.12:
            acts.append(dict(a="Caption")); cur = None
        elif r < 0.16:
            acts.append(dict(a="Null"))
        else:
            p = pk.get(cur)
            if p is None:
                acts.append(dict(a="Data", b1=0x41, b2=0x42))
                continue
            if p["todo"]:
                b1 = p["todo"].pop(0)
                if p["todo"] and rnd.random() > 0.08:
                    b2 = p["todo"].pop(0)
                else:
                    b2 = 0                      # half pair (also in the middle of a packet)
                p["sum"] += b1 + b2
                if rnd.random() < 0.02:
                    # the pair is damaged on the way; the transmitter does not know and carries on,
                    # sometimes with a continue pair (as after an interruption)
                    acts.append(dict(a="Error", b1=b1, b2=b2))
                    if rnd.random() < 0.6:
                        acts.append(dict(a="Cont", k=cur))
                else:
                    acts.append(dict(a="Data", b1=b1, b2=b2))
            else:
                c = (-(p["sum"] + 0x0F)) % 128
                if rnd.random() < 0.08:
                    c = (c + 1 + rnd.randrange(126)) % 128
                acts.append(dict(a="End", c=c))
                pk.pop(cur, None); cur = None
    return acts


def tv_pass(ctx, drv, nseq, npairs):
    rnd = random.Random(ctx.seed * 7919 + 1)
    seqs_a = [transmit(rnd, 3, npairs) for _ in range(nseq)]
    seqs_p = [[concretise(a, rnd, CLS3, TYP3) for a in s] for s in seqs_a]
    for mode in ("demux", "decode"):
        res = run_route(drv, mode, seqs_p)
        path = os.path.join(ctx.scratch, "xds-%s.ndjson" % mode)
        nlines = 0
        index = []
        with open(path, "w") as f:
            for si, (sa, r) in enumerate(zip(seqs_a, res)):
                got = r["lines"]
                san_of(ctx, r, dict(mode=mode, pairs=seqs_p[si], acts=sa, cls=CLS3, typ=TYP3))
                if r["crashed"] and not core.sanitizer_reports(r["stderr"]):
                    raise tlc.ToolFailure("xds driver died without a sanitizer report (rc=%s): %s" % (r["rc"], r["stderr"][-1500:]))
                f.write(json.dumps(dict(a="Reset")) + "\n"); nlines += 1
                for n, a in enumerate(sa):
                    if n >= len(got):
                        break
                    o = dict(a)
                    o.update(project(mode, got[n], CLS3, TYP3))
                    f.write(json.dumps(o) + "\n"); nlines += 1
                    index.append((si, n))
        ok, r = tlc.validate_trace("Trace_Xds", "Trace_Xds", path, timeout=900, heap="6g")
        ctx.add_mc(r, "TV " + mode)
        ctx.cov["evaluations"] += nseq
        if ok:
            ctx.validated(nseq)
            for s in seqs_a:
                ctx.count_case([mode, s], nontrivial=True)
        else:
            at = r.reject_at
            if at is None and r.violation:
                m = __import__("re").search(r"l = (\d+)", r.violation.get("text", "")[::-1][::-1])
                allm = __import__("re").findall(r"/\\ l = (\d+)", r.violation.get("text", ""))
                at = int(allm[-1]) - 1 if allm else None
            ctxt = ""
            key = "tv:%s:%s" % (mode, r.violation["name"] if r.violation else "rejected")
            rp = dict(mode=mode)
            if at and 1 <= at <= len(index) + nseq:
                lines = open(path).read().split("\n")
                # find the sequence the rejected line belongs to
                start = max(i for i in range(at) if '"Reset"' in lines[i])
                rp.update(log=lines[start:at], cls=CLS3, typ=TYP3)
                ev = json.loads(lines[at - 1])
                key = "tv:%s:%s" % (mode, ev.get("a"))
                ctxt = "log line %d rejected: %s" % (at, lines[at - 1])
            ctx.violate("tv", key, ctxt + "\n" + (r.violation or {}).get("text", "")[:1500], rp)
    ctx.sample(dict(source="recorded long transmission (first 12 actions)", actions=seqs_a[0][:12]))


def run(ctx):
    quick = ctx.tier == "quick"
    ctx.cov["rule"] = ("cases = (route, pair sequence): all generated sequences of the bounded model (real L) replayed on both routes, plus "
                       "recorded long transmissions validated by TLC; distinct by (route, action sequence); non-trivial = at least one packet is delivered "
                       "(generated) / every long transmission")
    ctx.assumptions += ["a pair with a parity error is attributed to the packet in progress",
                        "keys are programme description packets of the current/future class (observable through vbi_program_info)"]
    drv = build.build_driver("drv_xds")
    for cfg, hp in ([("MC_Xds_q", "6g")] if quick else [("MC_Xds_q", "6g"), ("MC_Xds_t", "16g")]):
        r = tlc.run("MC_Xds", cfg, timeout=1500, coverage=not quick, heap=hp)
        ctx.add_mc(r, cfg)
        if r.violation:
            ctx.violate("mc", "mc:%s:%s" % (r.violation["kind"], r.violation["name"]), r.violation["text"])
    sets = [("Gen_Xds_q", [0, 0], [16, 17])] if quick else [("Gen_Xds_q", [0, 0], [16, 17]), ("Gen_Xds_t", CLS3, TYP3)]
    for cfg, cls, typ in sets:
        # Gen_Xds_t prints 5.1 M behaviours: every 4th is replayed (seeded offset), TLC has checked all of them
        r = tlc.run("Gen_Xds", cfg, timeout=2400, collect_tr=True, heap="12g", sample_tr=(4, ctx.seed) if cfg == "Gen_Xds_t" else None)
        if r.violation:
            raise tlc.ToolFailure("GEN run reported " + str(r.violation))
        ctx.add_mc(r, "GEN " + cfg)
        replay_gen(ctx, drv, r.tr, cls, typ, cfg)
    tv_pass(ctx, drv, 60 if quick else 1500, 250 if quick else 400)
    ctx.cov["exhaustive"] = True


def replay(ctx, rp):
    drv = build.build_driver("drv_xds")
    r = rp["replay"] or {}
    mode = r.get("mode", "demux")
    if "pairs" in r:
        res = run_route(drv, mode, [[tuple(p) for p in r["pairs"]]])[0]
        san_of(ctx, res, r)
        if "beh" in r:
            for st, o in zip(r["beh"], res["lines"]):
                print(st["act"], "->", project(mode, o, r["cls"], r["typ"]))
            bad = compare(mode, r["beh"], res["lines"], r["cls"], r["typ"], res["rc"])
            if bad and not ctx.violations:
                ctx.violate("replay", rp["key"], "step %d: %s" % (bad[0] + 1, bad[1]), r)
    elif "log" in r:
        path = os.path.join(ctx.scratch, "replay.ndjson")
        open(path, "w").write("\n".join(r["log"]) + "\n")
        ok, res = tlc.validate_trace("Trace_Xds", "Trace_Xds", path)
        if not ok:
            ctx.violate("tv", rp["key"], "recorded log rejected again at line %s" % res.reject_at, r)
