"""C11 - event handlers run exactly once, in order, and may re-register from callbacks.
spec/TtxEvents.tla: the handler list, the delivery cursor with its repair on removal, both API generations,
  registration calls made from inside running callbacks, the enabled-service mask.
MC:  NoDangling, OnceInOrder, AllCalled, OnlyRegistered, Acquire, ListOK on all histories; Terminates (liveness).
GEN: every path of the bounded model ending with all top-level calls made.
REPLAY: harness/drv_events.c performs the calls (nested ones from inside the k-th callback), raises events with
  vbi_send_event and through real Teletext decoding; callback log (function, user pointer, order), enabled mask,
  list length and page acquisition compared after every top-level step, under ASan (freed records)."""
import json, os, random
from vlib import tlc, build, core

MANIFEST = dict(
    level="model_checking",
    engine="tlc-mc+replay",
    technique="TLA+ spec TtxEvents (linked list + delivery cursor, nested registration calls) checked exhaustively by TLC incl. liveness; "
              "every generated API history replayed on the real decoder (vbi_event_handler_register/add, vbi_send_event, real page transmissions) "
              "under ASan and compared step by step",
    text="TLC explores every history of <= 4 top-level register/unregister/add/remove calls and raises over 2-3 handler functions x 2 user "
         "pointers x masks over 2 event types (incl. 0), with up to 2 registration calls made from inside running callbacks at every possible "
         "invocation, and checks: the delivery cursor never points to a freed record, no handler is called twice for an event, calls follow "
         "registration order, every handler registered for the type at the raise and not removed before its turn is called, nothing else is "
         "called, the enabled-service mask is the union of the registered masks; every delivery terminates. Every path is replayed on the real "
         "library; after each top-level step a fresh Teletext page is transmitted: it must be cached and announced (in order, own user "
         "pointer) iff a handler requests Teletext page events.",
    note="Bounded: 2-3 functions, 2 user pointers, 2 event types, <= 4 top-level calls, <= 2 nested calls per delivery. Nested vbi_send_event "
         "from a callback is outside the statement (the event mutex is not recursive). The model's second event type stands for 'a type "
         "other than TTX_PAGE'; the replay puts each of the nine other real event types (NETWORK, TRIGGER, CAPTION, ASPECT, PROG_INFO, "
         "NETWORK_ID, LOCAL_TIME, PROG_ID, CLOSE) in its place in turn.",
)

BIT = dict(ttx=1, net=2, cap=4)
# The abstract event type "net" of TtxEvents stands for "an event type other than TTX_PAGE": every behaviour is replayed with one
# of the real types below in its place (driver command M), taken in turn, so that the clause "Teletext pages are acquired exactly
# while a handler requests TTX_PAGE events" is decided against every other event type a handler can request.
OTHER_TYPES = [0x0008, 0x0010, 0x0004, 0x0040, 0x0080, 0x0100, 0x0400, 0x0800, 0x0001]   # NETWORK TRIGGER CAPTION ASPECT PROG_INFO NETWORK_ID LOCAL_TIME PROG_ID CLOSE


def mbits(m):
    return sum(BIT[k] for k, v in m.items() if v)


def compile_beh(beh, other=0x0008):
    """behaviour -> (driver lines, expectations per output line); other: real event type standing for "net" """
    lines, exp = (["M %x" % other] if other != 0x0008 else []), []
    pg = [0x101]
    across = any(st["act"]["a"] in ("TxHeader", "TxEnd") for st in beh)

    def probe(st):
        if across:          # the page of magazine 2 that runs across the calls is the acquisition probe of this behaviour
            return
        lines.append("T %x" % pg[0])
        exp.append(dict(calls=[list(x) for x in st["ttxh"]], em=mbits(st["em"]), n=st["n"], cached=1 if st["em"]["ttx"] else 0))
        pg[0] += 1
        if pg[0] & 0xF > 9:
            pg[0] += 6
    i = 0
    while i < len(beh):
        st = beh[i]
        a = st["act"]
        if a["a"] in ("Register", "Add"):
            lines.append("O %s %d %d %d" % ("reg" if a["a"] == "Register" else "add", a["fn"], a["ud"], mbits(a["mask"])))
            exp.append(dict(calls=[], em=mbits(st["em"]), n=st["n"]))
            probe(st)
            i += 1
        elif a["a"] == "TxHeader":
            lines.append("H 234")
            exp.append(dict(calls=[], em=mbits(st["em"]), n=st["n"]))
            i += 1
        elif a["a"] == "TxEnd":
            lines.append("E 234")
            exp.append(dict(calls=[list(x) for x in st["ttxh"]] if a["stored"] else [], em=mbits(st["em"]), n=st["n"], cached=1 if a["stored"] else 0))
            i += 1
        elif a["a"] == "Raise":
            calls, k = [], 0
            j = i + 1
            last = st
            while j < len(beh):
                b = beh[j]["act"]
                last = beh[j]
                if b["a"] == "Call":
                    k += 1
                    calls.append([b["fn"], b["ud"]])
                elif b["a"] in ("Register", "Add"):
                    lines.append("C %d %s %d %d %d" % (k, "reg" if b["a"] == "Register" else "add", b["fn"], b["ud"], mbits(b["mask"])))
                elif b["a"] == "End":
                    break
                j += 1
            lines.append("X %d" % BIT[a["t"]])
            exp.append(dict(calls=calls, em=mbits(last["em"]), n=last["n"]))
            probe(last)
            i = j + 1
        else:
            i += 1
    return lines, exp


def run_set(ctx, drv, behs, label):
    comp = [compile_beh(b, OTHER_TYPES[i % len(OTHER_TYPES)]) for i, b in enumerate(behs)]
    chunks = [list(range(k, len(behs), 16)) for k in range(16)]

    def job(idx):
        return (idx, core.run_seq_driver([drv], [comp[i][0] for i in idx], env=build.san_env())) if idx else (idx, [])
    for idx, res in core.pmap(job, chunks):
        for j, i in enumerate(idx):
            r = res[j]
            lines, exp = comp[i]
            rp = dict(script=lines, expected=exp)
            if r.get("skipped"):
                continue
            nested = any(l.startswith("C ") for l in lines)
            ctx.count_case(lines, nontrivial=nested)
            nsan = core.report_sanitizers(ctx, r["stderr"], replay=rp, in_scope=True) if r["stderr"] else 0
            got = r["lines"]
            bad = None
            for n, e in enumerate(exp):
                if n >= len(got):
                    bad = (n, "driver stopped (rc=%s)" % r["rc"]); break
                g = {k: got[n].get(k) for k in e}
                if g != e:
                    bad = (n, "spec predicts %s, real code shows %s" % (e, g)); break
            if bad is None:
                ctx.validated()
            elif not (r["crashed"] and nsan):
                outl = [l for l in lines if not l.startswith(("C ", "M "))]
                what = outl[bad[0]].split()[0] if bad[0] < len(outl) else "?"
                e = exp[bad[0]] if bad[0] < len(exp) else {}
                g = got[bad[0]] if bad[0] < len(got) else {}
                field = next((k for k in e if g.get(k) != e[k]), "crash")
                ctx.violate("replay", "diverge:%s:%s" % ({"O": "register", "X": "raise", "T": "transmit"}.get(what, what), field),
                            "output line %d of %s: %s" % (bad[0] + 1, lines, bad[1]), rp)
    if behs:
        m = len(behs) // 2
        ctx.sample(dict(source=label, script=comp[m][0], expected=comp[m][1]))


def run(ctx):
    quick = ctx.tier == "quick"
    ctx.cov["rule"] = ("cases = API histories (paths of the bounded TtxEvents model) replayed on the real decoder; distinct by driver script; "
                       "non-trivial = at least one registration call is made from inside a running callback")
    ctx.assumptions += ["callbacks do not raise events themselves (vbi_send_event is not re-entered from a handler)"]
    drv = build.build_driver("drv_events")
    # MC_TtxEvents_acq: a page transmission running across registration calls (AcquireExact: stored iff requested without a gap)
    for cfg, to in ([("MC_TtxEvents_q", 600), ("MC_TtxEvents_live", 600), ("MC_TtxEvents_acq", 600)] if quick else
                    [("MC_TtxEvents_t", 1500), ("MC_TtxEvents_live", 900), ("MC_TtxEvents_acq", 900)]):
        r = tlc.run("MC_TtxEvents", cfg, timeout=to, coverage=not quick, heap="16g")
        ctx.add_mc(r, cfg)
        if r.violation:
            ctx.violate("mc", "mc:%s:%s" % (r.violation["kind"], r.violation["name"]), r.violation["text"][:3000])
    # the generator enumerates ALL paths of its bounded model (no VIEW): thorough uses four medium models (three handler
    # functions / four top-level calls / two nested calls / two user data values) and replays a seeded sample of the largest ones
    SAMPLE = {"Gen_TtxEvents_t2": 8, "Gen_TtxEvents_t3": 16, "Gen_TtxEvents_t4": 4}
    for cfg in (["Gen_TtxEvents_q", "Gen_TtxEvents_acq"] if quick else
                ["Gen_TtxEvents_q", "Gen_TtxEvents_t", "Gen_TtxEvents_t2", "Gen_TtxEvents_t3", "Gen_TtxEvents_t4", "Gen_TtxEvents_acq"]):
        g = tlc.run("Gen_TtxEvents", cfg, timeout=2400, collect_tr=True, heap="12g",
                    sample_tr=(8, ctx.seed) if (quick and cfg.endswith("_acq")) else ((SAMPLE[cfg], ctx.seed) if cfg in SAMPLE else None))
        if g.violation:
            raise tlc.ToolFailure("GEN run reported " + str(g.violation))
        ctx.add_mc(g, "GEN " + cfg)
        run_set(ctx, drv, g.tr, cfg)
    ctx.cov["exhaustive"] = True


def replay(ctx, rp):
    drv = build.build_driver("drv_events")
    r = rp["replay"]
    res = core.run_seq_driver([drv], [r["script"]], env=build.san_env())[0]
    if res["stderr"]:
        core.report_sanitizers(ctx, res["stderr"], replay=r, in_scope=True)
    for n, e in enumerate(r["expected"]):
        g = {k: res["lines"][n].get(k) for k in e} if n < len(res["lines"]) else None
        print(e, "<-spec | real->", g)
        if g != e and not ctx.violations:
            ctx.violate("replay", rp["key"], "output line %d: spec %s real %s" % (n + 1, e, g), r)
