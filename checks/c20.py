"""C20 - documented cross-thread use of the service decoder and of the raw decoder is race-free.
spec/Locks.tla: every C function that takes part (vbi_decode, vbi_decode_caption, caption_send_event, vbi_send_event,
  vbi_chsw_reset, vbi_caption_channel_switched, vbi_fetch_cc_page, vbi_channel_switched, store_lop's countdown use,
  vbi_raw_decode / _add_services / _remove_services / _check_services / _resize) as a sequence of lock / unlock / read /
  write / callback instructions; 2-4 threads, all interleavings.
MC:   LocksetOK, NoRace, CallbackUnlocked, NoSelfLock, SnapshotAtomic, ConsistentSet, ContextOK + TLC deadlock check on the code as it is;
      the same properties are shown to FAIL on the code as found (D11), on the naive repair and on a mutant (self test of the model).
TV:   harness/drv_locks.c runs the real library with 2-4 threads on long seeded streams; mutex operations (linker --wrap) and
      VERIF_REGION markers share one atomic sequence number; Trace_Locks validates the log: lockset discipline, callbacks
      without cc.mutex, no thread locks a mutex it owns, every fetched page = the content the decoding thread exposed at its
      latest release of cc.mutex, chswcd transitions incl. the dropped-frame branch, a switch request is served by the next
      regular frame, every frame passes its countdown section, every API call returns with nothing locked (all exit paths:
      resize with the same / an empty geometry, add with nothing new, remove of an absent service, reset), service set
      transitions and every raw decode = services at its critical section.  The sequence of exposed page contents is compared with a single-threaded run of the same stream.
TSan: the same runs on the ThreadSanitizer build (tracer compiled out)."""
import json, os, random, re, subprocess, time
from vlib import tlc, build, core, ttx

MANIFEST = dict(
    level="model_checking",
    engine="tlc-mc+trace-validation",
    technique="TLA+ spec Locks (the library's locking code as instruction sequences per C function, 2-4 threads) checked exhaustively "
              "by TLC over all interleavings; executions of the real library with 2-4 threads are recorded (mutex operations via linker "
              "--wrap, shared-region markers, one global sequence number) and validated by TLC against Trace_Locks; the same runs "
              "under ThreadSanitizer as an independent monitor",
    text="TLC explores every interleaving of a decoding thread (caption text, null pairs, XDS network change, Teletext headers), "
         "one or two threads calling vbi_fetch_cc_page, a thread calling vbi_channel_switched and event handlers that fetch pages, "
         "and of vbi_raw_decode with threads adding, removing and checking services: every access to the caption pages, the switch "
         "countdown and the job table happens under the region's mutex, no two conflicting accesses are enabled together, callbacks "
         "run without cc.mutex, nobody waits for a mutex it owns, no deadlock, every fetched page is a content the decoding thread "
         "exposed, every raw decode sees one service set. The real library runs long seeded streams with 2-4 threads; TLC validates "
         "each recorded log against the same properties and the exposed page contents are compared with the single-threaded run of "
         "the same stream; ThreadSanitizer watches the same runs.",
    note="Bounded: MC with <= 4 threads and <= 6 API calls per thread, one caption channel of two halves; real runs are sampled "
         "schedules (seeded streams, random yields). Only the usage named by the property is driven: fetch + channel switch against "
         "vbi_decode, add/remove/check against vbi_raw_decode; vbi_raw_decoder_resize, brightness/contrast and handler "
         "registration from other threads are outside (MC_Locks_resize.cfg documents the unlocked geometry read). The page hash covers "
         "the text cells, not the dirty fields (a fetch resets them).",
)

WRAP = ["-Wl,--wrap=pthread_mutex_lock,--wrap=pthread_mutex_unlock,--wrap=pthread_mutex_trylock"]


# ------------------------------------------------------------------ transmitter side: byte streams for the decoding thread
def par(b):
    b &= 0x7F
    return b | (0x80 if bin(b).count("1") % 2 == 0 else 0)


def xds_packet(cls_start, typ, payload):
    """EIA-608 XDS packet on field 2: start pair, data pairs, end pair with checksum"""
    b = [cls_start, typ] + list(payload)
    if len(b) % 2:
        b.append(0)
    s = sum(b) + 0x0F
    chk = (-s) % 128
    pairs = [(b[i], b[i + 1]) for i in range(0, len(b), 2)] + [(0x0F, chk)]
    return ["P 284 %02x %02x" % (par(a), par(c) if (c or a == 0x0F) else 0x80) for a, c in pairs]


def caption_stream(rnd, nframes):
    """frames for vbi_decode: caption commands and text on CC1..CC4, XDS network names / aspect ratio, Teletext headers"""
    out = []
    names = ["KQED", "WNET", "KCTS", "WGBH"]
    cur = 0
    mode = {}

    def ctrl(chan, c2, rep=True):
        f = 1 if chan <= 2 else 2
        c1 = 0x14 | (8 if chan in (2, 4) else 0) | (1 if f == 2 else 0)
        ln = 21 if f == 1 else 284
        l = "P %d %02x %02x" % (ln, par(c1), par(c2))
        return [l, l] if (f == 1 and rep) else [l]

    def pac(chan, row_hi, c2):
        f = 1 if chan <= 2 else 2
        ln = 21 if f == 1 else 284
        l = "P %d %02x %02x" % (ln, par(0x10 | (8 if chan in (2, 4) else 0) | row_hi), par(c2))
        return [l, l] if f == 1 else [l]

    def text(chan, s):
        f = 1 if chan <= 2 else 2
        ln = 21 if f == 1 else 284
        if len(s) % 2:
            s += " "
        return ["P %d %02x %02x" % (ln, par(ord(s[i])), par(ord(s[i + 1]))) for i in range(0, len(s), 2)]

    words = ["THE ", "QUICK ", "BROWN ", "FOX ", "JUMPS ", "OVER ", "A ", "LAZY ", "DOG ", ">> ", "NEWS ", "AT ", "TEN "]
    while len(out) < nframes:
        r = rnd.random()
        chan = rnd.choice([1, 1, 1, 2, 3, 3, 4])
        if r < 0.30:                                   # roll-up caption line
            out += ctrl(chan, rnd.choice([0x25, 0x26, 0x27]))
            out += pac(chan, rnd.choice([4, 3]), rnd.choice([0x60, 0x40, 0x70]))
            out += text(chan, "".join(rnd.choice(words) for _ in range(rnd.randint(2, 5))))
            out += ctrl(chan, 0x2D)
        elif r < 0.55:                                 # pop-on caption
            out += ctrl(chan, 0x20)
            out += ctrl(chan, 0x2E)
            for _ in range(rnd.randint(1, 2)):
                out += pac(chan, rnd.choice([1, 2, 5, 6, 7]), rnd.choice([0x40, 0x60, 0x50, 0x72]))
                out += text(chan, "".join(rnd.choice(words) for _ in range(rnd.randint(1, 4))))
            out += ctrl(chan, 0x2F)
        elif r < 0.65:                                 # paint-on
            out += ctrl(chan, 0x29)
            out += pac(chan, rnd.choice([1, 2, 7]), 0x40)
            out += text(chan, "".join(rnd.choice(words) for _ in range(rnd.randint(1, 3))))
        elif r < 0.72:
            out += ctrl(chan, rnd.choice([0x2C, 0x2E, 0x21, 0x24]))
        elif r < 0.80:                                 # XDS network name (twice: announced on the repetition), sometimes a new one
            if rnd.random() < 0.6:
                cur = (cur + 1) % len(names)
            for _ in range(2):
                out += xds_packet(0x05, 0x01, [ord(c) for c in names[cur]])
        elif r < 0.86:                                 # XDS aspect ratio of the current programme
            out += xds_packet(0x01, 0x09, [0x40 | rnd.randint(0, 20), 0x40 | rnd.randint(0, 20)] + ([0x41] if rnd.random() < 0.5 else []))
        elif r < 0.93:                                 # Teletext page headers (a page is closed by the next header of its magazine)
            for _ in range(rnd.randint(2, 4)):
                pg = rnd.choice([0x100, 0x101, 0x102, 0x1FF])
                txt = None if rnd.random() < 0.8 else "".join(rnd.choice("ABCDEFGH 0123") for _ in range(32))
                out.append("X " + ttx.hexpk(ttx.header(pg, 0, ttx.C4_ERASE, text=txt)))
        else:
            out += ["P 21 80 80"] * rnd.randint(1, 4) + ["E"] * rnd.randint(0, 2)
    return with_gaps(rnd, out[:nframes])


GAPS = [100100, 1001000, 66734, 10000, 0, -50000]     # time steps outside 25..50 ms (dropped frames, repeated or late stamps)


def with_gaps(rnd, frames):
    """time stamps: mostly regular (33.4 / 40 ms), now and then a burst of 1-3 frames out of step (a "T <us>" line before the frame)"""
    out, burst = [], 0
    for i, f in enumerate(frames):
        if burst == 0 and i > 3 and rnd.random() < 1 / 45.0:
            burst = rnd.randint(1, 3)
        if burst:
            out.append("T %d" % rnd.choice(GAPS)); burst -= 1
        elif rnd.random() < 0.1:
            out.append("T 40000")
        out.append(f)
    return out


# ------------------------------------------------------------------ run plans
def cc_script(seed, nframes, nfetch, nswitch, hfetch, nswreq, frames, mode="cc", inject=None, yield_pct=6):
    head = ["M " + mode, "S %d" % seed, "Y %d" % yield_pct, "N %d %d %d %d" % (nfetch, nswitch, 1 if hfetch else 0, nswreq)]
    if inject:
        head.append("J " + " ".join(str(j) for j in sorted(set(inject))))
    return head + frames


def rd_script(seed, nmod, ncheck, ndec, nops, yield_pct=6):
    return ["M rd", "S %d" % seed, "Y %d" % yield_pct, "N %d %d %d %d" % (nmod, ncheck, ndec, nops)]


def plans(ctx):
    quick = ctx.tier == "quick"
    rnd = random.Random(ctx.seed * 7919 + 20)
    out = []
    # (nfetch, nswitch, handler fetches): 2-4 threads
    shapes = [(1, 0, True), (1, 1, True), (2, 1, True), (2, 1, False), (1, 1, False), (2, 0, True)]
    n_cc = 8 if quick else 72
    for k in range(n_cc):
        nf, ns, hf = shapes[k % len(shapes)]
        nfr = rnd.choice([600, 1000, 1500]) if quick else rnd.choice([1000, 2500, 5000])
        sd = rnd.randrange(1, 1 << 30)
        out.append(dict(kind="cc", seed=sd, threads=1 + nf + ns, cfg=(nf, ns, hf), nframes=nfr,
                        script=cc_script(sd, nfr, nf, ns, hf, max(3, nfr // 120), caption_stream(rnd, nfr), yield_pct=rnd.choice([3, 6, 15]))))
    n_rd = 4 if quick else 36
    for k in range(n_rd):
        nm, nc = [(1, 0), (1, 1), (2, 1), (2, 0)][k % 4]
        sd = rnd.randrange(1, 1 << 30)
        nd = 1200 if quick else 4000
        out.append(dict(kind="rd", seed=sd, threads=1 + nm + nc, cfg=(nm, nc), nframes=nd,
                        script=rd_script(sd, nm, nc, nd, nd // 3, yield_pct=rnd.choice([3, 6, 15]))))
    return out


# ------------------------------------------------------------------ executing a plan on the real library
def execute(ctx, drv, plan, tag, env=None, script=None, timeout=240):
    """-> dict(rc, stderr, log path or None, lines)"""
    sp = os.path.join(ctx.scratch, "%s.txt" % tag)
    lp = os.path.join(ctx.scratch, "%s.ndjson" % tag)
    with open(sp, "w") as f:
        f.write("\n".join(script or plan["script"]) + "\n")
    rc, so, se, to = core.run_driver([drv, sp, lp], timeout=timeout, env=env or build.san_env())
    return dict(rc=rc, stdout=so, stderr=se, timeout=to, log=lp if os.path.exists(lp) else None)


def load(path):
    return [json.loads(x) for x in open(path) if x.startswith("{")]


def handovers(ev):
    """number of times a library mutex passed from one thread to another (evidence of real contention)"""
    last, n = {}, 0
    for e in ev:
        if e["e"] == "lock":
            if e["m"] in last and last[e["m"]] != e["t"]:
                n += 1
            last[e["m"]] = e["t"]
    return n


_BAD = re.compile(r'<<\s*"TV-BAD",\s*(\d+),\s*\[\s*t \|-> "([^"]*)",\s*p \|-> "([^"]*)",\s*d \|-> (<<.*?>>)\s*\]\s*>>', re.S)


def tv_key(prop, d):
    toks = re.findall(r'"([^"]*)"', d)
    if prop == "LocksetOK":
        return "tv:LocksetOK:%s" % ":".join(toks[:2])                 # region, function
    if prop == "ConsistentSet":
        return "tv:ConsistentSet:%s" % (toks[0] if toks else "")      # decode / add / remove / return / check
    if prop in ("CountdownOK", "NoSelfLock", "ContextOK", "LockBalance", "ProloguePresent"):
        return "tv:%s:%s" % (prop, toks[0] if toks else "")
    if prop == "CallbackUnlocked":
        m = re.search(r"<<(\d+)", d)
        return "tv:CallbackUnlocked:event-%s" % (m.group(1) if m else "?")
    return "tv:" + prop


def validate(ctx, items, label):
    """items: [(plan, log path)] -> set of indices accepted.  One TLC run for the batch; on a rejection the runs are
    validated one by one so that every run gets its own verdict."""
    if not items:
        return set()
    path = os.path.join(ctx.scratch, "tv-%s.ndjson" % label)
    starts = []
    n = 0
    with open(path, "w") as f:
        for plan, lp in items:
            f.write('{"e":"Reset"}\n'); n += 1
            starts.append(n)
            body = open(lp).read()
            f.write(body); n += body.count("\n")
    ok, r = tlc.validate_trace("Trace_Locks", "Trace_Locks", path, timeout=1500, heap="6g", explain=False)
    ctx.add_mc(r, "TV " + label)
    if ok:
        return set(range(len(items)))
    if len(items) > 1:
        acc = set()
        for i, it in enumerate(items):
            if validate(ctx, [it], "%s-%d" % (label, i)):
                acc.add(i)
        return acc
    plan, lp = items[0]
    m = _BAD.search(r.out)
    lines = open(path).read().split("\n")
    if m:
        at, thr, prop, d = int(m.group(1)), m.group(2), m.group(3), m.group(4)
        key = tv_key(prop, d)
        ctxt = "\n".join(lines[max(0, at - 8):at])
        detail = "recorded execution breaks %s at log line %d (thread %s, %s)\n%s" % (prop, at, thr, " ".join(d.split()), ctxt)
    else:
        at = r.reject_at or 0
        key = "tv:rejected:%s" % (json.loads(lines[at - 1]).get("e") if 0 < at <= len(lines) and lines[at - 1].startswith("{") else "?")
        detail = "log line %d is not a step of Trace_Locks: %s\n%s" % (at, lines[at - 1][:300] if at else "", (r.violation or {}).get("text", "")[:1500])
    ctx.violate("tv", key, detail, dict(kind=plan["kind"], script=plan["script"], monitor="tv"))
    return set()


def exposed_pages(ev):
    """the page contents (8 hashes) the decoding thread exposed at each of its releases of cc.mutex"""
    cur, out = None, []
    for e in ev:
        if e["t"] != "dec":
            continue
        if e["e"] == "start" and "pv" in e:
            cur = e["pv"]
        elif e["e"] == "unlock" and e["m"] == "cc":
            if "pv" in e:
                cur = e["pv"]
            out.append(cur)
    return out


def switch_points(ev):
    """for every request of another thread: number of chswcd_mutex sections the decoding thread had completed before it"""
    n, out = 0, []
    for e in ev:
        if e["e"] == "unlock" and e["m"] == "chsw":
            if e["t"] == "dec":
                n += 1
        elif e["e"] == "lock" and e["m"] == "chsw" and e["t"] != "dec":
            out.append(n)
    return out


def sequential_check(ctx, drv, plan, ev, tag):
    """the decoding thread's sequence of exposed page contents must be the one its single-threaded execution of the same
    stream produces (channel switch requests placed at the same points of its own countdown sections)"""
    inj = switch_points(ev)
    nf, ns, hf = plan["cfg"]
    scr = cc_script(plan["seed"], plan["nframes"], 0, 0, hf, 0, [x for x in plan["script"] if x[0] in "PXET"], mode="ccseq", inject=inj)
    r = execute(ctx, drv, plan, tag + "-seq", script=scr)
    if r["rc"] != 0 or not r["log"]:
        raise tlc.ToolFailure("sequential reference run failed rc=%s: %s" % (r["rc"], r["stderr"][-800:]))
    a, b = exposed_pages(ev), exposed_pages(load(r["log"]))
    if a == b:
        return True
    k = next((i for i in range(min(len(a), len(b))) if a[i] != b[i]), min(len(a), len(b)))
    ctx.violate("seq", "seq:exposed-pages-differ",
                "release %d of cc.mutex by the decoding thread (of %d concurrent / %d sequential): concurrent run exposed %s, the "
                "single-threaded run of the same stream %s" % (k + 1, len(a), len(b), a[k] if k < len(a) else None, b[k] if k < len(b) else None),
                dict(kind="cc", script=plan["script"], monitor="seq"))
    return False


_TS_HDR = re.compile(r"WARNING: ThreadSanitizer: (.+?) \(pid")


def tsan_reports(stderr, repo):
    """-> [(kind, sorted function pair, text)] : first frame inside the repository of each of the two stacks"""
    out = []
    blocks = re.split(r"(?m)^={18}$", stderr)
    for b in blocks:
        m = _TS_HDR.search(b)
        if not m:
            continue
        kind = m.group(1).strip()
        fns = []
        for stack in re.split(r"\n\s*\n", b):
            if not re.search(r"(?m)^\s+(Write|Read|Previous|Atomic|Mutex|Thread .* acquired|Cycle)", stack) and "#0" not in stack:
                continue
            if re.search(r"(?m)^\s+(Location|Thread T\d+ .*created|Mutex M\d+ .*created)", stack) and not re.search(r"(Write|Read|Previous) ", stack):
                continue
            mm = re.search(r"#\d+ (\S+) " + re.escape(repo) + r"/(src/\S+?):(\d+)", stack)
            if mm and len(fns) < 2 and re.search(r"(Write|Read|Previous|acquired|lock)", stack):
                fns.append(mm.group(1))
        out.append((kind, "+".join(sorted(set(fns))) or "?", b.strip()[:2500]))
    return out


_WD = re.compile(r"WATCHDOG: deadlock.*?calls in progress:(.*)")


def deadlock(ctx, drv, plan, r, tag, env, rp):
    """the driver's watchdog saw every thread blocked with no call completing.  Reported only when the same script blocks
    again (exit 4 or the python timeout); the key names the call the decoding thread is stuck in"""
    r2 = execute(ctx, drv, plan, tag + "-again", env=env, timeout=120)
    if not (r2["rc"] == 4 or r2["timeout"]):
        note = "deadlock watchdog fired once and did not reproduce (%s run, seed %s)" % (plan["kind"], plan["seed"])
        if note not in ctx.notes:
            ctx.notes.append(note)
        return
    m = _WD.search(r["stderr"]) or _WD.search(r2["stderr"])
    calls = dict(re.findall(r"(\w+)=(\w+)", m.group(1))) if m else {}
    fn = calls.get("dec") or (sorted(calls.values())[0] if calls else plan["kind"])
    ctx.violate("watchdog", "deadlock:%s" % fn, "every thread is blocked and no API call completes (reproduced twice); calls in progress: %s\n%s"
                % (calls, r["stderr"][-600:]), rp)


def asan_in_scope(ctx, stderr, plan):
    """memory errors are what a race turns into (e.g. the job table freed under a running decode): in scope.  UBSan array
    index reports belong to C01."""
    for kind, fn, where in core.sanitizer_reports(stderr):
        if kind.startswith("asan:"):
            ctx.violate("sanitizer", "%s:%s" % (kind, fn), stderr[-2500:], dict(kind=plan["kind"], script=plan["script"], monitor="asan"))
        elif not kind.startswith("tsan:"):
            note = "sanitizer report outside this property's statement (see C01): %s:%s at %s" % (kind, fn, where)
            if note not in ctx.notes:
                ctx.notes.append(note)


# ------------------------------------------------------------------ model checking
MC_QUICK = ["MC_Locks_cc_q", "MC_Locks_ttx_q", "MC_Locks_gap_q", "MC_Locks_rd_q", "MC_Locks_paths_q"]
MC_THOROUGH = MC_QUICK + ["MC_Locks_cc_t", "MC_Locks_long_t", "MC_Locks_rd_t", "MC_Locks_rdbig_t", "MC_Locks_big_t"]
# variants of the code the model must reject (the code as found, the naive repair, a mutant, use outside the documentation)
MC_EXPECT = [("MC_Locks_asfound", "invariant", "LocksetOK"), ("MC_Locks_asfound_race", "invariant", "NoRace"),
             ("MC_Locks_asfound_snap", "invariant", "SnapshotAtomic"), ("MC_Locks_asfound_cb", "invariant", "CallbackUnlocked"),
             ("MC_Locks_asfound_dl", "deadlock", "deadlock"), ("MC_Locks_lockonly", "invariant", "NoSelfLock"),
             ("MC_Locks_heldcb", "invariant", "CallbackUnlocked"), ("MC_Locks_heldcb_dl", "deadlock", "deadlock"),
             ("MC_Locks_resize", "invariant", "NoRace"),
             # dropped-frame branch testing chswcd outside the mutex; an early return that keeps rd->mutex
             ("MC_Locks_gapunlocked", "invariant", "LocksetOK"), ("MC_Locks_gaplost", "invariant", "SwitchServed"),
             ("MC_Locks_resizeleak", "invariant", "LockBalance"), ("MC_Locks_resizeleak_dl", "deadlock", "deadlock")]


def model_check(ctx):
    quick = ctx.tier == "quick"
    jobs = [(c, None) for c in (MC_QUICK if quick else MC_THOROUGH)] + [(c, (k, n)) for c, k, n in MC_EXPECT]

    def one(j):
        cfg, exp = j
        big = cfg.endswith("_t")
        return j, tlc.run("MC_Locks", cfg, timeout=2400, workers=(8 if "big_t" in cfg else 4) if big else 2, heap="8g" if big else "2g",
                          coverage=(not quick and exp is None and "big_t" not in cfg))
    # the variants and the small models run side by side; the large models of the thorough tier one after the other
    small = [j for j in jobs if not j[0].endswith("_t")]
    large = [j for j in jobs if j[0].endswith("_t")]
    for (cfg, exp), r in core.pmap(one, small, workers=4) + [one(j) for j in large]:
        if exp is None:
            ctx.add_mc(r, cfg)
            if r.violation:
                ctx.violate("mc", "mc:%s:%s" % (r.violation["kind"], r.violation["name"]), r.violation["text"][:3000], dict(cfg=cfg))
        else:
            ctx.add_mc(r, cfg + " (variant the model must reject: %s)" % exp[1])
            if not r.violation or (r.violation["kind"], r.violation["name"]) != exp:
                raise tlc.ToolFailure("self test of the model: %s should violate %s, TLC says %s" % (cfg, exp, r.violation and (r.violation["kind"], r.violation["name"])))


# ------------------------------------------------------------------ the check
def record_and_validate(ctx, plist, reps=1):
    drv = build.build_driver("drv_locks", extra=WRAP)
    jobs = [(i, k) for i in range(len(plist)) for k in range(reps)]

    def run1(j):
        i, k = j
        return j, execute(ctx, drv, plist[i], "r%d-%d" % (i, k))
    results = core.pmap(run1, jobs, workers=8)
    good = []
    for (i, k), r in results:
        p = plist[i]
        rp = dict(kind=p["kind"], script=p["script"], monitor="tv")
        if r["stderr"]:
            asan_in_scope(ctx, r["stderr"], p)
        if r["timeout"] or r["rc"] == 4:
            deadlock(ctx, drv, p, r, "r%d-%d" % (i, k), None, rp)
        elif r["rc"] not in (0, 3) and not core.sanitizer_reports(r["stderr"]):
            raise tlc.ToolFailure("drv_locks died rc=%s: %s" % (r["rc"], r["stderr"][-1500:]))
        if r["log"]:
            good.append((p, r["log"], (i, k)))
    batches, cur, cur_n = [], [], 0        # one JVM start per ~100 000 log lines (thorough), per run (quick)
    for g in good:
        n = sum(1 for _ in open(g[1]))
        if cur and (ctx.tier == "quick" or cur_n + n > 100000):
            batches.append(cur); cur, cur_n = [], 0
        cur.append(g); cur_n += n
    if cur:
        batches.append(cur)

    def val(bi):
        return bi, validate(ctx, [(p, lp) for p, lp, _ in batches[bi]], "b%d" % bi)
    accepted = []
    for bi, acc in core.pmap(val, list(range(len(batches))), workers=6):
        accepted += [batches[bi][x] for x in acc]
    # sequential reference for the service decoder runs
    def seq(item):
        p, lp, (i, k) = item
        ev = load(lp)
        ok = sequential_check(ctx, drv, p, ev, "r%d-%d" % (i, k)) if p["kind"] == "cc" else True
        return item, ev, ok
    for (p, lp, ik), ev, ok in core.pmap(seq, accepted, workers=8):
        ho = handovers(ev)
        nfetch = sum(1 for e in ev if e["e"] == "fetched")
        nreset = sum(1 for e in ev if e["e"] == "acc" and e.get("fn") == "vbi_caption_channel_switched")
        nmod = sum(1 for e in ev if e["e"] == "ret" and e.get("op") in ("add", "remove"))
        ctx.count_case([p["kind"], p["seed"], p["cfg"], ik[1], len(ev), ho], nontrivial=ho > 0 and (nfetch > 0 or nmod > 0))
        if ok:
            ctx.validated()
        ctx.sample(dict(source="recorded %s run" % p["kind"], threads=p["threads"], seed=p["seed"], events=len(ev), mutex_handovers=ho,
                        fetched_pages=nfetch, channel_resets=nreset, service_changes=nmod, first_events=ev[:5]))
    return accepted


def tsan_pass(ctx, plist):
    drv = build.build_driver("drv_locks", variant="tsan")

    def run1(i):
        return i, execute(ctx, drv, plist[i], "t%d" % i, env=build.san_env(), timeout=600)
    for i, r in core.pmap(run1, list(range(len(plist))), workers=8):
        p = plist[i]
        rp = dict(kind=p["kind"], script=p["script"], monitor="tsan")
        reps = tsan_reports(r["stderr"], build.REPO)
        for kind, pair, text in reps:
            if pair == "?":       # no frame inside the library: the driver's own bookkeeping
                note = "ThreadSanitizer report without a library frame (driver): " + kind
                if note not in ctx.notes:
                    ctx.notes.append(note)
                continue
            ctx.violate("tsan", "tsan:%s:%s" % (kind, pair), text, rp)
        if r["timeout"] or r["rc"] == 4:
            deadlock(ctx, drv, p, r, "t%d" % i, build.san_env(), rp)
        elif r["rc"] != 0 and not reps:
            raise tlc.ToolFailure("drv_locks (tsan) died rc=%s: %s" % (r["rc"], r["stderr"][-1500:]))
        else:
            ctx.cov["evaluations"] += 1


def run(ctx):
    quick = ctx.tier == "quick"
    ctx.cov["rule"] = ("cases = recorded multi-threaded executions of the real library (2-4 threads, seeded streams) accepted by Trace_Locks and, for the "
                       "service decoder, equal to the single-threaded execution in every exposed page; distinct by (kind, seed, thread shape, "
                       "repetition, events, mutex handovers) - schedules differ from run to run; non-trivial = a library mutex changed hands between "
                       "threads and a page was fetched / the service set changed. ThreadSanitizer runs count as evaluations only")
    ctx.assumptions += ["only the documented cross-thread operations are driven: vbi_fetch_cc_page and vbi_channel_switched against vbi_decode; "
                        "vbi_raw_decoder_add/remove/check_services against vbi_raw_decode (legacy vbi_raw_decoder)",
                        "event handlers run in the decoding thread and may call vbi_fetch_cc_page (documented as safe)",
                        "the geometry of the raw decoder is changed by the decoding thread itself between two decodes (resize concurrent with "
                        "decode is outside the documented usage)",
                        "the VERIF_REGION markers sit on every function that touches the shared regions (DESIGN 3.2); mutex events come from the linker wrap"]
    model_check(ctx)
    plist = plans(ctx)
    record_and_validate(ctx, plist, reps=1 if quick else 2)
    tsan_pass(ctx, plist if not quick else [p for n, p in enumerate(plist) if n % 2 == 0])
    ctx.cov["exhaustive"] = False


def replay(ctx, rp):
    r = rp["replay"] or {}
    if "cfg" in r and "script" not in r:
        res = tlc.run("MC_Locks", r["cfg"], timeout=2400, workers=4)
        if res.violation:
            ctx.violate("mc", rp["key"], res.violation["text"][:3000], r)
        return
    kind = r.get("kind", "cc")
    p = dict(kind=kind, script=r["script"], seed=int(next(x for x in r["script"] if x.startswith("S ")).split()[1]),
             nframes=sum(1 for x in r["script"] if x[0] in "PXE"), threads=0)
    nl = next(x for x in r["script"] if x.startswith("N ")).split()
    p["cfg"] = (int(nl[1]), int(nl[2]), nl[3] == "1") if kind == "cc" else (int(nl[1]), int(nl[2]))
    # schedules vary: repeat the run a few times
    if r.get("monitor") == "tsan":
        for _ in range(5):
            tsan_pass(ctx, [p])
            if ctx.violations:
                return
    else:
        for _ in range(5):
            record_and_validate(ctx, [p])
            if ctx.violations:
                return


def selftest(ctx):
    """corrupt single fields of an accepted recording: every corruption must be rejected by Trace_Locks"""
    drv = build.build_driver("drv_locks", extra=WRAP)
    rnd = random.Random(11)
    pc = dict(kind="cc", seed=77, threads=3, cfg=(1, 1, True), nframes=800, script=cc_script(77, 800, 1, 1, True, 6, caption_stream(rnd, 800)))
    pr = dict(kind="rd", seed=78, threads=3, cfg=(1, 1), nframes=800, script=rd_script(78, 1, 1, 800, 250))
    bad = 0
    for p in (pc, pr):
        r = execute(ctx, drv, p, "self-" + p["kind"])
        lines = open(r["log"]).read().strip().split("\n")
        ev = [json.loads(x) for x in lines]

        def first(pred):
            return next(i for i, e in enumerate(ev) if pred(e))
        muts = []
        if p["kind"] == "cc":
            i = first(lambda e: e["e"] == "fetched" and e["t"] == "f1"); muts.append(("fetched hash changed", i, dict(ev[i], h="0" * 16)))
            i = first(lambda e: e["e"] == "lock" and e["t"] == "f1" and e["m"] == "cc"); muts.append(("lock event of the fetching thread removed", i, None))
            i = first(lambda e: e["e"] == "unlock" and e["m"] == "chsw" and e["t"] == "sw"); muts.append(("chswcd after a request is 0", i, dict(ev[i], v=0)))
            i = first(lambda e: e["e"] == "cb"); j = max(k for k in range(i) if ev[k]["e"] == "unlock" and ev[k]["m"] == "cc" and ev[k]["t"] == "dec")
            muts.append(("cc.mutex not released before the callback", j, None))
            # the exposure that a later fetch of another thread looks at
            k = max(k for k, e in enumerate(ev) if e["e"] == "fetched" and e["t"] == "f1")
            lk = max(x for x in range(k) if ev[x]["e"] == "lock" and ev[x]["t"] == "f1" and ev[x]["m"] == "cc")
            i = max(x for x in range(lk) if ev[x]["e"] == "unlock" and "pv" in ev[x])
            muts.append(("exposed page content changed", i, dict(ev[i], pv=["f" * 16] * 8)))
            # a frame whose countdown section is missing (its three events removed one by one would be three cases: drop the unlock's frame)
            fr = [x for x, e in enumerate(ev) if e["e"] == "call" and e.get("op") == "frame"]
            g = next(x for x in fr if not (25000 <= ev[x]["dt"] <= 50000))
            muts.append(("dropped-frame step declared regular", g, dict(ev[g], dt=33367)))
            i = next(x for x in range(g, len(ev)) if ev[x]["e"] == "unlock" and ev[x]["m"] == "chsw" and ev[x]["t"] == "dec")
            muts.append(("countdown re-armed over a running one", i, dict(ev[i], v=40 if ev[i]["v"] != 40 else 39)))
            i = first(lambda e: e["e"] == "unlock" and e["t"] == "sw" and e["m"] == "chsw")
            muts.append(("unlock of the switching thread removed", i, None))
        else:
            i = first(lambda e: e["e"] == "unlock" and e["t"] == "dec" and e["m"] == "rd" and False) if False else None
            k = first(lambda e: e["e"] == "ret" and e["op"] == "resize_same")
            i = max(x for x in range(k) if ev[x]["e"] == "unlock" and ev[x]["t"] == "dec")
            muts.append(("resize returns with rd->mutex held", i, None))
            i = first(lambda e: e["e"] == "rawdec" and e["ids"]); muts.append(("decoded ids lose a service", i, dict(ev[i], ids=ev[i]["ids"][1:])))
            i = first(lambda e: e["e"] == "unlock" and e["t"] == "mod1"); muts.append(("service set after a change altered", i, dict(ev[i], svc=["ttx"] if ev[i]["svc"] != ["ttx"] else ["vps"])))
            i = first(lambda e: e["e"] == "lock" and e["t"] == "mod1"); muts.append(("lock event of the changing thread removed", i, None))
            i = first(lambda e: e["e"] == "ret" and e["op"] in ("add", "remove")); muts.append(("return value altered", i, dict(ev[i], val=[] if ev[i]["val"] else ["ttx"])))
        cases = [("unchanged", None, None)] + muts
        for name, i, new in cases:
            out = list(lines)
            if i is not None:
                if new is None:
                    del out[i]
                else:
                    out[i] = json.dumps(new)
            path = os.path.join(ctx.scratch, "self.ndjson")
            open(path, "w").write('{"e":"Reset"}\n' + "\n".join(out) + "\n")
            ok, res = tlc.validate_trace("Trace_Locks", "Trace_Locks", path, timeout=600, explain=False)
            m = _BAD.search(res.out)
            verdict = "accepted" if ok else "rejected (%s)" % (m.group(3) if m else "not a step, line %s" % res.reject_at)
            want = (name == "unchanged")
            print("%-3s %-48s %s" % (p["kind"], name, verdict))
            if ok != want:
                bad += 1
    print("selftest:", "OK" if not bad else "%d unexpected verdicts" % bad)
    return 0 if not bad else 2
