"""C06 - the DVB VBI multiplexer emits standard-conformant packets that demultiplex to its input.
spec/DvbStream.tla    grammar of a DVB VBI stream written from EN 300 472 / EN 301 775 / ISO 13818-1 (PesConformant,
                      TsConformant, UnitConformant, RawOf, Carried) and a transmitter (EncPesU, TsPackets)
spec/DvbMuxRules.tla  what a caller may hand in / what must be accepted, size rounding
spec/DvbMux.tla       state machine of vbi_dvb_mux_feed / vbi_dvb_mux_cor / vbi_dvb_mux_reset (continuity counter, raw line
                      continuation, coroutine offsets with TS headers written on the fly) and of the reconfiguration between two
                      calls (vbi_dvb_mux_set_data_identifier / _set_pes_packet_size, also while a coroutine packet is partly
                      delivered: it takes effect for the packets generated after it) composed with DvbDemux
MC (MC_DvbMux):       WellFormed, CarriesInput, RejectSilent, RejectIsNoOp, Usable, CorEqualsCb, Continuity, RoundTrip over all
                      sequences of frames (legal, undefined line, raw lines, wrong order / service line, too big) x configurations
TV (Trace_DvbMux):    the REAL multiplexer runs seeded frame sequences in many configurations (callback, coroutine with
                      various buffer sizes, with and without the rejected frames, with resets); the emitted bytes are logged
                      untouched, fed to the REAL demultiplexer (PES route, TS route) and its deliveries logged; TLC accepts the
                      log only if every packet is conformant, carries exactly the input, rejected frames are silent no-ops,
                      legal fitting frames are accepted, the variants emit identical bytes and the demultiplexer returns the
                      accepted frames with their PTS."""
import json, os, random, re
from vlib import tlc, build, core, dvb

MANIFEST = dict(
    level="model_checking",
    engine="tlc-mc+tv",
    technique="TLA+ specs DvbStream (conformance grammar written from the standards), DvbMux (multiplexer state machine) and DvbDemux "
              "(receiver) composed and checked exhaustively by TLC on a scaled packet layout; the real multiplexer's output bytes and the "
              "real demultiplexer's deliveries for seeded frame sequences and configurations are recorded and validated by TLC against "
              "the grammar and the state machine with the real constants (trace validation), under ASan/UBSan",
    text="TLC checks for every sequence of up to three frames (legal ones on the first/last permitted lines, undefined line numbers, raw "
         "lines, wrong order, wrong service line, too big) and every configuration (data_identifier class, packet size range, PES/TS) fed "
         "through the callback or the coroutine interface with any buffer sizes, with the data_identifier and the packet size range changed "
         "between any two calls (at every offset of a partly delivered coroutine packet): emitted packets are conformant for the "
         "data_identifier in their own header, carry exactly the input lines, rejected frames emit nothing and change nothing, legal fitting frames are always accepted, both interfaces emit the same "
         "bytes, continuity counters are consecutive, and the demultiplexer model returns the accepted frames with their PTS. The real "
         "multiplexer is run on seeded sequences over data_identifiers 0x10-0x1F/0x99-0x9B, size ranges incl. unrounded values, PIDs, "
         "33 bit PTS values and raw sampling parameters, and on coroutine runs whose first buffer takes every size 1-60 (around the "
         "data_identifier byte) followed by a switch of the data_identifier class and a new size range before the rest of the packet is "
         "read; every emitted byte sequence is judged by the TLA+ grammar and the real "
         "demultiplexer's output (PES route and internal TS route) must equal the accepted input frames.",
    note="Bounded: exhaustive only on the scaled layout (15 byte header, 5 byte data units, 10 byte TS payload, <= 3 frames); real-size runs are "
         "seeded samples; at most two reconfigurations per model behaviour. Caption 625 is accepted on line 21 (EN 301 775 4.8.2, as coded), not on line 22 as the API comment says. Frames are "
         "generated recognisable (every frame starts at or below line 15 and reaches line 16 or beyond). The internal TS demultiplexer does "
         "not deliver a first PES packet of exactly 184 bytes (it is complete before the receiver is synchronised): accepted by the trace "
         "specification, the public PES demultiplexer on the de-packetised payload is the oracle. Sliced id 0 (VBI_SLICED_NONE) is skipped by "
         "the multiplexer by design and is not generated.",
)

TTX, VPS, WSS, CC, RAW = dvb.TTX, dvb.VPS, dvb.WSS, dvb.CC, dvb.RAW
TTX_LINES = list(range(7, 23)) + list(range(320, 336))


def line(ln, sid, rnd):
    base = {1: TTX, 2: TTX, 3: TTX, 24: CC}.get(sid, sid)
    return dict(line=ln, id=sid, data=dvb.rnd_payload(rnd, base))


def legal_frame(rnd, n_ttx=None, raw=0, line0=False):
    """recognisable legal frame: first numbered line <= 15, last >= 16"""
    n = n_ttx if n_ttx is not None else rnd.choice([1, 1, 2, 3, 5, 8])
    lines = {}
    first = rnd.randint(7, 15)
    lines[first] = rnd.choice([1, 2, 3, 3])
    cand = [x for x in TTX_LINES if x > first]
    for ln in rnd.sample(cand, min(max(n - 1, 0), len(cand))):
        lines[ln] = rnd.choice([1, 2, 3, 3])
    if rnd.random() < 0.5 or max(lines) < 16:
        lines[16] = VPS
    if rnd.random() < 0.4:
        lines[21] = rnd.choice([CC, 24])
    if rnd.random() < 0.4:
        lines[23] = WSS
    free = [x for x in list(range(first + 1, 24)) + list(range(320, 337)) if x not in lines]
    for ln in rnd.sample(free, min(raw, len(free))):
        lines[ln] = RAW
    fr = [dict(line=ln, id=RAW, data=[]) if lines[ln] == RAW else line(ln, lines[ln], rnd) for ln in sorted(lines)]
    if line0:
        fr.insert(rnd.randint(1, len(fr)), line(0, TTX, rnd))
    return fr


def all_lines_frame(rnd):
    lines = {ln: TTX for ln in TTX_LINES}
    lines[16] = VPS; lines[21] = CC; lines[23] = WSS
    return [line(ln, lines[ln], rnd) for ln in sorted(lines)]


def illegal_frame(rnd):
    k = rnd.randrange(7)
    fr = legal_frame(rnd, n_ttx=3)
    if k == 0 and len(fr) >= 2:
        fr[0], fr[1] = fr[1], fr[0]                                       # wrong order
    elif k == 1:
        fr = [x for x in fr if x["line"] != 17] + [line(17, VPS, rnd)]    # VPS on line 17
        fr.sort(key=lambda x: x["line"])
    elif k == 2:
        fr = [x for x in fr if x["line"] != 22] + [line(22, rnd.choice([CC, WSS]), rnd)]   # caption / WSS on line 22
        fr.sort(key=lambda x: x["line"])
    elif k == 3:
        fr = [line(rnd.choice([1, 5, 6]), TTX, rnd)] + fr                 # Teletext above the VBI
    elif k == 4:
        fr = fr + [line(rnd.choice([336, 337, 400]), TTX, rnd)]
    elif k == 5:
        fr = fr + [dict(line=rnd.choice([337, 340]), id=RAW, data=[])]    # raw line outside 7-23 / 320-336
    else:
        fr.append(dict(line=fr[-1]["line"], id=TTX, data=dvb.rnd_payload(rnd, TTX)))      # same line twice
        fr.sort(key=lambda x: x["line"])
    return fr


def rnd_pts(rnd):
    return (rnd.choice([0, 1, 3, 4, 7, 7, 13]), rnd.choice([0, 1, (1 << 30) - 1, rnd.randrange(1 << 30), rnd.randrange(1 << 30), 0x2AAAAAAA]))


def rnd_cfg(rnd, k):
    ts = k % 2 == 1
    did = [0x10, 0x99, 0x15, 0x9B, 0x1F, 0x9A][k % 6]
    if rnd.random() < 0.08:
        did = rnd.choice([0x0F, 0x20, 0x98, 0x9C, 0])            # illegal: refused, default 0x10 stays
    mn, mx = [(184, 184), (184, 368), (368, 1472), (0, 65504), (100, 1000), (185, 400), (700, 300), (1472, 1472), (0, 99999), (184, 2000)][k % 10]
    return dict(ts=ts, pid=rnd.choice([0x10, 0x123, 0x1FFE, 0x1ABC]) if ts else 0, did=did, min=mn, max=mx)


def rnd_sequence(rnd, cfg, n):
    small = cfg["max"] < 600
    frames = []
    for i in range(n):
        r = rnd.random()
        if r < 0.12:
            fr = illegal_frame(rnd)
        elif r < 0.2:
            fr = all_lines_frame(rnd)                                      # 35 lines: too big for small packets
        elif r < 0.35:
            fr = legal_frame(rnd, raw=rnd.choice([1, 1, 2]))               # may be too big: 720 samples need ~740 bytes
        elif r < 0.45:
            fr = legal_frame(rnd, line0=True)
        else:
            fr = legal_frame(rnd, n_ttx=rnd.choice([1, 2, 3]) if small else None)
        frames.append((fr, rnd_pts(rnd)))
    return frames


def script(cfg, frames, iface, bufs=None, rawpar=None, reset_before=()):
    c = dict(cfg, iface=iface)
    if bufs:
        c["bufs"] = bufs
    if rawpar:
        c["raw"] = rawpar
    return dvb.mux_script(c, frames, reset_before=reset_before)


def setter_cmd(x):
    return "D %d" % x[1] if x[0] == "did" else "Y %d %d" % (x[1], x[2])


def reconf_script(cfg, frames, plan, iface, rawpar=None, keep=None):
    """reconfiguration between calls.  plan[i] = dict(pre=[setter..], parts=[[b, [setter..]], ..], last=b) for frame i: the setters
    `pre`, then vbi_dvb_mux_cor with a b byte buffer followed by its setters for every part, then the rest of the packet with
    buffers of `last` bytes; setter = ["did", d] | ["size", min, max].  The callback variant calls the same setters in the same
    order between its vbi_dvb_mux_feed calls (a reconfiguration takes effect for the packets generated after it).
    keep: indices of the frames to hand in (the setters of the others stay)."""
    s = ["M %s %d %s %d %d %d" % ("ts" if cfg["ts"] else "pes", cfg.get("pid", 0), iface, cfg["did"], cfg["min"], cfg["max"])]
    if rawpar:
        s.append("P %d %d" % tuple(rawpar))
    for i, (lines, pts) in enumerate(frames):
        pl = plan[i]
        kept = keep is None or i in keep
        s += [setter_cmd(x) for x in pl["pre"]]
        if kept:
            s += dvb.frame_cmds(lines)
            if iface == "cb":
                s.append("E %d %d" % tuple(pts))
        for b, sets in pl["parts"]:
            if kept and iface == "cor":
                s.append("G %d %d %d" % (pts[0], pts[1], b))
            s += [setter_cmd(x) for x in sets]
        if kept and iface == "cor":
            s.append("G %d %d %d *" % (pts[0], pts[1], pl["last"]))
    return s


def log_of(cfg, frames, res, cmp, reset_before=()):
    """merge what was asked with what the driver printed -> log records, emitted bytes per accepted frame"""
    recs, outs, fi, part = [], [], 0, []
    for o in res["lines"]:
        a = o.get("a")
        if a in ("send", "csend", "cpart") and fi >= len(frames):
            return recs, outs, False
        if a == "cpart":                                   # one coroutine call; the frame goes with the call that ends it
            part += o["out"]
            if not o["ok"] or o["left"] == 0:
                fr, pts = frames[fi]
                fi += 1
                o = dict(o, frame=[dict(line=x["line"], id=x["id"], data=list(x["data"])) for x in fr], pts=list(pts))
                if o["ok"]:
                    outs.append(part)
                part = []
        elif a == "mux":
            o = dict(o, req=dict(did=cfg["did"], min=cfg["min"], max=cfg["max"]), cmp=bool(cmp))
        elif a in ("send", "csend"):
            fr, pts = frames[fi]
            fi += 1
            o = dict(o, frame=[dict(line=x["line"], id=x["id"], data=list(x["data"])) for x in fr], pts=list(pts))
            if o["ok"]:
                outs.append([b for pk in o["pk"] for b in pk] if a == "send" else list(o["out"]))
        recs.append(o)
    return recs, outs, fi == len(frames)


def demux_records(drv, cfg, jobs):
    """jobs: [(bytes, route, pid)] -> demux log records"""
    scripts = [["S " + dvb.hexs(b), "O %s cb %d 64" % ("ts" if route == "ts" else "pes", pid), "F %d" % len(b)] for b, route, pid in jobs]
    res = dvb.run_scripts(drv, scripts, timeout=600, workers=8)
    out = []
    for (b, route, pid), r in zip(jobs, res):
        d = [f for x in r["lines"] if x.get("a") == "feed" for f in x["d"]]
        out.append((dict(a="demux", route=route, n=len(b), d=d), r))
    return out


def build_groups(ctx, quick):
    """a group = runs validated together in one log file section: A (callback), B (coroutine, compared), C (callback without
    the rejected frames, compared), D (callback with resets)"""
    rnd = random.Random(ctx.seed * 6151 + 3)
    groups = []
    n = 60 if quick else 1500
    for k in range(n):
        cfg = rnd_cfg(rnd, k)
        frames = rnd_sequence(rnd, cfg, rnd.choice([4, 6, 8]))
        rawpar = None if rnd.random() < 0.6 else rnd.choice([(132, 720), (132, 100), (400, 251), (500, 352), (851, 1), (140, 252), (132, 40), (300, 41)])
        bufs = rnd.choice([[1], [7], [188], [4096], [187, 189], [46, 1, 300], [rnd.randint(1, 400) for _ in range(5)], [184], [65536]])
        groups.append(dict(cfg=cfg, frames=frames, rawpar=rawpar, bufs=bufs, resets=(rnd.randrange(1, len(frames)),), label="seq %d" % k))
    # directed: a frame whose raw line does not fit is rejected between two legal frames (D10)
    r2 = random.Random(5)
    t = lambda ln: line(ln, TTX, r2)
    for ts in (False, True):
        cfg = dict(ts=ts, pid=0x44 if ts else 0, did=0x99, min=184, max=368)
        frames = [([t(7), t(20)], (0, 100)), ([t(7), dict(line=8, id=RAW, data=[]), t(22)], (0, 3700)), ([t(9), t(21)], (1, 7300)),
                  ([t(8), dict(line=9, id=RAW, data=[]), dict(line=10, id=RAW, data=[])], (1, 10900)), ([t(7), t(16)], (2, 14500)), ([t(10), t(335)], (2, 18100))]
        groups.append(dict(cfg=cfg, frames=frames, rawpar=None, bufs=[188], resets=(), label="raw line too big between legal frames"))
    # directed: frames that begin on the very line their predecessor ended on
    for ts in (False, True):
        cfg = dict(ts=ts, pid=0x1000 if ts else 0, did=0x10 if ts else 0x9A, min=184, max=1472)
        frames = [([t(ln) for ln in lines], (i % 8, 3600 * i)) for i, lines in enumerate([[16], [16], [7, 16], [16, 320], [320], [8, 22], [22], [7]])]
        groups.append(dict(cfg=cfg, frames=frames, rawpar=None, bufs=[100], resets=(), label="frames starting on the last line of their predecessor"))
    # directed: raw lines with every kind of sampling parameters in both data unit formats
    for k, rawpar in enumerate([(132, 720), (132, 40), (300, 41), (400, 251), (140, 252), (851, 1), (132, 81), (200, 502), (132, 250)]):
        for did in (0x10, 0x99):
            cfg = dict(ts=(k % 2 == 1), pid=0x321 if k % 2 == 1 else 0, did=did, min=184, max=65504)
            frames = [(legal_frame(r2, n_ttx=2, raw=1), (k % 8, 1000 * k)), (legal_frame(r2, n_ttx=1, raw=2), (1, 5)), (legal_frame(r2, n_ttx=2), (2, 9)),
                      (legal_frame(r2, n_ttx=1, raw=3), (3, 11)), (legal_frame(r2, n_ttx=1), (3, 12))]
            groups.append(dict(cfg=cfg, frames=frames, rawpar=rawpar, bufs=[r2.choice([1, 45, 188, 999])], resets=(), label="raw lines, sampling parameters %s" % (rawpar,)))
    return groups


FIXED_DIDS, VAR_DIDS = [0x10, 0x15, 0x1F], [0x99, 0x9A, 0x9B]
SIZES = [(184, 184), (184, 368), (368, 1472), (0, 65504), (100, 1000), (185, 400), (700, 300), (1472, 1472), (0, 99999), (184, 2000)]


def reconf_groups(ctx, quick):
    """vbi_dvb_mux_set_data_identifier / _set_pes_packet_size between two calls of the coroutine while a packet is partly
    delivered: the first buffer of a frame takes every size 1 .. 60 (the data_identifier byte is byte 46 of a PES packet,
    byte 50 of the first transport packet), then the data_identifier changes class (fixed <-> variable data unit length),
    then the rest of the packet is read.  Run A does the same through the callback interface (setters between the frames),
    B through the coroutine, C without the frames A rejected."""
    rnd = random.Random(ctx.seed * 7919 + 11)
    groups = []

    def frames3(small):
        return [(legal_frame(rnd, n_ttx=rnd.choice([1, 2, 3]) if small else None, raw=rnd.choice([0, 0, 0, 1])), rnd_pts(rnd)) for _ in range(3)]

    def any_setter():
        r = rnd.random()
        if r < 0.45:
            return ["did", rnd.choice(FIXED_DIDS + VAR_DIDS)]
        if r < 0.55:
            return ["did", rnd.choice([0x0F, 0x20, 0x98, 0x9C, 0, 0x110])]          # refused, nothing changes
        return ["size"] + list(rnd.choice(SIZES))

    combos = [(b, ts, to_fixed) for b in range(1, 61) for ts in (False, True) for to_fixed in (False, True)]
    if quick:
        combos = [(b, (b + ctx.seed) % 2 == 1, ((b + ctx.seed) // 2) % 2 == 1) for b in range(1, 61)]
    for b, ts, to_fixed in combos:
        old, new = (rnd.choice(VAR_DIDS), rnd.choice(FIXED_DIDS)) if to_fixed else (rnd.choice(FIXED_DIDS), rnd.choice(VAR_DIDS))
        mn, mx = rnd.choice([(184, 368), (184, 1472), (368, 1472), (184, 65504)])
        cfg = dict(ts=ts, pid=rnd.choice([0x10, 0x123, 0x1FFE]) if ts else 0, did=old, min=mn, max=mx)
        plan = [dict(pre=[], parts=[[b, [["did", new]]]], last=rnd.choice([100, 188, 4096, 70000])),
                dict(pre=[], parts=[[rnd.randint(1, 60), [["size"] + list(rnd.choice(SIZES))]], [rnd.randint(1, 200), [["did", old]]]], last=rnd.choice([184, 999, 70000])),
                dict(pre=[any_setter()], parts=[], last=rnd.choice([188, 4096]))]
        groups.append(dict(cfg=cfg, frames=frames3(mx < 600), rawpar=None, bufs=None, plan=plan, resets=(),
                           label="reconf: first buffer %d, data_identifier 0x%02X -> 0x%02X mid-packet" % (b, old, new)))
    # directed: every boundary of the two permitted ranges, requested between frames and in the middle of a packet
    bounds = [0x0F, 0x10, 0x1F, 0x20, 0x98, 0x99, 0x9B, 0x9C]
    for ts in (False, True):
        r2 = random.Random(17)
        cfg = dict(ts=ts, pid=0x77 if ts else 0, did=0x9A if ts else 0x11, min=184, max=1472)
        frames = [(legal_frame(r2, n_ttx=2), (i % 8, 3600 * i)) for i in range(len(bounds))]
        plan = [dict(pre=[["did", d]] if i % 2 == 0 else [], parts=[[48, [["did", d]]]] if i % 2 == 1 else [[30, [["size", 184 + 184 * i, 368 + 184 * i]]]], last=4096)
                for i, d in enumerate(bounds if ts else bounds[::-1])]
        groups.append(dict(cfg=cfg, frames=frames, rawpar=None, bufs=None, plan=plan, resets=(), label="reconf: data_identifier range boundaries"))
    for k in range(20 if quick else 400):
        cfg = rnd_cfg(rnd, k)
        n = rnd.choice([3, 4, 5])
        frames = rnd_sequence(rnd, cfg, n)
        plan = []
        for i in range(n):
            parts = [[rnd.choice([rnd.randint(1, 60), rnd.randint(40, 55), rnd.randint(1, 400)]), [any_setter() for _ in range(rnd.choice([0, 1, 1, 2]))]]
                     for _ in range(rnd.choice([0, 1, 1, 2, 3]))]
            plan.append(dict(pre=[any_setter() for _ in range(rnd.choice([0, 0, 1]))], parts=parts, last=rnd.choice([100, 188, 777, 4096, 70000])))
        rawpar = None if rnd.random() < 0.7 else rnd.choice([(132, 720), (132, 100), (400, 251), (132, 40)])
        groups.append(dict(cfg=cfg, frames=frames, rawpar=rawpar, bufs=None, plan=plan, resets=(), label="reconf: random %d" % k))
    return groups


def run_groups(ctx, drv, groups):
    # phase 1: the multiplexer
    scripts, idx = [], []
    for gi, g in enumerate(groups):
        if g.get("plan"):
            scripts.append(reconf_script(g["cfg"], g["frames"], g["plan"], "cb", rawpar=g["rawpar"])); idx.append((gi, "A"))
            scripts.append(reconf_script(g["cfg"], g["frames"], g["plan"], "cor", rawpar=g["rawpar"])); idx.append((gi, "B"))
            continue
        scripts.append(script(g["cfg"], g["frames"], "cb", rawpar=g["rawpar"])); idx.append((gi, "A"))
        scripts.append(script(g["cfg"], g["frames"], "cor", bufs=g["bufs"], rawpar=g["rawpar"])); idx.append((gi, "B"))
    res = dvb.run_scripts(drv, scripts, timeout=600, workers=8)
    for (gi, which), r in zip(idx, res):
        groups[gi]["res" + which] = r
    scripts, idx = [], []
    for gi, g in enumerate(groups):
        oks = [o.get("ok") for o in g["resA"]["lines"] if o.get("a") == "send"]
        g["accepted"] = [f for f, ok in zip(g["frames"], oks) if ok]
        if g.get("plan"):
            keep = set(i for i, ok in enumerate(oks) if ok)
            scripts.append(reconf_script(g["cfg"], g["frames"], g["plan"], "cb", rawpar=g["rawpar"], keep=keep)); idx.append((gi, "C"))
            continue
        scripts.append(script(g["cfg"], g["accepted"], "cb", rawpar=g["rawpar"])); idx.append((gi, "C"))
        if g["resets"]:
            scripts.append(script(g["cfg"], g["frames"], "cb", rawpar=g["rawpar"], reset_before=g["resets"])); idx.append((gi, "D"))
    res = dvb.run_scripts(drv, scripts, timeout=600, workers=8)
    for (gi, which), r in zip(idx, res):
        groups[gi]["res" + which] = r
    # logs of the multiplexer runs
    jobs, jidx = [], []
    for gi, g in enumerate(groups):
        cfg = g["cfg"]
        g["recs"] = {}
        for which, frames, cmp in (("A", g["frames"], False), ("B", g["frames"], True), ("C", g["accepted"], True), ("D", g["frames"], False)):
            r = g.get("res" + which)
            if r is None:
                continue
            recs, outs, complete = log_of(cfg, frames, r, cmp)
            rp = replay_of(g)
            if r["stderr"]:
                core.report_sanitizers(ctx, r["stderr"], replay=rp, in_scope=False)
            if r["crashed"] or not complete:
                if r["crashed"] and r["rc"] == 95:
                    ctx.violate("watchdog", "hang:vbi_dvb_mux", "a multiplexer call did not return within 20 s (%s run %s)" % (g["label"], which), rp)
                else:
                    ctx.violate("crash", "crash:vbi_dvb_mux:rc=%s" % r["rc"], (r["stderr"] or "")[-1500:], rp)
                continue
            g["recs"][which] = recs
            if which in ("A", "D"):
                allb = [b for o in outs for b in o]
                if cfg["ts"]:
                    payload = [b for i in range(0, len(allb), 188) for b in allb[i + 4:i + 188]]       # dumb de-packetisation: cut at 188, drop 4
                    jobs.append((payload, "pes", 0)); jidx.append((gi, which))
                    if which == "A":
                        jobs.append((allb, "ts", cfg["pid"])); jidx.append((gi, which))
                else:
                    jobs.append((allb, "pes", 0)); jidx.append((gi, which))
    # phase 2: the demultiplexer on what was emitted
    for (gi, which), (rec, r) in zip(jidx, demux_records(drv, None, jobs)):
        g = groups[gi]
        if r["stderr"]:
            core.report_sanitizers(ctx, r["stderr"], replay=None, in_scope=False)
        if which in g["recs"]:
            g["recs"][which].append(rec)


def replay_of(g):
    rp = dict(cfg=g["cfg"], frames=[[fr, list(pts)] for fr, pts in g["frames"]], rawpar=g["rawpar"], bufs=g["bufs"], resets=list(g["resets"]), label=g["label"])
    if g.get("plan"):
        rp["plan"] = g["plan"]
    return rp


def validate(ctx, groups, tag, nfiles=8):
    files = [[] for _ in range(nfiles)]
    for gi, g in enumerate(groups):
        files[gi % nfiles].append(g)
    logs = []
    for i, gs in enumerate(files):
        if not gs:
            continue
        path = os.path.join(ctx.scratch, "dvbmux-%s-%d.ndjson" % (tag, i))
        where = []
        with open(path, "w") as f:
            for g in gs:
                for which in ("A", "B", "C", "D"):
                    if which == "B" and "A" not in g["recs"] or which == "C" and ("A" not in g["recs"] or "B" not in g["recs"]):
                        continue
                    for rec in g["recs"].get(which, []):
                        f.write(json.dumps(rec) + "\n"); where.append((g, which, rec))
                    if which in g["recs"]:
                        f.write(json.dumps(dict(a="done")) + "\n"); where.append((g, which, dict(a="done")))
        logs.append((path, where))

    def job(lw):
        return lw, tlc.validate_trace("Trace_DvbMux", "Trace_DvbMux", lw[0], timeout=1500, heap="2g", explain=False)
    n_ok = 0
    for (path, where), (ok, r) in core.pmap(job, logs, workers=8):
        if not ok and r.reject_at:
            ok, r = tlc.validate_trace("Trace_DvbMux", "Trace_DvbMux", path, timeout=1500, heap="2g", explain=True)     # sequential: shows the last matched state
        ctx.add_mc(r, "TV %s %s" % (tag, os.path.basename(path)))
        upto = len(where) if ok else max(0, (r.reject_at or 1) - 1)
        n_ok += len(set((id(g), which) for g, which, rec in where[:upto] if rec.get("a") == "done"))
        if ok:
            continue
        at = r.reject_at
        if not at or at > len(where):
            raise tlc.ToolFailure("trace validation failed outside the log: %s\n%s" % (path, (r.violation or {}).get("text", r.out[-1500:])))
        g, which, rec = where[at - 1]
        a = rec.get("a")
        key = "tv:%s:%s" % (a, ("accepted" if rec.get("ok") else "rejected") if a in ("send", "csend", "cpart") else rec.get("route", which))
        if a in ("send", "csend", "cpart") and which in ("B", "C"):
            key += ":cmp"
        short = {k: (v if k not in ("pk", "out", "d") else "... %d" % len(v)) for k, v in rec.items()}
        ctx.violate("tv", key, "log line %d (%s of run %s, %s) is not a step of DvbMux/DvbStream\n%s\ncfg %s\nlast matched state:%s" % (
            at, a, which, g["label"], json.dumps(short)[:1500], g["cfg"], r.last_state[:3500]), replay_of(g))
    return n_ok


def run(ctx):
    quick = ctx.tier == "quick"
    ctx.cov["rule"] = ("cases = runs of the real multiplexer over one frame sequence and configuration (callback / coroutine / without rejected frames / with resets) "
                       "whose emitted bytes and demultiplexed frames were validated against DvbStream/DvbMux; distinct by (configuration, frames, interface, buffers); "
                       "non-trivial = at least two accepted frames (one frame came back through the demultiplexer)")
    ctx.assumptions += ["service_mask = all services; the callback returns TRUE", "raw frames: 625 lines, YUV420/Y8, 13.5 MHz, lines 7-23 / 320-336",
                        "frames are recognisable for a receiver (first line <= 15, last line >= 16)"]
    import concurrent.futures as cf
    mcs = ["MC_DvbMux_q", "MC_DvbMux_rq"] if quick else ["MC_DvbMux_t", "MC_DvbMux_t3", "MC_DvbMux_rt"]
    with cf.ThreadPoolExecutor(1) as ex:
        fut = ex.submit(lambda: [tlc.run("MC_DvbMux", m, timeout=600 if quick else 3000, workers=4 if quick else 8, heap="6g") for m in mcs])
        drv = build.build_driver("drv_dvb")
        groups = build_groups(ctx, quick) + reconf_groups(ctx, quick)
        run_groups(ctx, drv, groups)
        n_ok = validate(ctx, groups, "q" if quick else "t", nfiles=8 if quick else 16)
        rs = fut.result()
    for m, r in zip(mcs, rs):
        ctx.add_mc(r, m)
        if r.violation:
            ctx.violate("mc", "mc:%s:%s" % (r.violation["kind"], r.violation["name"]), r.violation["text"][:3000])
    ctx.validated(n_ok)
    for g in groups:
        for which in g["recs"]:
            nacc = sum(1 for o in g["recs"][which] if o.get("a") in ("send", "csend") and o.get("ok") or o.get("a") == "cpart" and o.get("ok") and o.get("left") == 0)
            ctx.count_case([g["cfg"], [[x["line"], x["id"]] for fr, _ in g["frames"] for x in fr], which, (g["bufs"] or g.get("plan")) if which == "B" else None,
                            [[p["pre"], [s for _, ss in p["parts"] for s in ss]] for p in g["plan"]] if g.get("plan") else None], nontrivial=nacc >= 2)
    def nacc(g):
        return sum(1 for o in g["recs"].get("A", []) if o.get("a") == "send" and o.get("ok"))
    good = [g for g in groups if nacc(g) >= 3 and nacc(g) < len(g["frames"]) and not g.get("plan")]
    for g in good[:1] + [g for g in groups if g["label"].startswith("raw line too big")][:1] + [g for g in groups if g.get("plan") and nacc(g) >= 3 and g["cfg"]["ts"]][:1]:
        a = g["recs"].get("A", [])
        ctx.sample(dict(case=g["label"], cfg=g["cfg"], frames=[[x["line"] for x in fr] for fr, _ in g["frames"]],
                        **(dict(coroutine_plan=g["plan"], coroutine_calls=[[o["b"], len(o["out"]), o["left"]] for o in g["recs"].get("B", []) if o.get("a") == "cpart"],
                                setters=[{k: o[k] for k in o if k != "a"} for o in g["recs"].get("B", []) if o.get("a") in ("setdid", "setsize")]) if g.get("plan") else {}),
                        accepted=[o.get("ok") for o in a if o.get("a") == "send"],
                        packet_bytes=[sum(len(p) for p in o["pk"]) for o in a if o.get("a") == "send"],
                        demuxed=[[len(f["lines"]) for f in o["d"]] for o in a if o.get("a") == "demux"]))
    ctx.cov["exhaustive"] = False


def replay(ctx, rp):
    drv = build.build_driver("drv_dvb")
    r = rp["replay"]
    g = dict(cfg=r["cfg"], frames=[(fr, tuple(pts)) for fr, pts in r["frames"]], rawpar=tuple(r["rawpar"]) if r.get("rawpar") else None,
             bufs=r["bufs"], resets=tuple(r.get("resets", ())), label=r.get("label", "replay"), plan=r.get("plan"))
    run_groups(ctx, drv, [g])
    for which in sorted(g["recs"]):
        for rec in g["recs"][which]:
            short = {k: (v if k not in ("pk", "out", "d", "frame") else ("%d bytes" % sum(len(p) for p in v) if k == "pk" else "%d" % len(v))) for k, v in rec.items()}
            print(which, json.dumps(short)[:300])
    validate(ctx, [g], "replay", nfiles=1)
