"""C14 - PIL to time conversion picks the right year and instant and leaves TZ alone.
spec/PilTime.tla: civil calendar, label layout, nearest-year rule, LtoToTime / LtoWindow / PtyWindow on instants
  [era, day, second] (a time_t does not fit TLC integers), the relational postcondition for zones of the C library's
  database, actions SetTZ / Announce / Call with the frame condition tz' = tz.
MC:  FieldsOK, NearestYear, FailsOK, WindowOK, PtyOK, RelationalOK, FrameTZ over the reference grid x offsets x labels;
     CalendarOK / LayoutOK (inverse, closed form = definition, anchors, label layout); 32 bit and far-range variants.
GEN: spec/Gen_PilTime.tla prints the grid (references, offsets, zones) the recorder is driven over.
TV:  harness/drv_piltime.c calls the five real functions and logs result, errno, TZ and the C library's zone state before
     and after, and localtime_r's views for zone names; spec/Trace_PilTime.tla validates every line."""
import json, os, re, datetime
from vlib import tlc, build, core

MANIFEST = dict(
    level="model_checking",
    engine="tlc-mc+trace-validation",
    technique="TLA+ spec PilTime (civil calendar, nearest-year rule, offset arithmetic on [era, day, second] instants, EN 300 231 validity "
              "windows, TZ as a state variable with the frame condition on every call) checked exhaustively by TLC over the reference grid; "
              "the real vbi_pil_lto_to_time, vbi_pil_to_time, vbi_pty_validity_window, vbi_pil_lto_validity_window and "
              "vbi_pil_validity_window are bound by trace validation: a recorder logs result, errno, getenv(TZ) and tzname/timezone/localtime "
              "probes before and after each call, TLC accepts a line only if it equals the specified outcome (fixed offsets and zones) or "
              "satisfies the relational postcondition over localtime_r's views (zones of the database) and tz' = tz",
    text="TLC checks on the specification, for all valid (month, day) x hours {0,12,23} x minutes {0,59}, references first/15th/last day of "
         "every month of 1970, 1999, 2000, 2037, 2038, 2100 and offsets -14 h .. +14 h, +-5 h 45 min: the converted time shows the label's "
         "fields in the zone, lies 6 months before to 5 months after the reference month (within -215 / +184 days), 29 February only in leap "
         "years, invalid labels fail, windows contain the start, begin < end, 28 h / 32 h long, PTY windows end at 04:00 29 days later; the "
         "calendar operators are inverse to each other over the whole 400 year cycle. The recorded calls of the real functions (label subsets "
         "and, thorough, all 2^20 labels; the same grid; zones UTC, CET-1CEST, Europe/London, America/St_Johns, fixed POSIX zones, \"\", A=B, "
         "NULL; TZ unset / set; references at the ends of the time_t range) are validated line by line against the specification, including "
         "TZ and the zone state after every call.",
    note="The year rule is the documented one (month granularity), so a label can lie up to 214 days before the reference; the design's "
         "+-184 days holds only after the reference. Where the header documentation and Annex F disagree (real date with unreal time, "
         "29 February of a common year in the window functions, zone names \"\" and A=B) either documented outcome is accepted. The C "
         "library's zone database and localtime_r are trusted. A reference of (time_t) -1 (= now) is not explored.",
)

# ----------------------------------------------------------------------------- label sets (month, day, hour, minute bit masks)
def mask(bits):
    m = 0
    for b in bits:
        m |= 1 << b
    return m


M12 = mask(range(1, 13))
SETS = dict(
    ALL=(0xffff, 0xffffffff, 0xffffffff, (1 << 64) - 1),
    SUB=(0xffff, 0xffffffff, mask([0, 3, 4, 12, 23, 24, 31]), mask([0, 59, 60, 63])),
    VALL=(M12, mask(range(1, 32)), mask([0, 12, 23]), mask([0, 59])),
    V6=(M12, mask([1, 15, 28, 29, 30, 31]), mask([0, 12, 23]), mask([0, 59])),
    V3=(M12, mask([1, 29, 31]), mask([0, 23]), mask([0, 59])),
    GAP=(mask([3, 4, 10]), mask([2, 12, 26, 29]), mask([0, 1, 2]), mask([0, 30, 59])),
    TINY=(mask([2, 3, 10]), mask([29]), mask([0, 12]), mask([0])),
)


def bits_of(m):
    return [i for i in range(64) if m >> i & 1]


def count(ms):
    return len(bits_of(ms[0])) * len(bits_of(ms[1])) * len(bits_of(ms[2])) * len(bits_of(ms[3]))


def split(ms, limit):
    """split a label set into pieces of at most `limit` labels (by month, then by day)"""
    if count(ms) <= limit:
        return [ms]
    out = []
    for mo in bits_of(ms[0]):
        one = (1 << mo, ms[1], ms[2], ms[3])
        if count(one) <= limit:
            out.append(one)
        else:
            for da in bits_of(ms[1]):
                out.append((1 << mo, 1 << da, ms[2], ms[3]))
    return out


def pils(ms):
    """labels in the order the recorder enumerates them"""
    for mo in bits_of(ms[0]):
        for da in bits_of(ms[1]):
            for hh in bits_of(ms[2]):
                for mi in bits_of(ms[3]):
                    yield (mo, da, hh, mi)


LTO = ("lto_to_time", "lto_win")


def ccmd(fn, ms, arg):
    return "C %s %x %x %x %x %s" % (fn, ms[0], ms[1], ms[2], ms[3], arg)


def inst(y, mo, d, hh=0, mi=0, ss=0):
    """an input instant as [era, day, second] (selection of inputs only)"""
    days = (datetime.date(y, mo, d) - datetime.date(1970, 1, 1)).days
    return (days // 146097, days % 146097, hh * 3600 + mi * 60 + ss)


class Unit:
    """one ambient TZ value, one reference, a list of (fn, label set, arg)"""
    def __init__(self, amb, ref, calls):
        self.amb, self.ref, self.calls = amb, tuple(ref), calls

    def lines(self):
        return ["Z " + self.amb, "A %d %d %d" % self.ref] + [ccmd(fn, ms, arg) for fn, ms, arg in self.calls]

    def ncalls(self):
        return sum(1 if fn == "pty_win" else count(ms) for fn, ms, arg in self.calls)


def units_for(tier, grid):
    refs = [(r["e"], r["d"], r["s"]) for r in grid["refs"]]
    offs = grid["offs"]
    far = [(r["e"], r["d"], r["s"]) for r in grid["far"] if (r["e"], r["d"], r["s"]) != (-1, 146096, 86399)]    # (time_t) -1 = now
    fixed = grid["zones"]
    S = SETS
    out = []
    quick = tier == "quick"
    leap, eve = inst(2000, 2, 29, 12), inst(1999, 12, 31, 23, 59, 59)
    # 1. label edges (invalid months, days, hours, minutes; service codes) at two references
    for ref, off in ((leap, 3600), (eve, -20700)):
        for fn in LTO:
            for part in split(S["SUB"], 15000):
                out.append(Unit("U", ref, [(fn, part, str(off))]))
    # 2. the grid of the model
    lab = S["V3"] if quick else S["V6"]
    woffs = [-20700, 0, 50400] if quick else offs
    for ref in refs:
        out.append(Unit("U", ref, [("lto_to_time", lab, str(o)) for o in offs] + [("lto_win", S["V3"], str(o)) for o in woffs]))
    # 3. zone names, TZ unset
    zones = ["N", "SUTC", "SCET-1CEST", "SEurope/London", "SAmerica/St_Johns"] + sorted(grid["reject"]) + sorted(z for z in fixed if z != "SUTC")
    zrefs = [(0, 0, 0), inst(1970, 6, 30, 23, 59, 59), inst(2000, 3, 26, 0, 30), inst(2000, 4, 2, 12), inst(2000, 10, 29, 1, 30), inst(2038, 1, 19, 3, 14, 7)]
    if not quick:
        zrefs += [inst(1999, 12, 31, 23, 59, 59), inst(2037, 7, 1), inst(2100, 2, 28, 12), inst(1971, 10, 31, 2)]
    zlab = S["V3"] if quick else S["V6"]
    for ref in zrefs:
        for z in zones:
            out.append(Unit("U", ref, [("to_time", zlab, z), ("win", zlab, z), ("pty_win", S["TINY"], z)]))
    for ref in (inst(2000, 3, 26, 0, 30), inst(2000, 4, 2, 12), inst(2000, 10, 29, 1, 30)):
        for z in ("SEurope/London", "SAmerica/St_Johns", "SCET-1CEST"):
            out.append(Unit("U", ref, [("to_time", S["GAP"], z), ("win", S["GAP"], z)]))
    # 4. TZ set: NULL zone follows it, named zones must restore it
    for amb in ("SUTC", "SCET-1CEST", "SEurope/London", "S", "SXYZ-5:45", "SAmerica/St_Johns"):
        for ref in (inst(1970, 1, 1), leap, inst(2038, 1, 19, 3, 14, 7)):
            calls = [("to_time", zlab, "N"), ("win", zlab, "N"), ("pty_win", S["TINY"], "N")]
            for z in zones:
                calls += [("to_time", S["TINY"], z), ("win", S["TINY"], z), ("pty_win", S["TINY"], z)]
            out.append(Unit(amb, ref, calls))
    # 5. ends of the time_t range, limit of struct tm, the epoch
    for ref in far:
        calls = []
        for o in (-3600, 0, 3600):
            calls += [("lto_to_time", S["V3"], str(o)), ("lto_win", S["V3"], str(o))]
        for z in ("SUTC", "SEurope/London", "SXYZ-5:45"):
            calls += [("to_time", S["V3"], z), ("win", S["V3"], z), ("pty_win", S["TINY"], z)]
        out.append(Unit("U", ref, calls))
    if not quick:
        # 6. every label
        for fn, amb, ref, arg in (("lto_to_time", "U", leap, "3600"), ("lto_win", "U", inst(2037, 12, 31, 23, 59, 59), "-20700"),
                                  ("to_time", "SCET-1CEST", leap, "SEurope/London"), ("win", "U", leap, "SAmerica/St_Johns")):
            for part in split(S["ALL"], 17000):
                out.append(Unit(amb, ref, [(fn, part, arg)]))
        # 7. all valid days on part of the grid
        for ref in refs[::9]:
            out.append(Unit("U", ref, [("lto_to_time", S["VALL"], str(o)) for o in offs[::3]]))
    return out


def chunks_of(units, limit=20000):
    out, cur, n = [], [], 0
    for u in units:
        k = u.ncalls()
        if cur and n + k > limit:
            out.append(cur); cur, n = [], 0
        cur.append(u); n += k
    if cur:
        out.append(cur)
    return out


# ----------------------------------------------------------------------------- validation of one chunk
def where_of(ref):
    days = ref[0] * 146097 + ref[1]
    if days <= 216:
        return "upto-1970"          # the reference or a label within the year rule's reach lies before 1970-01-01
    return "mid" if ref[0] <= 1 else "far-future"


def key_of(ev, ref):
    if ev["e0"] != ev["e1"] or ev["s0"] != ev["s1"]:
        got = "tz-changed"
    else:
        got = "ok" if ev["ok"] else "fail"
    return "tv:%s:%s:%s" % (ev["fn"], got, where_of(ref))


def explain(scratch, tag, three):
    p = os.path.join(scratch, "explain-%s.ndjson" % tag)
    open(p, "w").write("\n".join(three) + "\n")
    try:
        r = tlc.run("Trace_PilTime", "Trace_PilTime_explain", env={"TRACEFILE": p}, workers=1, deadlock=False, timeout=120, heap="1g")
        m = re.search(r'<<\s*"TV-EXPECT",(.*?)>>\n(?=\S)', r.out, re.S)
        return re.sub(r"\s+", " ", m.group(1)).strip() if m else "(no explanation)"
    except tlc.ToolFailure as ex:
        return "(no explanation: %s)" % str(ex)[:200]


def validate_lines(scratch, tag, lines, max_rounds=6):
    """lines: recorder output (SetTZ / Announce / Call).  Returns (accepted calls, violations, tlc results)."""
    accepted, viol, runs = 0, [], []
    remaining = lines
    rounds = 0
    while remaining:
        rounds += 1
        p = os.path.join(scratch, "tv-%s-%d.ndjson" % (tag, rounds))
        open(p, "w").write("\n".join(remaining) + "\n")
        ok, r = tlc.validate_trace("Trace_PilTime", "Trace_PilTime", p, timeout=900, heap="3g", explain=False)
        os.remove(p)
        runs.append(r)
        ncall = lambda ls: sum(1 for x in ls if x.startswith('{"a":"Call"'))
        if ok:
            accepted += ncall(remaining)
            break
        n = r.reject_at
        if not n or n > len(remaining):
            raise tlc.ToolFailure("trace validation failed without a rejected line:\n" + r.out[-2000:])
        accepted += ncall(remaining[:n - 1])
        tzl = [x for x in remaining[:n - 1] if x.startswith('{"a":"SetTZ"')][-1]
        anl = [x for x in remaining[:n - 1] if x.startswith('{"a":"Announce"')][-1]
        bad = remaining[n - 1]
        ev = json.loads(bad)
        if ev.get("a") != "Call":
            raise tlc.ToolFailure("trace validation rejected a non-call line: " + bad)
        ref = tuple(json.loads(anl)["ref"])
        key = key_of(ev, ref)
        cur = json.loads(tzl)["v"]
        detail = "rejected: %s\n  TZ=%s reference=%s\n  specification: %s" % (bad[:900], cur, list(ref), explain(scratch, tag, [tzl, anl, bad]))
        viol.append((key, detail, dict(tz=cur, ref=list(ref), fn=ev["fn"], pil=ev["pil"], arg=ev["arg"], log=[tzl, anl, bad])))
        if rounds >= max_rounds:
            break
        # go on behind the rejected line; lines with the same signature are not looked at again
        if ev["e1"] != cur:
            tzl = json.dumps(dict(a="SetTZ", v=ev["e1"]), separators=(",", ":"))     # same spelling as the recorder (startswith tests above)
        rest, r_ref = [], ref
        for x in remaining[n:]:
            if x.startswith('{"a":"Announce"'):
                r_ref = tuple(json.loads(x)["ref"])
            elif x.startswith('{"a":"Call"') and key_of(json.loads(x), r_ref) == key:
                continue
            rest.append(x)
        remaining = [tzl, anl] + rest if rest else []
    return accepted, viol, runs


def run_chunk(args):
    drv, scratch, tag, units = args
    text = "R\n" + "\n".join(ln for u in units for ln in u.lines()) + "\n"
    rc, so, se, to = core.run_driver([drv], text, timeout=900, env=build.san_env())
    lines = [ln for ln in so.split("\n") if ln.startswith('{"a"')]
    if '{"error"' in so or to or (rc != 0 and not core.sanitizer_reports(se)):
        raise tlc.ToolFailure("recorder failed (rc=%s timeout=%s): %s %s" % (rc, to, [l for l in so.split("\n") if "error" in l][:3], se[-800:]))
    expect = sum(u.ncalls() for u in units)
    ncalls = sum(1 for x in lines if x.startswith('{"a":"Call"'))
    if ncalls != expect and rc == 0:
        raise tlc.ToolFailure("recorder printed %d calls, %d expected" % (ncalls, expect))
    accepted, viol, runs = validate_lines(scratch, tag, lines)
    return dict(ncalls=ncalls, accepted=accepted, viol=viol, runs=runs, stderr=se, sample=lines[2] if len(lines) > 2 else "")


def account(ctx, units):
    for u in units:
        pre = "%s|%d,%d,%d|" % ((u.amb,) + u.ref)
        for fn, ms, arg in u.calls:
            if fn == "pty_win":
                ctx.count_case(pre + fn + "|" + arg, nontrivial=True)
                continue
            for (mo, da, hh, mi) in pils(ms):
                ctx.count_case("%s%s|%d.%d.%d.%d|%s" % (pre, fn, mo, da, hh, mi, arg),
                               nontrivial=(1 <= mo <= 12 and da >= 1 and (fn in ("lto_win", "win") or (hh < 24 and mi < 60))))


MC_QUICK = [("MC_PilTime_q", 8), ("MC_PilTime_edge", 4), ("MC_PilTime_far", 2), ("MC_PilTime_32", 2), ("MC_PilTime_tz", 2), ("MC_PilTime_calq", 2)]
MC_THOROUGH = [("MC_PilTime_edge", 3), ("MC_PilTime_far", 2), ("MC_PilTime_32", 2), ("MC_PilTime_tz", 1), ("MC_PilTime_cal", 2)]


def run(ctx):
    quick = ctx.tier == "quick"
    ctx.cov["rule"] = ("cases = recorded calls of the five real functions (ambient TZ, reference, function, label, offset or zone), each validated by TLC "
                       "against PilTime; distinct by these inputs; non-trivial = the label has a real month and day (conversion or window is computed)")
    ctx.assumptions += ["the C library's zone database, localtime_r and tzset are trusted (relational postcondition for database zones)",
                        "signed 64 bit time_t; a reference of (time_t) -1 means `now` and is not explored",
                        "where header documentation and EN 300 231 Annex F disagree either documented outcome is accepted (see MANIFEST note)"]
    drv = build.build_driver("drv_piltime")

    def mc(job):
        cfg, w = job
        return cfg, tlc.run("MC_PilTime", cfg, timeout=3000, workers=w, heap="4g")
    jobs = MC_QUICK if quick else MC_THOROUGH
    for cfg, r in core.pmap(mc, jobs, workers=len(jobs)):
        ctx.add_mc(r, cfg)
        if r.violation:
            ctx.violate("mc", "mc:%s:%s" % (r.violation["kind"], r.violation["name"]), cfg + "\n" + r.violation["text"][:3000])
    if not quick:
        r = tlc.run("MC_PilTime", "MC_PilTime_t", timeout=3000, workers=16, heap="8g")
        ctx.add_mc(r, "MC_PilTime_t")
        if r.violation:
            ctx.violate("mc", "mc:%s:%s" % (r.violation["kind"], r.violation["name"]), r.violation["text"][:3000])

    g = tlc.run("Gen_PilTime", "Gen_PilTime_q" if quick else "Gen_PilTime_t", timeout=300, collect_tr=True, workers=2, heap="1g")
    if g.violation or len(g.tr) != 1:
        raise tlc.ToolFailure("grid generation failed: " + str(g.violation))
    grid = g.tr[0]
    drv = build.build_driver("drv_piltime")      # again: a no-op unless the build directory was cleaned meanwhile
    units = units_for(ctx.tier, grid)
    chunks = chunks_of(units)
    res = core.pmap(run_chunk, [(drv, ctx.scratch, str(i), c) for i, c in enumerate(chunks)], workers=16)
    tv = dict(distinct=0, generated=0, wall=0.0, n=0)
    for c, o in zip(chunks, res):
        account(ctx, c)
        ctx.validated(o["accepted"])
        for r in o["runs"]:
            tv["distinct"] += r.distinct; tv["generated"] += r.generated; tv["wall"] += r.wall; tv["n"] += 1
            ctx.cov["states"] += r.distinct; ctx.cov["transitions"] += r.generated
        if o["stderr"]:
            core.report_sanitizers(ctx, o["stderr"], in_scope=False)
        for key, detail, rp in o["viol"]:
            ctx.violate("tv", key, detail, rp)
        if o["sample"]:
            ctx.sample(dict(source="recorded call accepted by Trace_PilTime", line=json.loads(o["sample"])))
    ctx.cov["mc_runs"].append(dict(run="TV Trace_PilTime x %d logs" % tv["n"], distinct=tv["distinct"], generated=tv["generated"],
                                   depth=0, wall_s=round(tv["wall"], 1), cmd=res[0]["runs"][0].cmd if res and res[0]["runs"] else ""))
    ctx.cov["exhaustive"] = True            # TLC explores the whole stated grid; thorough also records all 2^20 labels


def replay(ctx, rp):
    drv = build.build_driver("drv_piltime")
    r = rp["replay"]
    pil = r["pil"]
    ms = (1 << ((pil >> 11) & 15), 1 << ((pil >> 15) & 31), 1 << ((pil >> 6) & 31), 1 << (pil & 63))     # addressing the recorder's masks
    u = Unit(r["tz"], r["ref"], [(r["fn"], ms, str(r["arg"]))])
    rc, so, se, to = core.run_driver([drv], "R\n" + "\n".join(u.lines()) + "\n", timeout=120, env=build.san_env())
    lines = [ln for ln in so.split("\n") if ln.startswith('{"a"')]
    for ln in lines:
        print(ln)
    accepted, viol, runs = validate_lines(ctx.scratch, "replay", lines)
    for key, detail, rp2 in viol:
        print(detail)
        ctx.violate("tv", rp["key"], detail, rp2)
