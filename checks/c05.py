"""C05 - raw decoding never touches memory outside the raw image or the output array.
spec/SlicerBounds.tla: the accesses of one bit slicer call (scan steps, run-in complete at any step, framing code match or not,
  data bits at n + ((phase_shift + k*step) >> 8) with interpolation neighbour / 16 sample low-pass window); the numbers of
  every configuration are the fields of the REAL configured object (vbi3_bit_slicer_set_params / vbi_bit_slicer_init), dumped
  by harness/drv_rawdec.c.  Invariants LineBound, ImageBound, WriteBound, ChannelOk, action property Rightward.
MC:  TLC explores every (configuration, scan step, data bit) of the grid services x rates x line lengths x pixel layouts x
     {new, new with sample offset, legacy} and a survey run lists every scan step at which the line bound is exceeded.
REPLAY: every configuration is executed on the real slicer with an exactly sized line directly in front of an inaccessible
     page: the service's reference waveform (library transmitter) moved sample by sample across the end of the search range,
     noise, constant levels and square waves; a trapped access is compared with the model (must be predicted, same address);
     worst cases again on exactly sized heap blocks under ASan; the raw decoder (both interfaces) with exactly sized images,
     the service on the last / first row, output array of exactly max_lines records in front of an inaccessible page."""
import os, json, shutil, random
from vlib import tlc, build, core

MANIFEST = dict(
    level="model_checking",
    engine="tlc-mc+replay",
    technique="TLA+ spec SlicerBounds (access pattern of the bit slicer; constants = fields of the real configured slicer objects) "
              "checked exhaustively by TLC for every scan position and data bit of a grid of configurations; every configuration "
              "replayed on the real slicers and raw decoders with exactly sized buffers in front of PROT_NONE pages and on exactly "
              "sized heap blocks under ASan, trapped accesses compared with the model's prediction",
    text="For each configuration of the grid (16 services of the library's table x sampling rates 3..35.5 MHz x line lengths "
         "minimal, +1, +100, nominal x 7 pixel layouts x new slicer with and without sample offset and the legacy slicer) TLC explores "
         "all run-in positions the search loop can reach and all framing/payload bits and checks that no sample at or behind "
         "samples_per_line is read (LineBound), nothing behind the image (ImageBound), no more than ceil(payload/8) bytes are stored "
         "(WriteBound) and that the accesses move rightwards (so the last bit is the worst). The same configurations are run on the "
         "real code with guard pages: reference waveforms shifted sample by sample over the end of the search range, noise, saturated "
         "and square wave lines; image level with the signal on the last and on the first row, records counted against max_lines.",
    note="The model takes the slicer's integer parameters from the real object, so it decides the bound for these parameters, not "
         "the floating point computation that produced them (that is covered by running the grid). Sampling rates between the grid "
         "points are not covered. VBI_SLICED_2xCAPTION_525 has no reference transmitter (noise / square waves only).",
)

NAMES = {0x2000: "TTX_A", 1: "TTX_B_L10", 3: "TTX_B", 0x4000: "TTX_C_625", 0x8000: "TTX_D_625", 4: "VPS", 0x1000: "VPS_F2",
         0x400: "WSS_625", 8: "CC_625_F1", 0x10: "CC_625_F2", 0x10000: "TTX_B_525", 0x100: "TTX_C_525", 0x20000: "TTX_D_525",
         0x20: "CC_525_F1", 0x40: "CC_525_F2", 0x80: "CC2X_525"}
NO_TX = {0x80}
BLANK_IDS = {0x20000000, 0x40000000}
NOMINAL = {3000000: 176, 13500000: 720, 27000000: 1440, 35468950: 2048}
FIELDS = ["lp", "skip", "bps", "wide", "scan", "phase_shift", "step", "frc_bits", "payload", "endian", "spl", "soff", "after"]
ENV = dict(ASAN_OPTIONS="detect_leaks=0:abort_on_error=0:exitcode=99:allocator_may_return_null=1")


def env():
    return build.san_env(ENV)


def drv_batch(drv, cmds, timeout=900):
    """one process, one sequence; -> list of json answers (without the reset line)"""
    r = core.run_seq_driver([drv], [cmds], timeout=timeout, env=env())[0]
    return r


def nominal_spl(rate):
    return NOMINAL.get(rate, (int(rate * 53.33e-6) + 1) & ~1)


def payload_of(svc, seed):
    rnd = random.Random(seed * 1000003 + svc["id"])
    n = (svc["payload"] + 7) // 8
    return "".join("%02x" % rnd.randrange(256) for _ in range(n))


def fmt_classes(table):
    """representative format per access layout class, and all formats"""
    return table["formats"]


def grid(ctx, table):
    """-> list of configuration requests dict(api, fmt, rate, base, delta, soff, svc)"""
    quick = ctx.tier == "quick"
    svcs = [s for s in table["services"] if s["id"] not in BLANK_IDS]
    fm = {f["fmt"]: f for f in table["formats"]}
    Y8, UYVY, RGB16LE, RGB16BE, RGBA_BE, RGBA_LE, RGB24, YUYV = 1, 4, 38, 39, 33, 32, 36, 2
    out = []
    if quick:
        rates = [13500000, 27000000]
        for s in svcs:
            rr = list(rates) + ([3000000] if max(s["cri_rate"], s["bit_rate"]) <= 1100000 else [])
            for rate in rr:
                for spl in ("min+1", "nom"):
                    for api, soff in (("new", 0), ("new", 5), ("old", 0)):
                        out.append(dict(api=api, fmt=Y8, rate=rate, spl=spl, soff=soff, svc=s["id"]))
            for fmt in (UYVY, RGB16LE, RGBA_BE):
                for api in ("new", "old"):
                    out.append(dict(api=api, fmt=fmt, rate=27000000, spl="nom", soff=0, svc=s["id"]))
    else:
        rates = [3000000, 6750000, 13500000, 14318180, 14750000, 17734475, 27000000, 28636363, 35468950]
        for s in svcs:
            for rate in rates:
                for spl in ("min", "min+1", "min+100", "nom"):
                    for api, soff in (("new", 0), ("new", 5), ("old", 0)):
                        out.append(dict(api=api, fmt=Y8, rate=rate, spl=spl, soff=soff, svc=s["id"]))
            for fmt in sorted(fm):
                if fmt == Y8:
                    continue
                for rate in (13500000, 27000000, 35468950):
                    for spl in ("min", "nom"):
                        for api in ("new", "old"):
                            out.append(dict(api=api, fmt=fmt, rate=rate, spl=spl, soff=0, svc=s["id"]))
    return out


def resolve(ctx, drv, table, reqs):
    """ask the real slicer: smallest accepted line length per (service, rate, soff), then the fields of every configuration"""
    svc = {s["id"]: s for s in table["services"]}
    fm = {f["fmt"]: f for f in table["formats"]}
    keys = sorted({(r["svc"], r["rate"], r["soff"]) for r in reqs})
    probes, cmds = [], []
    for (sid, rate, soff) in keys:
        s = svc[sid]
        if s["cri_rate"] > rate or s["bit_rate"] > rate:
            continue
        est = int(rate * s["cri_bits"] / s["cri_rate"]) + int(rate * (s["frc_bits"] + s["payload"]) / s["bit_rate"]) + soff
        for spl in range(max(1, est - 4), est + 5):
            probes.append(((sid, rate, soff), spl))
            cmds.append("D new 1 %d %d %d %x" % (rate, spl, soff, sid))
    res = drv_batch(drv, cmds)
    if len(res["lines"]) != len(cmds):
        raise tlc.ToolFailure("driver answered %d of %d probes: %s" % (len(res["lines"]), len(cmds), res["stderr"][-500:]))
    minspl = {}
    for (k, spl), o in zip(probes, res["lines"]):
        if o.get("ok") and (k not in minspl or spl < minspl[k]):
            minspl[k] = spl
    cfgs, cmds = [], []
    seen = set()
    for r in reqs:
        k = (r["svc"], r["rate"], r["soff"])
        if k not in minspl:
            continue                      # sampling rate below the service's clock: no valid configuration
        m = minspl[k]
        spl = dict(min=m, nom=max(nominal_spl(r["rate"]), m)).get(r["spl"])
        if spl is None:
            spl = m + int(r["spl"].split("+")[1])
        bpp = fm[r["fmt"]]["bpp"]
        if fm[r["fmt"]]["yuv"] and bpp == 2 and (spl & 1):
            spl += 1                      # the library transmitter writes YUYV pixel pairs
        if spl > 32767:
            continue
        c = dict(api=r["api"], fmt=r["fmt"], rate=r["rate"], spl=spl, soff=r["soff"], svc=r["svc"])
        sig = json.dumps(c, sort_keys=True)
        if sig in seen:
            continue
        seen.add(sig)
        cfgs.append(c)
        cmds.append("D %s %d %d %d %d %x" % (c["api"], c["fmt"], c["rate"], c["spl"], c["soff"], c["svc"]))
    res = drv_batch(drv, cmds)
    if len(res["lines"]) != len(cmds):
        raise tlc.ToolFailure("driver answered %d of %d configuration dumps: %s" % (len(res["lines"]), len(cmds), res["stderr"][-500:]))
    if res["stderr"]:
        core.report_sanitizers(ctx, res["stderr"], in_scope=False)
    out = []
    for c, o in zip(cfgs, res["lines"]):
        if not o.get("ok") or o["scan"] <= 0:
            continue
        c["obj"] = o
        f = fm[c["fmt"]]
        c["rec"] = dict(lp=o["lp"], skip=o["skip"], bps=f["bpp"], wide=1 if (f["bpp"] == 2 and not f["yuv"]) else 0, scan=o["scan"],
                        phase_shift=o["phase_shift"], step=o["step"], frc_bits=o["frc_bits"], payload=o["payload"], endian=o["endian"],
                        spl=c["spl"], soff=c["soff"], after=0)
        if o["api"] == "new" and o["bps"] != f["bpp"]:
            raise tlc.ToolFailure("bytes_per_sample %s of the slicer differs from the pixel size %s" % (o["bps"], f["bpp"]))
        c["kind"] = "old" if c["api"] == "old" else ("lowpass" if o["lp"] else "new")
        c["name"] = NAMES.get(c["svc"], "%x" % c["svc"])
        out.append(c)
    return out


def write_model(ctx, recs, sub):
    d = os.path.join(ctx.scratch, sub)
    os.makedirs(d, exist_ok=True)
    for f in ("SlicerBounds.tla", "MC_SlicerBounds.tla", "MC_SlicerBounds.cfg", "MC_SlicerBounds_survey.cfg"):
        shutil.copy(os.path.join(tlc.SPEC, f), d)
    rows = ",\n  ".join("[" + ", ".join("%s |-> %d" % (k, r[k]) for k in FIELDS) + "]" for r in recs)
    open(os.path.join(d, "SlicerCfgs.tla"), "w").write("---- MODULE SlicerCfgs ----\nCfgList == <<\n  %s\n>>\n====\n" % rows)
    return d


def model_check(ctx, cfgs, label):
    """-> dict record index -> survey summary; every cfg gets c['mi'] (model index)"""
    idx, recs = {}, []
    for c in cfgs:
        for after in (0, c["spl"] * c["rec"]["bps"]):
            r = dict(c["rec"], after=after)
            t = tuple(r[k] for k in FIELDS)
            if t not in idx:
                idx[t] = len(recs) + 1
                recs.append(r)
            if after == 0:
                c["mi"] = idx[t]
            else:
                c["mi_first"] = idx[t]
    d = write_model(ctx, recs, "sb-" + label)
    mc = tlc.run("MC_SlicerBounds", "MC_SlicerBounds", timeout=1500, cwd=d, heap="12g")
    ctx.add_mc(mc, "MC SlicerBounds %s (%d configurations)" % (label, len(recs)))
    sv = tlc.run("MC_SlicerBounds", "MC_SlicerBounds_survey", timeout=1500, cwd=d, heap="12g", collect_tr=True)
    if sv.violation:
        v = sv.violation
        ctx.violate("mc", "mc:%s:%s" % (v["kind"], v["name"]), v["text"][:3000])
    ctx.add_mc(sv, "SURVEY SlicerBounds %s" % label)
    pred = {}
    for t in sv.tr:
        p = pred.setdefault(t["c"], dict(n=set(), fb=set(), ex=0, img=0, scan=0))
        p["n"].add(t["n"]); p["fb"].add(t["fb"]); p["ex"] = max(p["ex"], t["ex"]); p["img"] |= t["img"]
        if t["ph"] == "scan":
            p["scan"] = 1
    if mc.violation:
        v = mc.violation
        if v["name"] not in ("LineBound", "ImageBound"):
            ctx.violate("mc", "mc:%s:%s" % (v["kind"], v["name"]), v["text"][:3000])
        elif not pred:
            raise tlc.ToolFailure("invariant %s violated but the survey lists no position" % v["name"])
    elif pred:
        raise tlc.ToolFailure("survey lists bound violations but the invariants hold")
    return pred, mc


def sweep_cmds(c, svc, seed, quick):
    """driver lines for one configuration"""
    rate, spl, o = c["rate"], c["spl"], c["obj"]
    head = "%s %d %d %d %d %x" % (c["api"], c["fmt"], rate, spl, c["soff"], c["svc"])
    cmds = []
    if c["svc"] not in NO_TX:
        t0 = svc["offset"] * 1e-9 * rate                 # documented position of the signal, samples after 0H
        end = c["soff"] + o["scan"]                      # first sample the search does not look at
        run_in = min(spl, int(64.0 * rate / svc["cri_rate"]) + 64)
        lo, hi = int(t0) - (end + 24), int(t0) - max(0, end - run_in)
        cmds.append("L %s sig %d %d 1 %d %s" % (head, lo, hi, seed, payload_of(svc, seed)))
    cmds.append("L %s noise 0 %d 1 %d 00" % (head, 5 if quick else 40, seed))
    cmds.append("L %s sat 0 255 %d %d 00" % (head, 51 if quick else 5, seed))
    per = max(1, int(rate / svc["cri_rate"]))
    cmds.append("L %s sq 0 %d 1 %d 00" % (head, 2 * per + 2, seed))
    return cmds


def judge_line(ctx, c, p, answers, cmds, acc):
    """compare the trapped accesses of one configuration with the model's prediction p (None = within bounds)"""
    rp = dict(kind="line", cmds=cmds, cfg={k: c[k] for k in ("api", "fmt", "rate", "spl", "soff", "svc", "name", "kind")}, obj=c["obj"],
              predicted=None if p is None else dict(steps=sorted(p["n"]), first_byte=sorted(p["fb"]), excess=p["ex"]))
    faults = []
    for a, cmd in zip(answers, cmds):
        if "faults" not in a:
            raise tlc.ToolFailure("driver: %s -> %s" % (cmd, a))
        for (o, off, w) in a["faults"]:
            faults.append((cmd.split()[7], o, off, w))
    who = "%s:%s" % (c["kind"], c["name"])
    where = "%s %s fmt %d, %d Hz, %d samples/line, sample offset %d" % (c["api"], c["name"], c["fmt"], c["rate"], c["spl"], c["soff"])
    wr = [f for f in faults if f[3]]
    rd = [f for f in faults if not f[3]]
    c["sigfaults"] = [f[1] for f in rd if f[0] == "sig"]
    ok = True
    if wr:
        ok = False
        ctx.violate("replay", "overwrite:%s" % who, "%s: the slicer stored %d byte(s) behind a buffer of ceil(payload/8) bytes (%s)" %
                    (where, wr[0][2] + 1, wr[:3]), rp)
    if rd and p is None:
        ok = False
        ctx.violate("replay", "diverge:unpredicted-read:%s" % who,
                    "%s: the model keeps all accesses inside the line, the real slicer read %d byte(s) behind it: %s" % (where, rd[0][2] + 1, rd[:5]), rp)
    elif rd:
        wide = c["rec"]["wide"]
        odd = [f for f in rd if not any(f[2] in (b, b + wide) for b in p["fb"])]
        if odd:
            ok = False
            ctx.violate("replay", "diverge:read-address:%s" % who,
                        "%s: trapped read at line end + %s, the model predicts first bytes %s" % (where, sorted({f[2] for f in odd}), sorted(p["fb"])), rp)
        e = acc.setdefault(("overread", who), dict(ex=0))
        if p["ex"] > e["ex"]:
            e.update(ex=p["ex"], rp=rp, where=where, faults=rd[:6], n=sorted(p["n"]), cfg=c)
        ok = False
    elif p is not None:
        e = acc.setdefault(("model", who), dict(ex=0))
        if p["ex"] > e["ex"]:
            e.update(ex=p["ex"], rp=rp, where=where, faults=[], n=sorted(p["n"]), cfg=c)
        ok = False
    return ok, sum(a.get("n", 0) for a in answers), sum(a.get("good", 0) for a in answers)


def run_lines(ctx, drv, table, cfgs, pred, quick):
    svc = {s["id"]: s for s in table["services"]}
    jobs = [(c, sweep_cmds(c, svc[c["svc"]], ctx.seed, quick)) for c in cfgs]
    chunks = [jobs[i::16] for i in range(16)]

    def work(chunk):
        if not chunk:
            return []
        cmds = [x for (_, cm) in chunk for x in cm]
        r = drv_batch(drv, cmds)
        return [(chunk, r)]
    acc, nshift, ngood = {}, 0, 0
    for part in core.pmap(work, chunks):
        for chunk, r in part:
            lines = r["lines"]
            if r["stderr"]:
                core.report_sanitizers(ctx, r["stderr"], in_scope=r.get("crashed", False))
            if len(lines) != sum(len(cm) for _, cm in chunk):
                raise tlc.ToolFailure("driver stopped after %d answers: %s" % (len(lines), r["stderr"][-1500:]))
            i = 0
            for c, cm in chunk:
                ans = lines[i:i + len(cm)]; i += len(cm)
                p = pred.get(c["mi"])
                ok, n, g = judge_line(ctx, c, p, ans, cm, acc)
                nshift += n; ngood += g
                ctx.count_case(["line", c["api"], c["fmt"], c["rate"], c["spl"], c["soff"], c["svc"]], nontrivial=True)
                if ok:
                    ctx.validated()
    ctx.cov["lines_sliced"] = ctx.cov.get("lines_sliced", 0) + nshift
    ctx.cov["lines_decoded_correctly"] = ctx.cov.get("lines_decoded_correctly", 0) + ngood
    return acc


def report(ctx, acc, mc):
    trace = ""
    if mc is not None and mc.violation:
        trace = "\nTLC: " + mc.violation["text"][:300].replace("\n", " ")
    for (what, who), e in sorted(acc.items()):
        if what == "overread":
            ctx.violate("replay", "overread:%s:+%d" % (who, e["ex"]),
                        "%s: the model reaches %d byte(s) behind the line when the run-in completes at scan step %s of %d; the real slicer was "
                        "trapped reading behind the exactly sized line at (mode, sampling offset, byte behind the line, write) %s%s" %
                        (e["where"], e["ex"], e["n"], e["cfg"]["obj"]["scan"], e["faults"], trace), e["rp"])
        else:
            ctx.violate("mc", "model:LineBound:%s:+%d" % (who, e["ex"]),
                        "%s: invariant LineBound fails (%d byte(s) behind the line, run-in complete at scan step %s) for the parameters of the "
                        "real slicer object; no shifted reference waveform, noise or square wave line reached that step%s" %
                        (e["where"], e["ex"], e["n"], trace), e["rp"])


def asan_confirm(ctx, drv, table, acc):
    """the worst configuration of each over-read class once more on an exactly sized heap block"""
    svc = {s["id"]: s for s in table["services"]}
    jobs = []
    for (what, who), e in sorted(acc.items()):
        if what != "overread":
            continue
        c = e["cfg"]
        sig = [f for f in e["faults"] if f[0] == "sig"]
        if not sig:
            continue
        jobs.append((who, c, "A %s %d %d %d %d %x %d %s" % (c["api"], c["fmt"], c["rate"], c["spl"], c["soff"], c["svc"], sig[0][1],
                                                           payload_of(svc[c["svc"]], ctx.seed))))

    def work(j):
        return j, core.run_seq_driver([drv], [[j[2]]], env=build.san_env(), max_restarts=0)[0]
    for (who, c, cmd), r in core.pmap(work, jobs):
        ctx.count_case(["asan", cmd])
        rp = dict(kind="asan", cmds=[cmd])
        if core.report_sanitizers(ctx, r["stderr"], replay=rp, in_scope=True) == 0:
            ctx.notes.append("heap run of %s did not trap (threshold history differs from the sweep): %s" % (who, cmd))


# ---------------------------------------------------------------- image level
def image_jobs(ctx, table, cfgs, quick):
    """raw decoder on exactly sized images: service line on the last row and on the first row"""
    svc = {s["id"]: s for s in table["services"]}
    jobs = []
    for c in cfgs:
        if c["api"] != "new" or c["soff"] != 0 or c["svc"] in NO_TX:
            continue
        s = svc[c["svc"]]
        if quick and c["fmt"] != 1 and c["rate"] != 27000000:
            continue
        t0 = int(s["offset"] * 1e-9 * c["rate"])
        offs = sorted(set(c.get("sigfaults", [])))
        base = [t0 - (c["obj"]["scan"] - 1) + d for d in (-2, 0, 2)] if not offs else []
        sweep = sorted(set([o + d for o in offs[:6] for d in (-1, 0, 1)] + base + [t0 - 8]))
        f0, f1 = s["first"]
        l0, l1 = s["last"]
        for api in ("new", "old"):
            for pos in ("last", "first"):
                for il in ((0, 1) if (f0 and f1) else (0,)):
                    if f0 and f1:
                        # one row per field, the signal on the last image row = line of the second field
                        if pos == "last":
                            st = (l0, 1, l1, 1); line = l1
                        else:
                            st = (f0, 1, f1, 1); line = f0
                    elif f0:
                        st = (f0 - 1, 2, 0, 0) if pos == "last" else (f0, 2, 0, 0); line = f0
                    else:
                        st = (0, 0, f1 - 1, 2) if pos == "last" else (0, 0, f1, 2); line = f1
                    jobs.append(dict(c=c, api=api, pos=pos, il=il, st=st, line=line, sweep=sweep))
    return jobs


def image_cmds(j, svc, seed):
    c = j["c"]
    bpl = c["spl"] * c["rec"]["bps"]
    s = svc[c["svc"]]
    cmds = ["I %s %d %d %d %d %d %d %d %d %d 1" % (j["api"], c["fmt"], c["rate"], bpl, s["std"], j["st"][0], j["st"][1], j["st"][2], j["st"][3], j["il"]),
            "S add %x 0" % c["svc"]]
    pay = payload_of(s, seed)
    for o in j["sweep"]:
        cmds.append("F %d 0 1 0 1 %d:%x:%s" % (o, j["line"], c["svc"], pay))
    cmds += ["G 0 %d" % seed, "G 1 255", "G 1 0", "G 2 %d" % max(1, int(c["rate"] / s["cri_rate"]))]
    return cmds


def judge_image(ctx, j, p_last, p_first, ans, cmds, acc):
    c = j["c"]
    who = "image-%s:%s" % (j["api"], c["name"])
    rows = j["st"][1] + j["st"][3]
    where = "%s raw decoder, %s fmt %d, %d Hz, %d bytes/line, %d rows%s, signal on the %s row (line %d)" % (
        j["api"], c["name"], c["fmt"], c["rate"], c["spl"] * c["rec"]["bps"], rows, " interlaced" if j["il"] else "", j["pos"], j["line"])
    rp = dict(kind="image", cmds=cmds, where=where)
    if not ans or not ans[0].get("ok"):
        raise tlc.ToolFailure("raw decoder rejected valid sampling parameters: %s -> %s" % (cmds[0], ans[:1]))
    if ans[1].get("set", 0) & c["svc"] == 0:
        return None                                   # service not decodable with this geometry (checked by C04)
    p = p_last if j["pos"] == "last" else p_first
    predicted = bool(p and p["img"])
    ok = True
    got_fault = False
    for a, cmd in zip(ans[2:], cmds[2:]):
        if a.get("fault"):
            if a["write"]:
                ok = False
                ctx.violate("replay", "overwrite:%s" % who, "%s: store behind the output array of max_lines records (%s -> %s)" % (where, cmd, a), rp)
            elif not predicted:
                ok = False
                ctx.violate("replay", "diverge:unpredicted-read:%s" % who,
                            "%s: read %d byte(s) behind the image although the model keeps this row inside (%s)" % (where, a["off"] + 1, cmd), rp)
            else:
                got_fault = True
                e = acc.setdefault(("overread", who), dict(ex=0))
                if p["ex"] > e["ex"]:
                    e.update(ex=p["ex"], rp=rp, where=where, faults=[(cmd, a["off"])], n=sorted(p["n"]), cfg=c)
            continue
        if "n" not in a:
            raise tlc.ToolFailure("driver: %s -> %s" % (cmd, a))
        if a["n"] > rows or not a["rest"] or any(not r["tail"] for r in a["rec"]):
            ok = False
            ctx.violate("replay", "overwrite:%s" % who, "%s: %d records for %d rows, records behind the count untouched: %s, bytes behind the payload "
                        "untouched: %s (%s)" % (where, a["n"], rows, bool(a["rest"]), [r["tail"] for r in a["rec"]], cmd), rp)
    if got_fault:
        ok = False
    return ok


def run_images(ctx, drv, table, cfgs, pred, acc, quick):
    svc = {s["id"]: s for s in table["services"]}
    jobs = image_jobs(ctx, table, cfgs, quick)
    chunks = [jobs[i::16] for i in range(16)]

    def work(chunk):
        out = []
        if not chunk:
            return out
        seqs = [image_cmds(j, svc, ctx.seed) for j in chunk]
        res = core.run_seq_driver([drv], seqs, env=env(), timeout=900)
        return list(zip(chunk, seqs, res))
    for part in core.pmap(work, chunks):
        for j, cmds, r in part:
            if r.get("skipped"):
                continue
            if r["stderr"]:
                core.report_sanitizers(ctx, r["stderr"], replay=dict(kind="image", cmds=cmds), in_scope=r.get("crashed", False))
            if len(r["lines"]) != len(cmds):
                raise tlc.ToolFailure("driver stopped in %s: %s" % (cmds[0], r["stderr"][-1500:]))
            c = j["c"]
            ok = judge_image(ctx, j, pred.get(c["mi"]), pred.get(c["mi_first"]), r["lines"], cmds, acc)
            if ok is None:
                continue
            ctx.count_case(["image", j["api"], j["pos"], j["il"], c["fmt"], c["rate"], c["spl"], c["svc"]], nontrivial=True)
            if ok:
                ctx.validated()


def run(ctx):
    quick = ctx.tier == "quick"
    ctx.cov["rule"] = ("cases = configurations (interface, service, pixel format, sampling rate, samples per line, sample offset) whose real slicer "
                       "object was modelled by TLC and executed on guard pages (reference waveform at every sampling offset around the end of the "
                       "search range + noise, constant and square wave lines), plus raw decoder images (signal on the last / first row); "
                       "validated = model verdict and trapped accesses agree and nothing was trapped")
    ctx.assumptions += ["the page protection of the kernel and ASan are the monitors for accesses of the real code",
                        "service parameters are those of the library's own table (_vbi_service_table)",
                        "sampling rates between the grid points are not covered"]
    drv = build.build_driver("drv_rawdec")
    t = drv_batch(drv, ["T"])
    if not t["lines"]:
        raise tlc.ToolFailure("driver does not start: " + t["stderr"][-1000:])
    table = t["lines"][0]
    cfgs = resolve(ctx, drv, table, grid(ctx, table))
    if not cfgs:
        raise tlc.ToolFailure("no configuration accepted by the slicer")
    pred, mc = model_check(ctx, cfgs, ctx.tier)
    ctx.sample(dict(configuration={k: cfgs[0][k] for k in ("api", "fmt", "rate", "spl", "soff", "name")}, real_object=cfgs[0]["obj"],
                    model=cfgs[0]["rec"]))
    acc = run_lines(ctx, drv, table, cfgs, pred, quick)
    asan_confirm(ctx, drv, table, acc)
    run_images(ctx, drv, table, cfgs, pred, acc, quick)
    report(ctx, acc, mc)
    ctx.cov["exhaustive"] = True
    for (what, who), e in sorted(acc.items())[:2]:
        ctx.sample(dict(finding=what, where=e["where"], excess_bytes=e["ex"], run_in_complete_at=e["n"], trapped=e["faults"][:3]))


def replay(ctx, rp):
    drv = build.build_driver("drv_rawdec")
    r = rp["replay"]
    asan = r.get("kind") == "asan"
    res = core.run_seq_driver([drv], [r["cmds"]], env=build.san_env() if asan else env(), max_restarts=0)[0]
    bad = []
    for cmd, a in zip(r["cmds"], res["lines"]):
        print(cmd[:140], "->", json.dumps(a)[:400])
        if a.get("fault") or a.get("nfault"):
            bad.append((cmd, a))
    if res["stderr"]:
        print(res["stderr"][:3000])
        core.report_sanitizers(ctx, res["stderr"], replay=r, in_scope=True)
    if bad and not ctx.violations:
        ctx.violate("replay", rp["key"], "access outside the buffer trapped again: %s" % (bad[0],), r)
