"""C05 - raw decoding never touches memory outside the raw image or the output array.
spec/SlicerBounds.tla: the accesses of one bit slicer call (scan steps, run-in complete at any step, framing code match or not,
  data bits at n + ((phase_shift + k*step) >> 8) with interpolation neighbour / 16 sample low-pass window); the numbers of
  every configuration are the fields of the REAL configured object (vbi3_bit_slicer_set_params / vbi_bit_slicer_init), dumped
  by harness/drv_rawdec.c, the configuration is chosen in Init (one TLC run decides a list of configurations).
  Invariants LineBound, InnerBound, WriteBound, ChannelOk, RefusedIdle, action properties Rightward, ScanRight, CfgFixed.
  Short (cropped / truncated) lines are configurations like any other: samples_per_line / raw_samples from 1 up to and beyond
  what the service needs, both interfaces; vbi3_bit_slicer_set_params may refuse (ok = 0: action Refused, nothing read or
  stored) or must configure a search that stays inside, the void vbi_bit_slicer_init cannot refuse.  The search limit is
  dumped as a SIGNED number and the model applies the unsigned counter of the loops (Steps: a negative limit, or 0 in the
  low-pass slicer, wraps around), so a missing clamp is a LineBound violation.
spec/SlicerImage.tla: the loop of vbi3_raw_decoder_decode over the scan lines of an image (row pointer, interlaced layout,
  output array of max_lines records); RowInside, OwnRow, OutBound, OneEach, Result.
MC:  TLC explores every (configuration, scan step, data bit) of the grid services x rates x line lengths x pixel layouts x
     {new, new with sample offset, legacy} (quick: a seeded sample of the grid); when a bound fails a survey run lists every
     scan step at which the line bound is exceeded (first byte behind the line, excess).
TV:  slicer calls recorded with vbi3_bit_slicer_slice_with_points (run-in step, sample of every bit) validated against
     SlicerBounds by Trace_SlicerBounds.
REPLAY: every modelled configuration is executed on the real slicer with an exactly sized line directly in front of an
     inaccessible page: the service's reference waveform (library transmitter) moved sample by sample across the end of the
     search range, noise, constant levels and square waves; a trapped access is compared with the model (must be predicted,
     same address); worst cases again on exactly sized heap blocks under ASan; the behaviours generated from SlicerImage on
     the raw decoders (both interfaces) with exactly sized images and an output array of exactly max_lines records in front
     of inaccessible pages: number of records, their lines and payloads as the spec says, nothing trapped."""
import os, json, shutil, random
from vlib import tlc, build, core

MANIFEST = dict(
    level="model_checking",
    engine="tlc-mc+tv+replay",
    technique="TLA+ spec SlicerBounds (access pattern of the bit slicer; constants = fields of the real configured slicer objects, "
              "configuration chosen in Init) checked exhaustively by TLC for every scan position and data bit of a grid of configurations; "
              "TLA+ spec SlicerImage (scan line loop, row pointer, output array) checked exhaustively and all its behaviours replayed; "
              "recorded sampling points of the real slicer validated against the spec (Trace_SlicerBounds); every configuration "
              "replayed on the real slicers and raw decoders with exactly sized buffers in front of PROT_NONE pages and on exactly "
              "sized heap blocks under ASan, trapped accesses compared with the model's prediction",
    text="For each configuration of the grid (16 services of the library's table x sampling rates 3..35.5 MHz x line lengths "
         "minimal, +1, +100, nominal x all pixel layouts x new slicer with sample offsets 0, 1, 3, 5, 37 and the legacy slicer; quick: a "
         "seeded sample covering every service and slicer kind) TLC explores all run-in positions the search loop can reach and all "
         "framing/payload bits and checks that no sample at or behind samples_per_line is read (LineBound), a line that is not the last "
         "row stays inside the next row (InnerBound), no more than ceil(payload/8) bytes are stored (WriteBound) and that the accesses "
         "move rightwards. Short lines (cropped / truncated: 1, 2, 15, 16, 17, 100, 319, 320 samples and need-2 .. need+1, need = the "
         "smallest line the interface searches, found by asking the real object for every length from 1 on, plus every length at "
         "which its answer changes) are configured on both interfaces, all pixel formats, sample offsets 0, 5, 300 (3 for the other "
         "formats), on fresh and on previously configured slicers: vbi3_bit_slicer_set_params either refuses (then a slice call reads "
         "and stores nothing: RefusedIdle) or its limit obeys LineBound; the void vbi_bit_slicer_init must obey LineBound for every "
         "length. The search limit is taken as a signed number and counted down like the code's unsigned loop counter, so a negative "
         "limit (or 0 in the low-pass slicer) is a search that leaves the line. SlicerImage: for all field counts, interlaced or not, all max_lines and all sets of signal lines the row handed "
         "to a slicer is the scan line's own row inside the image and at most min(max_lines, rows) records are stored. The same "
         "configurations are run on the real code with guard pages: reference waveforms shifted sample by sample over the end of the "
         "search range, noise, saturated and square wave lines; short lines with all-zero, saturated, noise, the reference waveform of a "
         "whole scan line cropped at every position (shifted, truncated at either end) and a synthetic truncated transmission, on guard "
         "pages and again on exactly sized heap blocks under ASan; one-row raw decoders of both interfaces with bytes_per_line from 1 up to "
         "the duration of the service; every SlicerImage behaviour on both raw decoder interfaces (records, lines, "
         "payloads compared with the spec); recorded sampling positions of the real slicer must be the positions of the spec.",
    note="The model takes the slicer's integer parameters from the real object, so it decides the bound for these parameters, not "
         "the floating point computation that produced them (that is covered by running the grid). Sampling rates between the grid "
         "points are not covered. VBI_SLICED_2xCAPTION_525 has no reference transmitter (noise / square waves only). The sampling "
         "point array of the debugging interface (vbi3_bit_slicer_slice_with_points) is not part of the statement.",
)

NAMES = {0x2000: "TTX_A", 1: "TTX_B_L10", 3: "TTX_B", 0x4000: "TTX_C_625", 0x8000: "TTX_D_625", 4: "VPS", 0x1000: "VPS_F2",
         0x400: "WSS_625", 8: "CC_625_F1", 0x10: "CC_625_F2", 0x10000: "TTX_B_525", 0x100: "TTX_C_525", 0x20000: "TTX_D_525",
         0x20: "CC_525_F1", 0x40: "CC_525_F2", 0x80: "CC2X_525"}
NO_TX = {0x80}
BLANK_IDS = {0x20000000, 0x40000000}
NOMINAL = {3000000: 176, 13500000: 720, 27000000: 1440, 35468950: 2048}
FIELDS = ["lp", "skip", "bps", "wide", "scan", "phase_shift", "step", "frc_bits", "payload", "endian", "spl", "soff", "ok"]
# lines too short for the service (cropped / truncated lines): absolute lengths and lengths around `need`, the smallest line the
# interface searches at all (new: smallest accepted samples_per_line for this sample offset; legacy: smallest raw_samples with a
# search limit > 0)
SHORT_ABS = [1, 2, 15, 16, 17, 100, 319, 320]
SHORT_REL = [-2, -1, 0, 1]
SHORT_SOFF = [0, 5, 300]       # sample offsets of the new interface on short lines (300: offset behind the end of most of them)
ENV = dict(ASAN_OPTIONS="detect_leaks=0:abort_on_error=0:exitcode=99:allocator_may_return_null=1")
NPROC = 8                      # parallel driver processes
QUICK_STATES = 1500000         # model states explored by the quick tier
QUICK_SHORT_RATES = 9          # sampling rates per (service, interface variant) with short lines in the quick tier
QUICK_SHORT_STATES = 250000    # of which for short line configurations that are searched (need, need + 1)
TLC_PARTS = 2                  # thorough: parallel TLC runs
Y8 = 1
CORRUPT = os.environ.get("VERIF_C05_CORRUPT", "")     # selftest: "points" / "image" / "short" falsify one recorded / generated / dumped field


def env():
    return build.san_env(ENV)


def drv_batch(drv, cmds, timeout=900):
    """one process, one sequence; -> list of json answers (without the reset line)"""
    r = core.run_seq_driver([drv], [cmds], timeout=timeout, env=env())[0]
    return r


def report_san(ctx, stderr, replay=None):
    """sanitizer reports of the units under this property; io-sim.c is the signal generator of the harness (its reports
    belong to C01 and are only noted)"""
    n = 0
    for (kind, fn, where) in core.sanitizer_reports(stderr):
        key = "%s:%s" % (kind, fn)
        memory = kind.startswith("asan:") or kind.startswith("ubsan:index") or "pointer" in kind
        if where.startswith("io-sim.c") or not memory:
            note = "sanitizer report outside this property's statement (%s; see C01): %s at %s" % (
                "the transmitter of the harness" if where.startswith("io-sim.c") else "not a memory access", key, where)
            if note not in ctx.notes:
                ctx.notes.append(note)
            continue
        i = stderr.find(where) if where else -1
        ctx.violate("sanitizer", key, stderr[max(0, i - 200):i + 2500] if i >= 0 else stderr[-2500:], replay)
        n += 1
        if n >= 5:
            break
    return n


def nominal_spl(rate):
    return NOMINAL.get(rate, (int(rate * 53.33e-6) + 1) & ~1)


def payload_of(svc, seed):
    rnd = random.Random(seed * 1000003 + svc["id"])
    n = (svc["payload"] + 7) // 8
    return "".join("%02x" % rnd.randrange(256) for _ in range(n))


def same_payload(svc, a, b):
    """the payload bits of two hex strings agree (bits of the last byte beyond the payload are undefined)"""
    bits = svc["payload"]
    x, y = bytes.fromhex(a)[:(bits + 7) // 8], bytes.fromhex(b)[:(bits + 7) // 8]
    if len(x) != len(y):
        return False
    full = bits // 8
    if x[:full] != y[:full]:
        return False
    return not (bits & 7) or ((x[full] ^ y[full]) & ((1 << (bits & 7)) - 1)) == 0


def data_bits(rec):
    return rec["frc_bits"] + (rec["payload"] if rec["endian"] >= 2 else 8 * rec["payload"])


def steps_of(rec):
    """search steps the model explores (SlicerBounds!Steps; a wrapped limit is followed until the line is left)"""
    if not rec["ok"]:
        return 0
    if rec["scan"] < 0 or (rec["scan"] == 0 and rec["lp"]):
        return rec["spl"]
    return rec["scan"]


def wrapped(rec):
    return bool(rec["ok"]) and (rec["scan"] < 0 or (rec["scan"] == 0 and rec["lp"] == 1))


def states_of(rec):
    """model states of a configuration; a wrapped search limit costs next to nothing: TLC stops at the first state behind the
    line and the survey does not walk through the data bits"""
    if wrapped(rec):
        return 3 + rec["spl"]
    return 3 + steps_of(rec) * (data_bits(rec) + 1)


def grid(ctx, table):
    """-> list of configuration requests dict(api, fmt, rate, spl, soff, svc); quick samples this list after the real
    objects are known (sample())"""
    svcs = [s for s in table["services"] if s["id"] not in BLANK_IDS]
    fm = {f["fmt"]: f for f in table["formats"]}
    out = []
    rates = [3000000, 6750000, 13500000, 14318180, 14750000, 17734475, 27000000, 28636363, 35468950]
    for s in svcs:
        for rate in rates:
            for spl in ("min", "min+1", "min+100", "nom"):
                for api, soff in (("new", 0), ("new", 5), ("old", 0)):
                    out.append(dict(api=api, fmt=Y8, rate=rate, spl=spl, soff=soff, svc=s["id"]))
            # other sample offsets of the new interface (1: smallest, 37: odd, larger than the low-pass window)
            out.append(dict(api="new", fmt=Y8, rate=rate, spl="min", soff=1, svc=s["id"]))
            out.append(dict(api="new", fmt=Y8, rate=rate, spl="nom", soff=37, svc=s["id"]))
        for fmt in sorted(fm):
            if fmt == Y8:
                continue
            for rate in (13500000, 27000000, 35468950):
                for spl in ("min", "nom"):
                    for api in ("new", "old"):
                        out.append(dict(api=api, fmt=fmt, rate=rate, spl=spl, soff=0, svc=s["id"]))
                out.append(dict(api="new", fmt=fmt, rate=rate, spl="min", soff=3, svc=s["id"]))
    # short lines, both interfaces (renew = a vbi3_bit_slicer that was configured for a long line before)
    for s in svcs:
        for fmt in sorted(fm):
            for rate in (rates if fmt == Y8 else (13500000, 27000000, 35468950)):
                # need, need+1 (lines the interfaces search: as expensive in the model as any ordinary line) with the other pixel
                # formats only at 13.5 MHz
                rel = SHORT_REL if (fmt == Y8 or rate == 13500000) else [d for d in SHORT_REL if d < 0]
                lens = ["=%d" % n for n in SHORT_ABS] + ["need%+d" % d for d in rel]
                for api, soffs in (("new", SHORT_SOFF if fmt == Y8 else (0, 3)), ("renew", (0,)), ("old", (0,))):
                    for soff in soffs:
                        for spl in lens:
                            out.append(dict(api=api, fmt=fmt, rate=rate, spl=spl, soff=soff, svc=s["id"], short=1))
    return out


def resolve(ctx, drv, table, reqs):
    """ask the real slicer: smallest line length per (service, rate, soff) at which the interface searches at all (`need`),
    then the fields of every configuration.  Requests marked `short` are line lengths from 1 up to need + 1: the new interface
    may refuse them (record with ok = 0), the legacy one cannot."""
    svc = {s["id"]: s for s in table["services"]}
    fm = {f["fmt"]: f for f in table["formats"]}
    keys = sorted({(r["api"] == "old", r["svc"], r["rate"], r["soff"]) for r in reqs})
    cmds, est = [], {}
    for k in keys:
        (old, sid, rate, soff) = k
        s = svc[sid]
        est[k] = int(rate * s["cri_bits"] / s["cri_rate"]) + int(rate * (s["frc_bits"] + s["payload"]) / s["bit_rate"]) + soff
        # every line length from 1 to beyond the duration of the transmission: where does the configured object search at all
        cmds.append("N %s 1 %d %d %x 1 %d" % ("old" if old else "new", rate, soff, sid, est[k] + 24))
    res = drv_batch(drv, cmds)
    if len(res["lines"]) != len(cmds) or any("runs" not in o for o in res["lines"]):
        raise tlc.ToolFailure("driver answered %d of %d probes: %s" % (len(res["lines"]), len(cmds), res["stderr"][-500:]))
    minspl, edges = {}, {}
    for k, o in zip(keys, res["lines"]):
        pos = [r[0] for r in o["runs"] if r[2] > 0]
        if pos:
            minspl[k] = min(pos)
        # the lengths at which the interface changes its mind (refused / no search <-> search <-> negative limit) below `need`
        top = minspl.get(k, est[k])
        edges[k] = sorted({x for r in o["runs"] if r[2] != 0 for x in (r[0] - 1, r[0], r[1], r[1] + 1) if 1 <= x < top})
    reqs = list(reqs)
    for r in list(reqs):
        if r.get("short") and r["spl"] == "need-1":
            k = (r["api"] == "old", r["svc"], r["rate"], r["soff"])
            reqs += [dict(r, spl="=%d" % x) for x in edges[k]]
    cfgs, cmds = [], []
    seen = set()
    for r in reqs:
        k = (r["api"] == "old", r["svc"], r["rate"], r["soff"])
        short = bool(r.get("short"))
        if short:
            # a sampling rate below the service's clock is refused by the new interface whatever the line length; the legacy
            # interface takes it: the lengths are then placed around the duration of the transmission
            m = minspl.get(k, est[k])
        elif k not in minspl:
            continue                      # sampling rate below the service's clock: no valid configuration
        else:
            m = minspl[k]
        if r["spl"].startswith("="):
            spl = int(r["spl"][1:])
            if spl > m + 1:
                continue                  # not a short line for this service and rate: the ordinary grid has min+1, min+100, nominal
        elif r["spl"].startswith("need"):
            spl = m + int(r["spl"][4:])
        else:
            spl = dict(min=m, nom=max(nominal_spl(r["rate"]), m)).get(r["spl"])
            if spl is None:
                spl = m + int(r["spl"].split("+")[1])
        bpp = fm[r["fmt"]]["bpp"]
        if not short and fm[r["fmt"]]["yuv"] and bpp == 2 and (spl & 1):
            spl += 1                      # the library transmitter writes YUYV pixel pairs
        if spl > 32767 or spl < 1:
            continue
        c = dict(api=r["api"], fmt=r["fmt"], rate=r["rate"], spl=spl, soff=r["soff"], svc=r["svc"], short=short)
        sig = json.dumps(c, sort_keys=True)
        if sig in seen:
            continue
        seen.add(sig)
        cfgs.append(c)
        cmds.append("D %s %d %d %d %d %x" % (c["api"], c["fmt"], c["rate"], c["spl"], c["soff"], c["svc"]))
    res = drv_batch(drv, cmds)
    if len(res["lines"]) != len(cmds):
        raise tlc.ToolFailure("driver answered %d of %d configuration dumps: %s" % (len(res["lines"]), len(cmds), res["stderr"][-500:]))
    if res["stderr"]:
        report_san(ctx, res["stderr"])
    out = []
    for c, o in zip(cfgs, res["lines"]):
        if "scan" not in o:
            raise tlc.ToolFailure("driver: D -> %s" % o)
        if not o.get("ok") and not c["short"]:
            continue
        c["obj"] = o
        f = fm[c["fmt"]]
        wide = 1 if (f["bpp"] == 2 and not f["yuv"]) else 0
        if o.get("ok"):
            # scan: the search limit as a SIGNED number; the model applies the unsigned counter of the loops (SlicerBounds!Steps)
            c["rec"] = dict(lp=o["lp"], skip=o["skip"], bps=f["bpp"], wide=wide, scan=o["scan"],
                            phase_shift=o["phase_shift"], step=o["step"], frc_bits=o["frc_bits"], payload=o["payload"], endian=o["endian"],
                            spl=c["spl"], soff=c["soff"], ok=1)
            if o["api"] == "new" and o["bps"] != f["bpp"]:
                raise tlc.ToolFailure("bytes_per_sample %s of the slicer differs from the pixel size %s" % (o["bps"], f["bpp"]))
        else:
            # refused: the fields of the object are meaningless (stale or zero), the model only has the action Refused
            c["rec"] = dict(lp=0, skip=c["soff"] * f["bpp"], bps=f["bpp"], wide=wide, scan=0, phase_shift=0, step=0, frc_bits=0, payload=0,
                            endian=0, spl=c["spl"], soff=c["soff"], ok=0)
        c["kind"] = "old" if c["api"] == "old" else ("lowpass" if (o.get("ok") and o["lp"]) else "new")
        c["name"] = NAMES.get(c["svc"], "%x" % c["svc"])
        out.append(c)
    if CORRUPT == "short":
        # selftest: the dumped search limit of one short legacy configuration is falsified (0 -> -1)
        c = [c for c in out if c["short"] and c["api"] == "old" and c["rec"]["scan"] == 0 and c["spl"] == 100][0]
        c["rec"]["scan"] = c["obj"]["scan"] = -1
    return out


def sample(ctx, cfgs):
    """quick tier: a seeded sample of the grid - one configuration of every (service, slicer kind, sample offset) class, one of
    every (slicer kind, pixel layout) class, then random ones until the budget of model states is used"""
    rnd = random.Random(ctx.seed)
    order = list(cfgs)
    rnd.shuffle(order)
    fmtclass = lambda c: (c["rec"]["bps"], c["rec"]["wide"], c["rec"]["skip"] - c["soff"] * c["rec"]["bps"])
    chosen, classes, recs, total = [], set(), set(), 0

    def take(c, limit):
        nonlocal total
        t = tuple(c["rec"][k] for k in FIELDS)
        cost = 0 if t in recs else states_of(c["rec"])
        if total + cost > limit:
            return False
        recs.add(t); total += cost; chosen.append(c)
        return True
    cheap = sorted(order, key=lambda c: states_of(c["rec"]) > 12000)     # stable: prefers the cheaper half, keeps the shuffle
    for keyf, lim in ((lambda c: ("svc", c["svc"], c["kind"], c["soff"] > 0), 0.62), (lambda c: ("fmt", c["kind"], fmtclass(c), c["soff"] > 0), 0.8)):
        for c in cheap:
            k = keyf(c)
            if k in classes:
                continue
            if take(c, QUICK_STATES * lim):
                classes.add(k)
    for c in order:
        if c in chosen:
            continue
        if total > QUICK_STATES * 0.97:
            break
        take(c, QUICK_STATES)
    return chosen


def sample_short(ctx, shorts):
    """quick tier: for every (service, interface variant) QUICK_SHORT_RATES seeded sampling rates with ALL line lengths (8 bit
    luma) and for every other pixel format x interface variant one seeded (service, rate) with all line lengths"""
    rnd = random.Random(ctx.seed * 7919 + 5)
    groups = {}
    for c in shorts:
        groups.setdefault((c["svc"], c["api"], c["soff"], c["fmt"], c["rate"]), []).append(c)
    pick = {}
    for g in sorted(groups):
        (sid, api, soff, fmt, rate) = g
        pick.setdefault(("svc", sid, api, soff) if fmt == Y8 else ("fmt", fmt, api, soff), []).append(g)
    chosen = []
    for cls in sorted(pick):
        for g in rnd.sample(pick[cls], min(len(pick[cls]), QUICK_SHORT_RATES if cls[0] == "svc" else 1)):
            chosen += groups[g]
    # lines the interface searches (need, need + 1 and what a broken limit makes of the shorter ones) cost scan steps x bits
    # states: all the cheap ones, the others up to a budget
    cheap = [c for c in chosen if states_of(c["rec"]) <= 300]
    dear = [c for c in chosen if states_of(c["rec"]) > 300]
    rnd.shuffle(dear)
    total, recs = 0, set()
    for c in dear:
        t = tuple(c["rec"][k] for k in FIELDS)
        cost = 0 if t in recs else states_of(c["rec"])
        if total + cost > QUICK_SHORT_STATES:
            continue
        recs.add(t); total += cost; cheap.append(c)
    return cheap


def write_model(ctx, recs, sub):
    d = os.path.join(ctx.scratch, sub)
    os.makedirs(d, exist_ok=True)
    for f in ("SlicerBounds.tla", "MC_SlicerBounds.tla", "MC_SlicerBounds.cfg", "MC_SlicerBounds_survey.cfg"):
        shutil.copy(os.path.join(tlc.SPEC, f), d)
    rows = ",\n  ".join("[id |-> %d, " % r["id"] + ", ".join("%s |-> %d" % (k, r[k]) for k in FIELDS) + "]" for r in recs)
    open(os.path.join(d, "SlicerCfgs.tla"), "w").write("---- MODULE SlicerCfgs ----\nEXTENDS Integers\nCfgList == <<\n  %s\n>>\n====\n" % rows)
    return d


def model_check(ctx, cfgs, label):
    """-> (prediction per record id: steps / first bytes / excess of the line bound violations, TLC result); c['mi'] = record id"""
    idx, recs = {}, []
    for c in cfgs:
        t = tuple(c["rec"][k] for k in FIELDS)
        if t not in idx:
            idx[t] = len(recs) + 1
            recs.append(dict(c["rec"], id=idx[t]))
        c["mi"] = idx[t]
    quick = ctx.tier == "quick"
    nparts = 1 if quick else TLC_PARTS
    parts = [[] for _ in range(nparts)]
    load = [0] * nparts
    for r in sorted(recs, key=lambda r: -states_of(r)):
        i = load.index(min(load))
        parts[i].append(r); load[i] += states_of(r)
    dirs = [write_model(ctx, p, "sb-%s-%d" % (label, i)) for i, p in enumerate(parts)]
    wk = 8 if quick else 4

    def mc(d):
        return tlc.run("MC_SlicerBounds", "MC_SlicerBounds", timeout=1500, cwd=d, heap="3g", workers=wk)

    def survey(d):
        return tlc.run("MC_SlicerBounds", "MC_SlicerBounds_survey", timeout=1500, cwd=d, heap="3g", workers=wk, collect_tr=True)
    res = core.pmap(mc, dirs, workers=nparts)
    pred, first = {}, None
    for i, (d, r) in enumerate(zip(dirs, res)):
        ctx.add_mc(r, "MC SlicerBounds %s part %d (%d configurations)" % (label, i + 1, len(parts[i])))
        if not r.violation:
            continue
        first = first or r
        v = r.violation
        if v["name"] not in ("LineBound", "InnerBound"):
            ctx.violate("mc", "mc:%s:%s" % (v["kind"], v["name"]), v["text"][:3000])
            continue
        sv = survey(d)
        ctx.add_mc(sv, "SURVEY SlicerBounds %s part %d" % (label, i + 1))
        if sv.violation:
            ctx.violate("mc", "mc:%s:%s" % (sv.violation["kind"], sv.violation["name"]), sv.violation["text"][:3000])
        got = False
        for t in sv.tr:
            got = True
            p = pred.setdefault(t["c"], dict(n=set(), fb=set(), ex=0, img=0, scan=0))
            p["n"].add(t["n"]); p["fb"].update(t["bad"]); p["ex"] = max(p["ex"], t["ex"]); p["img"] |= t["img"]
            if t["ph"] == "scan":
                p["scan"] = 1
        if not got:
            raise tlc.ToolFailure("invariant %s violated but the survey lists no position" % v["name"])
    return pred, first


# ---------------------------------------------------------------- trace validation of sampling points
def points_cmds(c, svc, seed):
    """offsets at which the reference waveform is recorded: around the rightmost position at which the line sweep still decoded
    it (run-in complete at the last scan steps), the middle and the leftmost position; without a decodable position the nominal one"""
    t0 = int(svc["offset"] * 1e-9 * c["rate"])
    g = c.get("good")
    if g:
        offs = sorted(set([g[0] + d for d in (-2, -1, 0, 1, 2, 3, 5)] + [(g[0] + g[1]) // 2, g[1]]))
    else:
        offs = [t0 - c["soff"] - 2]
    pay = payload_of(svc, seed)
    return ["P %d %d %d %d %x %d %s" % (c["fmt"], c["rate"], c["spl"], c["soff"], c["svc"], x, pay) for x in offs]


def trace_validate(ctx, drv, table, cfgs):
    svc = {s["id"]: s for s in table["services"]}
    sel = [c for c in cfgs if c["api"] == "new" and c["rec"]["bps"] == 1 and c["svc"] not in NO_TX and c["rec"]["ok"] and not c["short"]]
    sel.sort(key=lambda c: not c.get("good"))        # configurations in which the reference waveform decodes first
    # one log line per sampled bit: bound the log (about 0.2 ms per line in TLC)
    budget = 25000 if ctx.tier == "quick" else 250000
    take, lines = [], 0
    for c in sel:
        cost = 9 * (data_bits(c["rec"]) + 3)
        if lines + cost <= budget:
            take.append(c); lines += cost
    sel = take
    if not sel:
        return
    jobs = [(c, points_cmds(c, svc[c["svc"]], ctx.seed)) for c in sel]
    cmds = [x for _, cm in jobs for x in cm]
    res = drv_batch(drv, cmds)
    if res["stderr"]:
        report_san(ctx, res["stderr"], dict(kind="points", cmds=cmds[:50]))
    if len(res["lines"]) != len(cmds):
        raise tlc.ToolFailure("driver stopped after %d of %d point recordings: %s" % (len(res["lines"]), len(cmds), res["stderr"][-1500:]))
    path = os.path.join(ctx.scratch, "points.ndjson")
    ncalls, nfound, index, i = 0, 0, [], 0
    with open(path, "w") as f:
        def put(o, who):
            f.write(json.dumps(o) + "\n"); index.append(who)
        for c, cm in jobs:
            rec = dict(c["rec"], id=c["mi"])
            lp, soff = rec["lp"], rec["soff"]
            top = 0
            for cmd in cm:
                a = res["lines"][i]; i += 1
                if not a.get("ok"):
                    continue
                ncalls += 1
                put(dict(a="Start", cf=rec), cmd)
                cri = [p for p in a["pts"] if p[0] == 1]
                bits = [p for p in a["pts"] if p[0] != 1]
                if bits:
                    if not cri:
                        raise tlc.ToolFailure("data bits without a run-in bit: %s -> %s" % (cmd, a))
                    # translation of the reported index (1/256 samples from the line start; low-pass: centre of the window
                    # after the step) into the model's step / sample numbers
                    n = (cri[-1][1] >> 8) - soff - (9 if lp else 0)
                    put(dict(a="Cri", n=n), cmd)
                    for p in bits:
                        put(dict(a="Bit", pos=(p[1] >> 8) - soff - (8 if lp else 0)), cmd)
                    nfound += 1
                    top = max(top, n)
                put(dict(a="End", r=a["r"]), cmd)
            c["reach"] = top
            ctx.count_case(["points", c["fmt"], c["rate"], c["spl"], c["soff"], c["svc"]], nontrivial=True)
    if CORRUPT == "points":
        lines = open(path).read().split("\n")
        k = max(i for i, ln in enumerate(lines) if '"Bit"' in ln)
        o = json.loads(lines[k]); o["pos"] += 1
        lines[k] = json.dumps(o)
        open(path, "w").write("\n".join(lines))
    ok, r = tlc.validate_trace("Trace_SlicerBounds", "Trace_SlicerBounds", path, timeout=600, heap="3g")
    ctx.add_mc(r, "TV sampling points (%d calls, %d with data bits)" % (ncalls, nfound))
    ctx.cov["point_traces"] = ncalls
    ctx.cov["last_scan_step_reached"] = sum(1 for c in sel if c.get("reach") == c["obj"]["scan"] - 1)
    ctx.cov["point_configurations"] = len(sel)
    if ok:
        ctx.validated(len(sel))
    else:
        at = r.reject_at
        cmd = index[at - 1] if at and at <= len(index) else None
        lines = open(path).read().split("\n")
        name = r.violation["name"] if r.violation else "rejected"
        who = "?"
        if cmd:
            who = NAMES.get(int(cmd.split()[5], 16), cmd.split()[5])
        ctx.violate("tv", "tv:points:%s:%s" % (name, who), "recorded call %s: log line %s rejected: %s\n%s" %
                    (cmd, at, lines[at - 1] if at else "", (r.violation or {}).get("text", "")[-1500:]),
                    dict(kind="points", cmds=[cmd] if cmd else cmds[:20]))


# ---------------------------------------------------------------- line level replay
def sweep_cmds(c, svc, seed, quick):
    """driver lines for one configuration"""
    rate, spl, o = c["rate"], c["spl"], c["obj"]
    head = "%s %d %d %d %d %x" % (c["api"], c["fmt"], rate, spl, c["soff"], c["svc"])
    cmds = []
    if c["svc"] not in NO_TX:
        t0 = svc["offset"] * 1e-9 * rate                 # documented position of the signal, samples after 0H
        end = c["soff"] + o["scan"]                      # first sample the search does not look at
        run_in = min(spl, int(64.0 * rate / svc["cri_rate"]) + 64)
        # the run-in may begin in front of the line (lines as short as the slicer accepts hold only the end of a long run-in)
        lo, hi = int(t0) - (end + 24), int(t0) - (end - run_in)
        cmds.append("L %s sig %d %d 1 %d %s" % (head, lo, hi, seed, payload_of(svc, seed)))
    cmds.append("L %s noise 0 %d 1 %d 00" % (head, 5 if quick else 40, seed))
    cmds.append("L %s sat 0 255 %d %d 00" % (head, 51 if quick else 5, seed))
    per = max(1, int(rate / svc["cri_rate"]))
    cmds.append("L %s sq 0 %d 1 %d 00" % (head, 2 * per + 2, seed))
    # a synthetic transmission that begins late (black, then run-in and framing code as rectangular pulses from sample x on),
    # placed so that the run-in pattern is complete around the last scan step
    length = int(svc["cri_bits"] * rate / svc["cri_rate"])
    end = c["soff"] + o["scan"]
    cmds.append("L %s late %d %d 1 %d 00" % (head, end - length - 2 * per - 6, end - length + 2 * per + 6, seed))
    return cmds


def short_cmds(c, svc, seed, quick, letter="L"):
    """content classes for a line that is too short for the service (or just long enough): all zero, saturated, noise, the
    reference waveform of a whole scan line cropped to the line (window moved over the whole transmission: shifted and truncated
    at either end, finely around the position at which the run-in completes at the end of the search), a synthetic transmission
    truncated by the line end.  letter H: the same on exactly sized heap blocks (ASan)"""
    rate, spl, o = c["rate"], c["spl"], c["obj"]
    head = "%s %s %d %d %d %d %x" % (letter, c["api"], c["fmt"], rate, spl, c["soff"], c["svc"])
    t0 = int(svc["offset"] * 1e-9 * rate)
    cri_len = int(rate * svc["cri_bits"] / svc["cri_rate"])
    siglen = cri_len + int(rate * (svc["frc_bits"] + svc["payload"]) / svc["bit_rate"])
    nshift = 10 if quick else 40
    cmds = ["%s sat 0 255 255 %d 00" % (head, seed),
            "%s noise 0 %d 1 %d 00" % (head, 2 if quick else 12, seed)]
    if c["svc"] not in NO_TX:
        lo, hi = t0 - spl - 2, t0 + siglen + 2
        cmds.append("%s cut %d %d %d %d %s" % (head, lo, hi, max(1, (hi - lo) // nshift), seed, payload_of(svc, seed)))
        if o.get("ok") and o["scan"] > 0:
            x = t0 + cri_len - (c["soff"] + o["scan"])
            cmds.append("%s cut %d %d 1 %d %s" % (head, x - 6, x + 6, seed, payload_of(svc, seed)))
    lo, hi = -siglen, spl
    cmds.append("%s late %d %d %d %d 00" % (head, lo, hi, max(1, (hi - lo) // nshift), seed))
    return cmds


def judge_line(ctx, c, p, answers, cmds, acc):
    """compare the trapped accesses of one configuration with the model's prediction p (None = within bounds)"""
    rp = dict(kind="line", cmds=cmds, cfg={k: c[k] for k in ("api", "fmt", "rate", "spl", "soff", "svc", "name", "kind")}, obj=c["obj"],
              predicted=None if p is None else dict(steps=sorted(p["n"]), first_byte=sorted(p["fb"]), excess=p["ex"]))
    faults = []
    for a, cmd in zip(answers, cmds):
        if "faults" not in a:
            raise tlc.ToolFailure("driver: %s -> %s" % (cmd, a))
        for (o, off, w) in a["faults"]:
            faults.append((cmd.split()[7], o, off, w))
    who = "%s:%s" % (c["kind"], c["name"])
    where = "%s %s fmt %d, %d Hz, %d samples/line, sample offset %d" % (c["api"], c["name"], c["fmt"], c["rate"], c["spl"], c["soff"])
    ok = refusal_kept(ctx, c, answers, cmds, who, where, rp)
    wr = [f for f in faults if f[3]]
    rd = [f for f in faults if not f[3]]
    c["sigfaults"] = [f[1] for f in rd if f[0] == "sig"]
    for a, cmd in zip(answers, cmds):
        if cmd.split()[7] == "sig" and a.get("have_good"):
            c["good"] = (a["first_good"], a["last_good"])
    if wr:
        ok = False
        ctx.violate("replay", "overwrite:%s" % who, "%s: the slicer stored %d byte(s) behind a buffer of ceil(payload/8) bytes (%s)" %
                    (where, wr[0][2] + 1, wr[:3]), rp)
    if rd and p is None:
        ok = False
        ctx.violate("replay", "diverge:unpredicted-read:%s" % who,
                    "%s: the model keeps all accesses inside the line, the real slicer read %d byte(s) behind it: %s" % (where, rd[0][2] + 1, rd[:5]), rp)
    elif rd:
        odd = [f for f in rd if f[2] not in p["fb"]]
        if odd:
            ok = False
            ctx.violate("replay", "diverge:read-address:%s" % who,
                        "%s: trapped read at line end + %s; bytes behind the line touched by the first step that leaves the line in the model: %s" % (where, sorted({f[2] for f in odd}), sorted(p["fb"])), rp)
        e = acc.setdefault(("overread", who), dict(ex=0))
        if p["ex"] > e["ex"]:
            e.update(ex=p["ex"], rp=rp, where=where, faults=rd[:6], n=sorted(p["n"]), cfg=c)
        ok = False
    elif p is not None:
        e = acc.setdefault(("model", who), dict(ex=0))
        if p["ex"] > e["ex"]:
            e.update(ex=p["ex"], rp=rp, where=where, faults=[], n=sorted(p["n"]), cfg=c)
        ok = False
    return ok, sum(a.get("n", 0) for a in answers), sum(a.get("good", 0) for a in answers)


def refusal_kept(ctx, c, answers, cmds, who, where, rp):
    """the configuration the line was sliced with is the one that was modelled; a refused one (SlicerBounds!Refused,
    RefusedIdle) delivered nothing and left the buffer alone"""
    ok = True
    for a, cmd in zip(answers, cmds):
        if "cfg_ok" not in a:
            raise tlc.ToolFailure("driver: %s -> %s" % (cmd, a))
        if a["cfg_ok"] != c["rec"]["ok"]:
            raise tlc.ToolFailure("%s: configured twice with different results (%s, %s): %s" % (where, c["rec"]["ok"], a["cfg_ok"], cmd))
        if not c["rec"]["ok"] and (a.get("dec") or a.get("touched")) and ok:
            ok = False
            ctx.violate("replay", "diverge:sliced-after-refusal:%s" % who,
                        "%s: vbi3_bit_slicer_set_params returned FALSE, yet vbi3_bit_slicer_slice %s (%s -> %s)" % (
                            where, "returned TRUE %d time(s)" % a["dec"] if a.get("dec") else "changed the output buffer", cmd, a), rp)
    return ok


def run_lines(ctx, drv, table, cfgs, pred, quick):
    svc = {s["id"]: s for s in table["services"]}
    jobs = [(c, short_cmds(c, svc[c["svc"]], ctx.seed, quick) if c["short"] else sweep_cmds(c, svc[c["svc"]], ctx.seed, quick)) for c in cfgs]
    chunks = [jobs[i::NPROC] for i in range(NPROC)]

    def work(chunk):
        if not chunk:
            return []
        cmds = [x for (_, cm) in chunk for x in cm]
        r = drv_batch(drv, cmds)
        return [(chunk, r)]
    acc, nshift, ngood = {}, 0, 0
    for part in core.pmap(work, chunks, workers=NPROC):
        for chunk, r in part:
            lines = r["lines"]
            if r["stderr"]:
                report_san(ctx, r["stderr"], dict(kind="line", cmds=[x for (_, cm) in chunk for x in cm][:200]))
            if len(lines) != sum(len(cm) for _, cm in chunk):
                raise tlc.ToolFailure("driver stopped after %d answers: %s" % (len(lines), r["stderr"][-1500:]))
            i = 0
            for c, cm in chunk:
                ans = lines[i:i + len(cm)]; i += len(cm)
                p = pred.get(c["mi"])
                ok, n, g = judge_line(ctx, c, p, ans, cm, acc)
                nshift += n; ngood += g
                ctx.count_case(["line", c["api"], c["fmt"], c["rate"], c["spl"], c["soff"], c["svc"]], nontrivial=True)
                if c["short"]:
                    ctx.cov["short_line_configurations"] = ctx.cov.get("short_line_configurations", 0) + 1
                    ctx.cov["short_lines_refused"] = ctx.cov.get("short_lines_refused", 0) + (0 if c["rec"]["ok"] else 1)
                if ok:
                    ctx.validated()
    ctx.cov["lines_sliced"] = ctx.cov.get("lines_sliced", 0) + nshift
    ctx.cov["lines_decoded_correctly"] = ctx.cov.get("lines_decoded_correctly", 0) + ngood
    return acc


def report(ctx, acc, mc):
    trace = ""
    if mc is not None and mc.violation:
        trace = "\nTLC: " + mc.violation["text"][:300].replace("\n", " ")
    for (what, who), e in sorted(acc.items()):
        if what == "overread":
            ctx.violate("replay", "overread:%s" % who,
                        "%s: the model reaches %d byte(s) behind the line when the run-in completes at scan step %s of %d; the real slicer was "
                        "trapped reading behind the exactly sized line at (mode, sampling offset, byte behind the line, write) %s%s" %
                        (e["where"], e["ex"], e["n"], e["cfg"]["obj"]["scan"], e["faults"], trace), e["rp"])
        else:
            ctx.violate("mc", "model:LineBound:%s" % who,
                        "%s: invariant LineBound fails (%d byte(s) behind the line, run-in complete at scan step %s) for the parameters of the "
                        "real slicer object; no shifted reference waveform, noise or square wave line reached that step%s" %
                        (e["where"], e["ex"], e["n"], trace), e["rp"])


def run_heap(ctx, drv, table, cfgs, pred, quick):
    """the short line configurations once more with line and output buffer as exactly sized heap blocks: ASan is the monitor.
    A report ends the process; the remaining configurations of that process run in a fresh one."""
    svc = {s["id"]: s for s in table["services"]}
    jobs = [(c, short_cmds(c, svc[c["svc"]], ctx.seed, quick, "H")) for c in cfgs if c["short"]]
    chunks = [jobs[i::NPROC] for i in range(NPROC)]

    def work(chunk):
        if not chunk:
            return []
        res = core.run_seq_driver([drv], [cm for _, cm in chunk], env=build.san_env(dict(ASAN_OPTIONS=ENV["ASAN_OPTIONS"])), timeout=900, max_restarts=6)
        return list(zip(chunk, res))
    nrep = 0
    for part in core.pmap(work, chunks, workers=NPROC):
        for (c, cm), r in part:
            if r.get("skipped"):
                continue
            who = "%s:%s" % (c["kind"], c["name"])
            where = "%s %s fmt %d, %d Hz, %d samples/line, sample offset %d (heap)" % (c["api"], c["name"], c["fmt"], c["rate"], c["spl"], c["soff"])
            rp = dict(kind="asan", cmds=cm)
            ctx.count_case(["heap", c["api"], c["fmt"], c["rate"], c["spl"], c["soff"], c["svc"]], nontrivial=True)
            ctx.cov["heap_lines_sliced"] = ctx.cov.get("heap_lines_sliced", 0) + sum(a.get("n", 0) for a in r["lines"])
            n = report_san(ctx, r["stderr"], replay=rp) if r["stderr"] else 0
            if n:
                nrep += 1
                if pred.get(c["mi"]) is None:
                    ctx.violate("replay", "diverge:unpredicted-read:%s" % who,
                                "%s: the model keeps all accesses inside the line, ASan reports an access outside the exactly sized blocks" % where, rp)
                continue
            if len(r["lines"]) != len(cm):
                raise tlc.ToolFailure("driver stopped in %s: %s" % (cm[len(r["lines"])] if len(r["lines"]) < len(cm) else cm, r["stderr"][-1500:]))
            if refusal_kept(ctx, c, r["lines"], cm, who, where, rp):
                ctx.validated()
    ctx.cov["heap_reports"] = nrep


def asan_confirm(ctx, drv, table, acc):
    """the worst configuration of each over-read class once more on an exactly sized heap block"""
    svc = {s["id"]: s for s in table["services"]}
    jobs = []
    for (what, who), e in sorted(acc.items()):
        if what != "overread":
            continue
        c = e["cfg"]
        sig = [f for f in e["faults"] if f[0] == "sig"]
        if not sig:
            continue
        jobs.append((who, c, "A %s %d %d %d %d %x %d %s" % (c["api"], c["fmt"], c["rate"], c["spl"], c["soff"], c["svc"], sig[0][1],
                                                           payload_of(svc[c["svc"]], ctx.seed))))

    def work(j):
        return j, core.run_seq_driver([drv], [[j[2]]], env=build.san_env(), max_restarts=0)[0]
    for (who, c, cmd), r in core.pmap(work, jobs, workers=NPROC):
        ctx.count_case(["asan", cmd])
        rp = dict(kind="asan", cmds=[cmd])
        if report_san(ctx, r["stderr"], replay=rp) == 0:
            ctx.notes.append("heap run of %s did not trap (threshold history differs from the sweep): %s" % (who, cmd))


# ---------------------------------------------------------------- image level
def image_jobs(ctx, table, cfgs, quick):
    """raw decoder on exactly sized images: service line on the last row and on the first row"""
    svc = {s["id"]: s for s in table["services"]}
    jobs = []
    for c in cfgs:
        if c["api"] != "new" or c["soff"] != 0 or c["svc"] in NO_TX or c["short"] or not c["rec"]["ok"]:
            continue
        s = svc[c["svc"]]
        t0 = int(s["offset"] * 1e-9 * c["rate"])
        offs = sorted(set(c.get("sigfaults", [])))
        base = [t0 - (c["obj"]["scan"] - 1) + d for d in (-2, 0, 2)] if not offs else []
        sweep = sorted(set([o + d for o in offs[:6] for d in (-1, 0, 1)] + base + [t0 - 8]))
        f0, f1 = s["first"]
        l0, l1 = s["last"]
        for api in ("new", "old"):
            for pos in ("last", "first"):
                for il in ((0, 1) if (f0 and f1) else (0,)):
                    if f0 and f1:
                        # one row per field, the signal on the last image row = line of the second field
                        if pos == "last":
                            st = (l0, 1, l1, 1); line = l1
                        else:
                            st = (f0, 1, f1, 1); line = f0
                    elif f0:
                        st = (f0 - 1, 2, 0, 0) if pos == "last" else (f0, 2, 0, 0); line = f0
                    else:
                        st = (0, 0, f1 - 1, 2) if pos == "last" else (0, 0, f1, 2); line = f1
                    jobs.append(dict(c=c, api=api, pos=pos, il=il, st=st, line=line, sweep=sweep))
    return jobs


def image_cmds(j, svc, seed):
    c = j["c"]
    bpl = c["spl"] * c["rec"]["bps"]
    s = svc[c["svc"]]
    cmds = ["I %s %d %d %d %d %d %d %d %d %d 1" % (j["api"], c["fmt"], c["rate"], bpl, s["std"], j["st"][0], j["st"][1], j["st"][2], j["st"][3], j["il"]),
            "S add %x 0" % c["svc"]]
    pay = payload_of(s, seed)
    for o in j["sweep"]:
        cmds.append("F %d 0 1 -1 1 %d:%x:%s" % (o, j["line"], c["svc"], pay))
    cmds += ["G 0 %d" % seed, "G 1 255", "G 1 0", "G 2 %d" % max(1, int(c["rate"] / s["cri_rate"]))]
    return cmds


def judge_image(ctx, j, p, ans, cmds, acc):
    c = j["c"]
    who = "image-%s:%s" % (j["api"], c["name"])
    rows = j["st"][1] + j["st"][3]
    where = "%s raw decoder, %s fmt %d, %d Hz, %d bytes/line, %d rows%s, signal on the %s row (line %d)" % (
        j["api"], c["name"], c["fmt"], c["rate"], c["spl"] * c["rec"]["bps"], rows, " interlaced" if j["il"] else "", j["pos"], j["line"])
    rp = dict(kind="image", cmds=cmds, where=where)
    if not ans or not ans[0].get("ok"):
        raise tlc.ToolFailure("raw decoder rejected valid sampling parameters: %s -> %s" % (cmds[0], ans[:1]))
    if ans[1].get("set", 0) & c["svc"] == 0:
        return None                                   # service not decodable with this geometry (checked by C04)
    # the model's verdict for the row the signal is on: last row = LineBound, any other row = InnerBound
    predicted = bool(p and (j["pos"] == "last" or p["img"]))
    ok = True
    got_fault = False
    for a, cmd in zip(ans[2:], cmds[2:]):
        if a.get("fault"):
            if a["write"]:
                ok = False
                ctx.violate("replay", "overwrite:%s" % who, "%s: store behind the output array of max_lines records (%s -> %s)" % (where, cmd, a), rp)
            elif not predicted:
                ok = False
                ctx.violate("replay", "diverge:unpredicted-read:%s" % who,
                            "%s: read %d byte(s) behind the image although the model keeps this row inside (%s)" % (where, a["off"] + 1, cmd), rp)
            else:
                got_fault = True
                e = acc.setdefault(("overread", who), dict(ex=0))
                if p["ex"] > e["ex"]:
                    e.update(ex=p["ex"], rp=rp, where=where, faults=[(cmd, a["off"])], n=sorted(p["n"]), cfg=c)
            continue
        if "n" not in a:
            raise tlc.ToolFailure("driver: %s -> %s" % (cmd, a))
        if a["n"] > rows or not a["rest"] or any(not r["tail"] for r in a["rec"]):
            ok = False
            ctx.violate("replay", "overwrite:%s" % who, "%s: %d records for %d rows, records behind the count untouched: %s, bytes behind the payload "
                        "untouched: %s (%s)" % (where, a["n"], rows, bool(a["rest"]), [r["tail"] for r in a["rec"]], cmd), rp)
    if got_fault:
        ok = False
    return ok


def run_images(ctx, drv, table, cfgs, pred, acc, quick):
    svc = {s["id"]: s for s in table["services"]}
    jobs = image_jobs(ctx, table, cfgs, quick)
    chunks = [jobs[i::NPROC] for i in range(NPROC)]

    def work(chunk):
        out = []
        if not chunk:
            return out
        seqs = [image_cmds(j, svc, ctx.seed) for j in chunk]
        res = core.run_seq_driver([drv], seqs, env=env(), timeout=900)
        return list(zip(chunk, seqs, res))
    for part in core.pmap(work, chunks, workers=NPROC):
        for j, cmds, r in part:
            if r.get("skipped"):
                continue
            if r["stderr"]:
                report_san(ctx, r["stderr"], replay=dict(kind="image", cmds=cmds))
            if len(r["lines"]) != len(cmds):
                raise tlc.ToolFailure("driver stopped in %s: %s" % (cmds[0], r["stderr"][-1500:]))
            c = j["c"]
            ok = judge_image(ctx, j, pred.get(c["mi"]), r["lines"], cmds, acc)
            if ok is None:
                continue
            ctx.count_case(["image", j["api"], j["pos"], j["il"], c["fmt"], c["rate"], c["spl"], c["svc"]], nontrivial=True)
            if ok:
                ctx.validated()


def short_images(ctx, drv, table, quick):
    """cropped lines at the image level: raw decoders (both interfaces) for one-row images whose bytes_per_line is too short for
    the service or just long enough.  Either the decoder does not take the service (no slicer, SlicerImage!NoServices) or its
    slicer is one of the configurations of SlicerBounds: a noise and a saturated image of exactly that size in front of a
    PROT_NONE page must be decoded without a trapped access."""
    rnd = random.Random(ctx.seed * 31 + 7)
    fm = {f["fmt"]: f for f in table["formats"]}
    others = sorted(f for f in fm if f != Y8)
    rates = [6750000, 13500000, 14318180, 17734475, 27000000, 35468950]
    jobs = []
    for s in table["services"]:
        if s["id"] in BLANK_IDS:
            continue
        for rate in (rnd.sample(rates, 2) if quick else rates):
            if s["cri_rate"] > rate or s["bit_rate"] > rate:
                continue
            est = int(rate * s["cri_bits"] / s["cri_rate"]) + int(rate * (s["frc_bits"] + s["payload"]) / s["bit_rate"])
            f0, f1 = s["first"]
            st = (f0, 1, 0, 0) if f0 else (0, 0, f1, 1)
            for fmt in (Y8, others[rnd.randrange(len(others))]):
                for api in ("new", "old"):
                    cmds = []
                    for spl in sorted(set(SHORT_ABS + list(range(max(1, est - 3), est + 4)))):
                        if spl > est + 3:
                            continue
                        cmds += ["I %s %d %d %d %d %d %d %d %d 0 1" % (api, fmt, rate, spl * fm[fmt]["bpp"], s["std"], st[0], st[1], st[2], st[3]),
                                 "S add %x 0" % s["id"], "G 0 %d" % ctx.seed, "G 1 255"]
                    jobs.append(dict(api=api, name=NAMES.get(s["id"], "%x" % s["id"]), cmds=cmds,
                                     where="%s raw decoder, %s fmt %d %d Hz, one row, lines of 1 .. %d samples" % (api, NAMES.get(s["id"]), fmt, rate, est + 3)))
    chunks = [jobs[i::NPROC] for i in range(NPROC)]

    def work(chunk):
        if not chunk:
            return []
        return list(zip(chunk, core.run_seq_driver([drv], [j["cmds"] for j in chunk], env=env(), timeout=900)))
    n_img = n_taken = 0
    for part in core.pmap(work, chunks, workers=NPROC):
        for j, r in part:
            rp = dict(kind="image", cmds=j["cmds"], where=j["where"])
            if r.get("skipped"):
                continue
            if r["stderr"]:
                report_san(ctx, r["stderr"], replay=rp)
            if len(r["lines"]) != len(j["cmds"]):
                note = "raw decoder ended the process on a short line (not a memory access; outside this statement): %s: %s" % (
                    j["where"], r["stderr"][-300:].replace("\n", " "))
                if not any(n.startswith("raw decoder ended the process") for n in ctx.notes):
                    ctx.notes.append(note)
                continue
            bad = [(c, a) for c, a in zip(j["cmds"], r["lines"]) if a.get("fault")]
            n_img += len(j["cmds"]) // 2
            n_taken += sum(1 for c, a in zip(j["cmds"], r["lines"]) if c.startswith("S") and a.get("set"))
            ctx.count_case(["short-image", j["where"]], nontrivial=True)
            if bad:
                c, a = bad[0]
                i = j["cmds"].index(c)
                ctx.violate("replay", "%s:image-%s:short-line" % ("overwrite" if a["write"] else "diverge:unpredicted-read", j["api"]),
                            "%s: %s %d byte(s) behind the %s (%s after %s); the model keeps every access inside" % (
                                j["where"], "store" if a["write"] else "read", a["off"] + 1, "output array" if a["write"] else "image", c,
                                j["cmds"][i - (i % 4)]), dict(rp, cmds=j["cmds"][i - (i % 4):i - (i % 4) + 4]))
            else:
                ctx.validated()
    ctx.cov["short_line_images_decoded"] = n_img
    ctx.cov["short_line_decoders_with_service"] = n_taken


# ---------------------------------------------------------------- SlicerImage: model checking, generated behaviours on the real decoders
# images in which every row can carry a decodable signal: (pixel format, rate, samples per line, scanning, first line of field 1,
# first line of field 2, service per row).  Services with lines in both fields are only accepted when both fields are present;
# an image of one field is filled with one-line services of that field.
BOTH = [(1, 13500000, 720, 625, 7, 320, 3), (4, 27000000, 1440, 625, 8, 321, 3), (1, 13500000, 720, 525, 10, 272, 0x100),
        (33, 13500000, 720, 625, 6, 318, 0x2000), (38, 27000000, 1440, 525, 11, 273, 0x10000), (36, 14750000, 800, 625, 9, 322, 0x4000)]
FIELD1 = [(1, 13500000, 720, 625, 22, 0, (8, 0x400)), (4, 27000000, 1440, 625, 22, 0, (8, 0x400))]     # line 22 caption, 23 WSS
FIELD2 = [(1, 13500000, 720, 625, 0, 335, (0x10,)), (1, 13500000, 720, 625, 0, 329, (0x1000,)), (32, 27000000, 1440, 525, 0, 284, (0x40,))]


def carrier(b, rnd):
    """-> (fmt, rate, spl, scanning, start0, start1, [service of row i]) or None when not every row of this geometry can carry a signal"""
    if b["c0"] and b["c1"]:
        (fmt, rate, spl, std, f0, f1, sid) = BOTH[rnd.randrange(len(BOTH))]
        return fmt, rate, spl, std, f0, f1, [sid] * (b["c0"] + b["c1"])
    if b["c0"]:
        (fmt, rate, spl, std, f0, f1, sids) = FIELD1[rnd.randrange(len(FIELD1))]
    else:
        (fmt, rate, spl, std, f0, f1, sids) = FIELD2[rnd.randrange(len(FIELD2))]
    if b["c0"] + b["c1"] > len(sids):
        return None
    return fmt, rate, spl, std, f0, f1, list(sids[:b["c0"] + b["c1"]])


def admission(ctx, drv, geo, rnd, bpp):
    """Every geometry count[0], count[1], interlaced (valid or not): does the library create a decoder for it?  A geometry the
    specification rejects (SlicerImage!Valid) and the library admits is a violation iff the specification's scan line loop leaves
    the image for it (far > rows, Gen_SlicerImage_any); the noise image decoded afterwards on a guard page shows the access."""
    jobs = []
    for (c0, c1, il), g in sorted(geo.items()):
        for api in ("new", "old"):
            car = carrier(dict(c0=c0, c1=c1), rnd)
            if car is None:
                continue
            (fmt, rate, spl, std, f0, f1, sids) = car
            allid = 0
            for x in sids:
                allid |= x
            cmds = ["I %s %d %d %d %d %d %d %d %d %d 1" % (api, fmt, rate, spl * bpp[fmt], std, f0 if c0 else 0, c0, f1 if c1 else 0, c1, il),
                    "S add %x 0" % allid, "G 0 %d" % (ctx.seed + len(jobs))]
            jobs.append(dict(g=g, api=api, cmds=cmds, where="%s raw decoder, count %d+%d%s, fmt %d %d Hz" % (
                api, c0, c1, " interlaced" if il else "", fmt, rate)))
    res = core.run_seq_driver([drv], [j["cmds"] for j in jobs], env=env(), timeout=600)
    n_adm = n_rej = odd = 0
    for j, r in zip(jobs, res):
        g = j["g"]
        rp = dict(kind="admission", cmds=j["cmds"], where=j["where"], expected=dict(valid=g["valid"], rows=g["rows"], far=g["far"]))
        if r.get("skipped"):
            continue
        if r["stderr"]:
            report_san(ctx, r["stderr"], replay=rp)
        if len(r["lines"]) != len(j["cmds"]):
            raise tlc.ToolFailure("driver stopped in %s: %s" % (j["cmds"], r["stderr"][-1500:]))
        admitted = bool(r["lines"][0].get("ok")) and bool(r["lines"][1].get("set"))
        a = r["lines"][2]
        ctx.count_case(["admission", j["api"], g["c0"], g["c1"], g["il"]], nontrivial=not g["valid"])
        if admitted and not g["valid"]:
            if g["far"] > g["rows"]:
                ctx.violate("replay", "admit:leaves-image:%s" % j["api"],
                            "%s: the library creates a decoder for this geometry; SlicerImage rejects it (Valid) because the scan line loop hands row %d of a %d row "
                            "image to the slicers (RowInside, MC_SlicerImage_any). Decoding a noise image of exactly %d rows: %s" % (
                                j["where"], g["far"] - 1, g["rows"], g["rows"],
                                ("%s %d byte(s) behind the image" % ("store" if a.get("write") else "read", a.get("off", -1) + 1)) if a.get("fault") else "no access trapped"), rp)
                continue
            odd += 1            # admitted although the coded rule says no, but the loop stays inside: no C05 matter
        elif a.get("fault"):
            ctx.violate("replay", "%s:admission-%s" % ("overwrite" if a["write"] else "diverge:unpredicted-read", j["api"]),
                        "%s: %s %d byte(s) behind the %s on a noise image" % (j["where"], "store" if a["write"] else "read", a["off"] + 1,
                                                                               "output array" if a["write"] else "image"), rp)
            continue
        if admitted:
            n_adm += 1
        else:
            n_rej += 1
        if bool(admitted) == bool(g["valid"]):
            ctx.validated()
    ctx.cov["admission"] = dict(geometries=len(geo), probes=len(jobs), admitted=n_adm, rejected=n_rej, admitted_but_harmless=odd)


def image_model(ctx, drv, table, quick):
    tier = "q" if quick else "t"
    mc = tlc.run("SlicerImage", "MC_SlicerImage_" + tier, timeout=600, workers=4, heap="2g")
    ctx.add_mc(mc, "MC SlicerImage")
    if mc.violation:
        ctx.violate("mc", "mc:%s:%s" % (mc.violation["kind"], mc.violation["name"]), mc.violation["text"][:3000])
        return
    # the decoder without the admission rule must leave the image in the model (the rule is load bearing)
    anymc = tlc.run("SlicerImage", "MC_SlicerImage_any", timeout=300, workers=2, heap="1g")
    if not anymc.violation or anymc.violation.get("name") != "RowInside":
        raise tlc.ToolFailure("MC_SlicerImage_any no longer finds the RowInside violation of a decoder that admits every geometry")
    ctx.add_mc(anymc, "MC_SlicerImage_any (variant the model must reject: RowInside)")
    geo_run = tlc.run("Gen_SlicerImage", "Gen_SlicerImage_any", timeout=300, workers=2, heap="1g", collect_tr=True)
    ctx.add_mc(geo_run, "GEN SlicerImage geometries (Rule = any)")
    geo = {(g["c0"], g["c1"], g["il"]): g for g in geo_run.tr}
    if not geo or not any(g["far"] > g["rows"] for g in geo.values()):
        raise tlc.ToolFailure("no geometry table from Gen_SlicerImage_any")
    gen = tlc.run("Gen_SlicerImage", "Gen_SlicerImage_" + tier, timeout=600, workers=4, heap="2g", collect_tr=True)
    ctx.add_mc(gen, "GEN SlicerImage")
    if not gen.tr:
        raise tlc.ToolFailure("no behaviour generated from SlicerImage")
    rejected = {(b["c0"], b["c1"], b["il"]) for b in gen.tr if not b["ok"]}
    if not rejected or any(geo.get(k, dict(valid=0))["valid"] for k in rejected):
        raise tlc.ToolFailure("SlicerImage: the generator and the geometry table disagree about admission")
    gen.tr = [b for b in gen.tr if b["ok"]]
    svc = {s["id"]: s for s in table["services"]}
    bpp = {f["fmt"]: f["bpp"] for f in table["formats"]}
    rnd = random.Random(ctx.seed)
    jobs, skipped = [], 0
    if CORRUPT == "image":
        b = [x for x in gen.tr if x["n"] >= 1 and x["c0"] and x["c1"]][0]
        b["recs"] = b["recs"][:-1]; b["n"] -= 1
    for b in gen.tr:
        rows = b["c0"] + b["c1"]
        for api in ("new", "old"):
            if api == "old" and b["maxl"] != rows:
                continue                              # vbi_raw_decode has no max_lines: the array has one record per row
            car = carrier(b, rnd)
            if car is None:
                skipped += 1
                continue
            (fmt, rate, spl, std, f0, f1, sids) = car
            pay = [payload_of(svc[x], ctx.seed + len(jobs)) for x in sids]
            line = lambda i: (f0 + i) if i < b["c0"] else (f1 + i - b["c0"])
            t0 = min(int(svc[x]["offset"] * 1e-9 * rate) for x in sids)
            cmds = ["I %s %d %d %d %d %d %d %d %d %d 1" % (api, fmt, rate, spl * bpp[fmt], std, f0 if b["c0"] else 0, b["c0"],
                                                           f1 if b["c1"] else 0, b["c1"], b["il"])]
            allid = 0
            for x in sids:
                allid |= x
            if b["svc"]:
                cmds.append("S add %x 0" % allid)
            cmds.append("F %d 0 1 %d %d%s" % (t0 - 10, b["maxl"] if api == "new" else -1, len(b["sig"]),
                                              "".join(" %d:%x:%s" % (line(i), sids[i], pay[i]) for i in b["sig"])))
            jobs.append(dict(b=b, api=api, cmds=cmds, allid=allid, lines=[line(i) for i in b["recs"]],
                             recs=[dict(line=line(i), id=sids[i], data=pay[i]) for i in b["recs"]],
                             where="%s raw decoder, %s fmt %d %d Hz, count %d+%d%s, max_lines %d, signal on scan lines %s" % (
                                 api, "+".join(sorted({NAMES.get(x, "%x" % x) for x in sids})), fmt, rate, b["c0"], b["c1"],
                                 " interlaced" if b["il"] else "", b["maxl"], b["sig"])))
    ctx.cov["image_behaviours_not_replayable"] = skipped
    admission(ctx, drv, geo, rnd, bpp)
    chunks = [jobs[i::NPROC] for i in range(NPROC)]

    def work(chunk):
        if not chunk:
            return []
        res = core.run_seq_driver([drv], [j["cmds"] for j in chunk], env=env(), timeout=900)
        return list(zip(chunk, res))
    for part in core.pmap(work, chunks, workers=NPROC):
        for j, r in part:
            b = j["b"]
            rp = dict(kind="image", cmds=j["cmds"], where=j["where"], expected=dict(n=b["n"], lines=j["lines"]))
            if r.get("skipped"):
                continue
            if r["stderr"]:
                report_san(ctx, r["stderr"], replay=rp)
            if len(r["lines"]) != len(j["cmds"]):
                raise tlc.ToolFailure("driver stopped in %s: %s" % (j["cmds"], r["stderr"][-1500:]))
            if not r["lines"][0].get("ok"):
                raise tlc.ToolFailure("raw decoder rejected valid sampling parameters: %s" % j["cmds"][0])
            if b["svc"] and r["lines"][1].get("set") != j["allid"]:
                raise tlc.ToolFailure("raw decoder does not accept the services of the carrier: %s -> %s" % (j["cmds"][:2], r["lines"][1]))
            a = r["lines"][-1]
            nontrivial = bool(b["svc"] and b["sig"])
            ctx.count_case(["imgmodel", j["api"], b["c0"], b["c1"], b["il"], b["maxl"], b["svc"], b["sig"]], nontrivial=nontrivial)
            who = "image-%s" % j["api"]
            if a.get("fault"):
                ctx.violate("replay", "%s:%s" % ("overwrite" if a["write"] else "diverge:unpredicted-read", who),
                            "%s: %s %d byte(s) behind the %s; the model (RowInside, OutBound) keeps every access inside" % (
                                j["where"], "store" if a["write"] else "read", a["off"] + 1, "output array" if a["write"] else "image"), rp)
                continue
            if "n" not in a:
                raise tlc.ToolFailure("driver: %s -> %s" % (j["cmds"], a))
            got = [x["line"] for x in a["rec"]]
            if a["n"] != b["n"] or got != j["lines"]:
                ctx.violate("replay", "diverge:records:%s" % who, "%s: the spec stores %d record(s) for lines %s, the decoder returned %d for lines %s" % (
                    j["where"], b["n"], j["lines"], a["n"], got), rp)
            elif not a["rest"] or any(not x["tail"] for x in a["rec"]):
                ctx.violate("replay", "overwrite:%s" % who, "%s: records behind the returned count untouched: %s, bytes behind the payload untouched: %s" % (
                    j["where"], bool(a["rest"]), [x["tail"] for x in a["rec"]]), rp)
            elif any(not same_payload(svc[e["id"]], x["data"], e["data"]) or x["id"] & e["id"] == 0 for x, e in zip(a["rec"], j["recs"])):
                ctx.violate("replay", "diverge:payload:%s" % who, "%s: transmitted %s, decoded %s" % (j["where"], j["recs"], a["rec"]), rp)
            else:
                ctx.validated()
    if jobs:
        j = jobs[len(jobs) // 2]
        ctx.sample(dict(image_behaviour=j["b"], where=j["where"], commands=j["cmds"], expected_lines=j["lines"]))


def run(ctx):
    quick = ctx.tier == "quick"
    ctx.cov["rule"] = ("cases = configurations (interface, service, pixel format, sampling rate, samples per line, sample offset) whose real slicer "
                       "object was modelled by TLC and executed on guard pages (reference waveform at every sampling offset around the end of the "
                       "search range + noise, constant, square wave and truncated lines; lines too short for the service: zero, saturated, noise, "
                       "cropped reference waveform, truncated synthetic transmission, also on exactly sized heap blocks), recorded sampling point "
                       "traces per configuration, one-row raw decoders with short lines, raw decoder "
                       "images (signal on the last / first row) and SlicerImage behaviours replayed on both decoder interfaces; "
                       "validated = model verdict and observation agree and nothing was trapped")
    ctx.assumptions += ["the page protection of the kernel and ASan are the monitors for accesses of the real code",
                        "service parameters are those of the library's own table (_vbi_service_table)",
                        "sampling rates between the grid points are not covered"]
    drv = build.build_driver("drv_rawdec")
    t = drv_batch(drv, ["T"])
    if not t["lines"]:
        raise tlc.ToolFailure("driver does not start: " + t["stderr"][-1000:])
    table = t["lines"][0]
    cfgs = resolve(ctx, drv, table, grid(ctx, table))
    if not cfgs:
        raise tlc.ToolFailure("no configuration accepted by the slicer")
    ctx.cov["grid_configurations"] = len(cfgs)
    shorts = [c for c in cfgs if c["short"]]
    cfgs = [c for c in cfgs if not c["short"]]
    ctx.cov["grid_short_line_configurations"] = len(shorts)
    if quick:
        cfgs = sample(ctx, cfgs)
        shorts = sample_short(ctx, shorts)
    cfgs = cfgs + shorts
    ctx.cov["modelled_configurations"] = len(cfgs)
    pred, mc = model_check(ctx, cfgs, ctx.tier)
    ctx.sample(dict(configuration={k: cfgs[0][k] for k in ("api", "fmt", "rate", "spl", "soff", "name")}, real_object=cfgs[0]["obj"],
                    model=cfgs[0]["rec"]))
    smp = {}
    for what, pick in (("refused_by_set_params", lambda c: c["short"] and not c["rec"]["ok"]),
                       ("legacy_init_short_line", lambda c: c["short"] and c["api"] == "old" and c["rec"]["scan"] <= 0)):
        sh = [c for c in cfgs if pick(c)]
        if sh:
            c = sh[len(sh) // 2]
            smp[what] = dict(configuration={k: c[k] for k in ("api", "fmt", "rate", "spl", "soff", "name")}, real_object=c["obj"], model=c["rec"])
    if smp:
        ctx.sample(smp)
    acc = run_lines(ctx, drv, table, cfgs, pred, quick)
    run_heap(ctx, drv, table, cfgs, pred, quick)
    trace_validate(ctx, drv, table, cfgs)
    asan_confirm(ctx, drv, table, acc)
    run_images(ctx, drv, table, cfgs, pred, acc, quick)
    short_images(ctx, drv, table, quick)
    report(ctx, acc, mc)
    image_model(ctx, drv, table, quick)
    ctx.cov["exhaustive"] = True
    for (what, who), e in sorted(acc.items())[:2]:
        ctx.sample(dict(finding=what, where=e["where"], excess_bytes=e["ex"], run_in_complete_at=e["n"], trapped=e["faults"][:3]))


def replay(ctx, rp):
    drv = build.build_driver("drv_rawdec")
    r = rp["replay"]
    asan = r.get("kind") == "asan"
    res = core.run_seq_driver([drv], [r["cmds"]], env=build.san_env() if asan else env(), max_restarts=0)[0]
    bad = []
    exp = r.get("expected")
    for cmd, a in zip(r["cmds"], res["lines"]):
        print(cmd[:140], "->", json.dumps(a)[:400])
        if a.get("fault") or a.get("nfault"):
            bad.append((cmd, a))
        if exp and cmd.startswith("F") and "n" in a and (a["n"] != exp["n"] or [x["line"] for x in a["rec"]] != exp["lines"]):
            bad.append((cmd, a))
    if res["stderr"]:
        print(res["stderr"][:3000])
        report_san(ctx, res["stderr"], replay=r)
    if bad and not ctx.violations:
        ctx.violate("replay", rp["key"], "reproduced: %s" % (bad[0],), r)


def selftest(ctx):
    """one recorded field (the sample position of a bit in a sampling point trace), one generated field (the records of a
    SlicerImage behaviour) and one dumped field (the search limit of a legacy slicer on a short line: 0 -> -1) are falsified:
    the check must reject all three"""
    global CORRUPT
    rc = 0
    for what, key in (("points", "tv:points:"), ("image", "diverge:records:"), ("short", "model:LineBound:old:")):
        CORRUPT = what
        sub = core.Ctx(ctx.pid, "quick", ctx.seed)
        try:
            run(sub)
            hit = [v.key for v in sub.violations if v.key.startswith(key)]
            other = [v.key for v in sub.violations if not v.key.startswith(key)]
            print("selftest %s: %s%s" % (what, "rejected (%s)" % hit[0] if hit else "NOT rejected", " other: %s" % other[:3] if other else ""))
            if not hit or other:
                rc = 1
        finally:
            sub.cleanup()
            CORRUPT = ""
    return rc
