"""C07 - the frames the DVB demultiplexer delivers depend only on the byte stream, and it recovers after damage.
spec/DvbStream.tla  grammar / transmitter of a DVB VBI stream (EN 300 472, EN 301 775, ISO 13818-1)
spec/DvbDemux.tla   frames of a stream read sequentially (reference) + the incremental receiver fed with arbitrary
                    chunks, shaped like wrap_around()/demux_pes_packet()/demux_ts_packet()/vbi_dvb_demux_cor(); the
                    continuity counter as receiver state (ContClass: first / next / dup / lost, modulo 16), the capacity
                    of a frame (MaxLines slots, tested where a slot is taken)
MC  (MC_DvbDemux):  _q/_t   PartitionInvariance over ALL partitions of scaled streams (intact, junk, truncated, foreign stream
                            id / PID, bad continuity, lost packets, packets sent twice across the counter wrap ...), callback
                            and coroutine interface, the three receiver policies; Recovery per policy; NoLookaheadOverrun
                    _cap_q/_cap_t  the same with MaxLines = 3: frames of exactly / more than MaxLines data units, in one and in
                            two packets, known and undefined line numbers
                    _cont   DupTransparent / LossBounded: every transport packet of a 21 packet stream sent twice / lost /
                            with foreign, null and adaptation-field-only packets around it, for all 16 first counter values
TV  (Trace_DvbDemux, real constants): streams produced by the REAL multiplexer (and damaged variants) are fed to the REAL
                    demultiplexer in every single-cut partition, double cuts of a prefix, byte by byte, random partitions,
                    with resets, and through vbi_dvb_demux_cor(); after every call the driver logs chunk length, delivered
                    frames and the wrap-around scalars; TLC replays the same chunking in the specification and must
                    reproduce every line.  'end' lines state PartitionInvariance (all runs of a stream deliver the same
                    frames), transparency (a variant stream delivers what its base stream delivers) and Recovery on what
                    the real code delivered.  ASan/UBSan/LSan + watchdog for the safety clause.
                    Families: intact / damage at every offset / junk (round 1); continuity (counters that wrap: every value
                    0..15 on a packet sent twice and on a lost packet, single header fields), capacity (frames of 63 .. 78
                    data units), fields (PES header fields, data unit lengths, stuffing, truncated end, junk with forged
                    sync bytes / start codes at every alignment) (round 2); residues (PES_packet_length + 6 = k x 184 + r for
                    every residue r, claimed end inside / beyond the packet, PES and TS, once per route with > 64 KiB of intact
                    packets behind it), undefined-first (frames whose first data unit is an undefined line of the first / second
                    field as first, second, later frame behind predecessors ending in either field) (round 3).
                    _und_q/_und_t  the same two families at the scaled layout: all partitions + Recovery; ASSUME FreshFrameTakes
                    (a frame that was just begun takes its first unit: the completion loop ends).
Hangs: the driver's watchdog (10 s CPU time / 20 s wall per command) ends the process; the run is repeated alone and reported
                    as hang:vbi_dvb_demux:<pes|ts> only when it hangs again."""
import json, os, random, re, hashlib
from vlib import tlc, build, core, dvb

MANIFEST = dict(
    level="model_checking",
    engine="tlc-mc+tv",
    technique="TLA+ specs DvbStream (stream grammar) and DvbDemux (sequential reference + incremental receiver with the wrap-around "
              "scalars of dvb_demux.c) checked exhaustively by TLC over all partitions of scaled streams; recorded executions of the "
              "real demultiplexer (chunk length, delivered frames, wrap scalars after every vbi_dvb_demux_feed / vbi_dvb_demux_cor "
              "call) on real multiplexer output and damaged variants validated step by step by TLC with the real constants, "
              "including the partition-invariance and recovery clauses evaluated on the recorded deliveries; ASan/UBSan/LSan",
    text="TLC explores for scaled packet layouts every partition (2^(n-1)) of intact and damaged PES and TS streams into feed calls and "
         "coroutine calls and checks that the frames delivered after every call equal those of the sequential reference, that no byte "
         "outside the supplied buffers is examined, and which receiver policies deliver all but the first frame after a damage; that in a "
         "transport stream any packet sent twice (for all 16 counter values, across the wrap 15 -> 0), and packets of other PIDs, null "
         "packets and adaptation-field-only packets anywhere, change nothing, and that a lost packet costs at most the damaged and the next "
         "frame; and (capacity scaled to 3 lines) that a frame of exactly the capacity is delivered while a frame of more data units is "
         "refused without harm to the frames behind it. The real demultiplexer is fed real streams cut at every byte position, at pairs of "
         "positions, byte by byte, randomly, across resets and through the coroutine interface with max_lines 1..64; every call's deliveries "
         "and internal resume state must be reproduced by the specification with the real constants, every partition of a stream must deliver "
         "the same frames, transparent variants of a stream (packets sent twice at every counter value, foreign packets, other stuffing, legal "
         "other data_identifier) must deliver what the stream delivers, and after every damage (overwritten, lost, duplicated bytes at every "
         "position of a PES / TS packet, swapped / lost TS packets, single TS and PES header fields, data unit lengths and ids, oversized "
         "frames of 65 .. 78 data units in one or three PES packets, junk with forged sync bytes and start codes at every alignment, truncated "
         "stream end, a PES_packet_length that leaves every remainder 0..183 modulo 184 with the claimed end inside or beyond the packet, "
         "followed once per route by more than 64 KiB of intact packets) the frames of the intact tail must be delivered as sent. Frames whose "
         "first data unit has an undefined line number (first / second field) are sent as first, second and later frame behind predecessors "
         "ending in either field: where the field goes back or changes at the start of a packet every frame must be delivered as sent "
         "(same field: no recognisable boundary, only the frames behind are asserted); the specification states that a frame just begun "
         "takes its first unit (no endless completion of empty frames), a call that does not return within the CPU-time watchdog twice is a hang.",
    note="Bounded: exhaustive partitions only for the scaled layout (33-byte PES packets, 15-byte TS packets, streams of 70-115 bytes); at real "
         "size partitions are every single cut, sampled/all double cuts of a prefix, byte-by-byte and seeded random ones. Raw (monochrome sample) "
         "data units are skipped by the receiver as built (no raw buffer) and are only passed through. Recovery is not asserted where the damage "
         "enlarges PES_packet_length (in a PES stream; in a TS the next payload_unit_start ends the packet) or removes >= 184 bytes (a receiver has to "
         "trust that field), nor behind junk that forges a start code / sync byte. A packet sent three times is not asserted to be transparent. The policy for the frame in progress at the "
         "damage (kept / dropped) is left open; an undefined line of the second field at the start of a packet behind first field lines is taken for a new "
         "frame (clause FieldUpStartsFrame of DvbDemux, what the demultiplexer documents; EN 301 775 would also allow the same frame to go on); the TS receiver is reachable only through the internal _vbi_dvb_ts_demux_new().",
)

KINDS = ("over", "drop", "dup")


def sha(b):
    return hashlib.sha1(bytes(b)).hexdigest()[:12]


class Run:
    """one demultiplexer life time over one stream"""
    __slots__ = ("sid", "plan", "rec", "cmp", "lines", "res")

    def __init__(self, sid, plan, rec=False, cmp=True):
        # the coroutine interface hands out at most max_lines lines of a frame: "as sent" only with room for all
        self.sid, self.plan, self.cmp = sid, plan, cmp
        self.rec = bool(rec and (plan[0] == "cb" or plan[1] >= 64))


class Stream:
    """base: index of the stream this one is a transparent variant of (a transport packet sent twice, foreign packets
    inserted, other stuffing ...): its runs must deliver what the first run of the base stream delivered"""
    __slots__ = ("bytes", "ts", "pid", "sent", "label", "base")

    def __init__(self, b, ts, pid, sent, label, base=None):
        self.bytes, self.ts, self.pid, self.sent, self.label, self.base = b, ts, pid, sent, label, base


def one_piece(n):
    return ("cb", 64, [n], 0)


def plans_intact(rnd, n, quick, step, prefix2):
    """partitions of an n byte stream: single cuts every `step` bytes, double cuts inside the first prefix2 bytes"""
    P = [one_piece(n)]
    P += [("cb", 64, [k, n - k], 0) for k in range(1, n, step)]
    lim = min(prefix2, n - 1)
    if quick:
        pairs = [(i, j) for i in range(1, lim, 31) for j in range(i + 1, lim, 37)]
        pairs += [(i, i + d) for i in range(1, lim, 5) for d in (1, 46) if i + d < n]
    else:
        pairs = [(i, j) for i in range(1, lim) for j in range(i + 1, lim + 1)]
    P += [("cb", 64, [i, j - i, n - j], 0) for i, j in pairs]
    P.append(("cb", 64, [1] * n, 0))
    for style in ("tiny", "small", "packet", "mixed", "any") * (1 if quick else 8):
        P.append(("cb", 64, dvb.rnd_partition(rnd, n, style), 0))
    for k in (1, 47, n // 2):
        P.append(("cb", 64, [k] + dvb.rnd_partition(rnd, n, "mixed"), 1))            # reset after the first chunk
    for maxl in (1, 5, 64):
        P.append(("cor", maxl, [n], 0))
        P.append(("cor", maxl, [7] * (n // 7 + 1), 0))
        for style in ("small", "packet", "mixed") * (1 if quick else 4):
            P.append(("cor", maxl, dvb.rnd_partition(rnd, n, style), 0))
    P.append(("cor", 64, [1] * n, 0))
    return P


def plans_damaged(rnd, n, quick):
    P = [one_piece(n), ("cb", 64, dvb.rnd_partition(rnd, n, rnd.choice(["mixed", "small", "packet"])), 0)]
    if not quick:
        P.append(("cb", 64, dvb.rnd_partition(rnd, n, "small"), 0))
    if not quick or rnd.random() < 0.1:
        P.append(("cor", rnd.choice([1, 5, 64]), dvb.rnd_partition(rnd, n, "mixed"), 0))
    if rnd.random() < (0.03 if quick else 0.1):
        P.append(("cb", 64, [1] * n, 0))
    return P


# ---------------------------------------------------------------- round 2: continuity counter, frame capacity, header fields
def flat(ps):
    return [b for p in ps for b in p]


def ttx(rnd, line, f2=False):
    d = dict(line=line, id=dvb.TTX, data=dvb.rnd_payload(rnd, dvb.TTX))
    if f2:
        d["f2"] = True
    return d


def simple_frames(rnd, counts):
    """frames of counts[i] Teletext lines that begin on line 7: each is recognisable behind any other"""
    cand = list(range(8, 23)) + list(range(320, 336))
    base = rnd.randrange(1 << 18)
    return [([ttx(rnd, ln) for ln in [7] + sorted(rnd.sample(cand, n - 1))], ((base + i) % 8, (base * 3600 + 3600 * i) % (1 << 30)))
            for i, n in enumerate(counts)]


def sync_clean_try(make, tries=200):
    for _ in range(tries):
        r = make()
        if r is not None:
            return r
    raise tlc.ToolFailure("no transport stream without forged sync bytes found")


def plans_variant(rnd, n, quick, p_cor=0.25, maxls=(1, 5, 64)):
    P = [one_piece(n), ("cb", 64, dvb.rnd_partition(rnd, n, rnd.choice(["mixed", "small", "packet"])), 0)]
    if not quick:
        P.append(("cb", 64, dvb.rnd_partition(rnd, n, "small"), 0))
    if not quick or rnd.random() < p_cor:
        P.append(("cor", rnd.choice(maxls) if quick else rnd.randint(1, 64), dvb.rnd_partition(rnd, n, "mixed"), 0))
    return P


PID2, PID_OTHER = 0x0456, 0x0457
TS_FIELDS = ("transport_error_indicator", "scrambling 01", "scrambling 11", "adaptation_field_control 00", "adaptation_field_control 11",
             "adaptation_field_control 10", "payload_unit_start flipped", "PID of another stream", "counter + 1", "counter + 7",
             "sync byte 0x46")


def ts_field(pkt, kind):
    q = list(pkt)
    if kind == "transport_error_indicator":
        q[1] |= 0x80
    elif kind == "scrambling 01":
        q[3] |= 0x40
    elif kind == "scrambling 11":
        q[3] |= 0xC0
    elif kind == "adaptation_field_control 00":
        q[3] &= ~0x30
    elif kind == "adaptation_field_control 11":
        q[3] |= 0x30
    elif kind == "adaptation_field_control 10":
        q[3] = (q[3] & ~0x30) | 0x20
    elif kind == "payload_unit_start flipped":
        q[1] ^= 0x40
    elif kind == "PID of another stream":
        q[2] ^= 1
    elif kind == "counter + 1":
        q[3] = (q[3] & 0xF0) | ((q[3] + 1) & 15)
    elif kind == "counter + 7":
        q[3] = (q[3] & 0xF0) | ((q[3] + 7) & 15)
    elif kind == "sync byte 0x46":
        q[0] = 0x46
    else:
        raise ValueError(kind)
    return q


def family_continuity(ctx, drv, quick, rnd, add_stream, streams, runs):
    """transport streams whose continuity counters really wrap: every counter value 0 .. 15 on a packet sent twice and on
    a lost packet, at the start / in the middle / at the end of a PES packet and on single-packet PES packets"""
    cfgp = dict(ts=False, pid=0, did=0x10, min=184, max=1472)
    cfg = dict(ts=True, pid=PID2)
    counts = [2, 5, 3, 9, 1, 6, 2, 10, 3, 5, 1, 2]           # 1 2 1 3 1 2 1 3 1 2 1 1 transport packets

    def make():
        frames = simple_frames(rnd, counts)
        pes = dvb.pes_of_mux(dvb.real_stream(drv, cfgp, frames), False)
        pk0, owner = dvb.ts_packetize(pes, PID2, 0)
        return (frames, pes, owner) if dvb.sync_clean(flat(pk0)) else None
    frames, pes, owner = sync_clean_try(make)
    sent = [dvb.sent_frame(fr, pts) for fr, pts in frames]
    N = len(owner)
    pos = []
    for k in range(N):
        n_in = owner.count(owner[k])
        first, last = (k == 0 or owner[k - 1] != owner[k]), (k == N - 1 or owner[k + 1] != owner[k])
        pos.append("only" if n_in == 1 else "first" if first else "last" if last else "middle")
    # first counter values: the counter 15 (wrap 15 -> 0 behind it) on a packet of every position type, plus a seeded one
    starts = [(15 - rnd.choice([k for k in range(2, N - 3) if pos[k] == t])) % 16 for t in ("only", "first", "middle", "last")]
    starts.append(rnd.randrange(16))
    starts = sorted(set(starts)) if quick else list(range(16))
    covered = set()
    must = sent[1:-1]                  # the first PES packet is one transport packet: over before the receiver is synchronised
    for ci, cc0 in enumerate(starts):
        pk, _ = dvb.ts_packetize(pes, PID2, cc0)
        cc = lambda k: (cc0 + k) % 16
        b0 = flat(pk)
        base = add_stream(b0, cfg, must, "continuity: intact stream of %d transport packets, first counter %d" % (N, cc0))
        for plan in [one_piece(len(b0)), ("cb", 64, dvb.rnd_partition(rnd, len(b0), "mixed"), 0), ("cb", 64, dvb.rnd_partition(rnd, len(b0), "small"), 0),
                     ("cor", 64, dvb.rnd_partition(rnd, len(b0), "packet"), 0)]:
            runs.append(Run(base, plan, rec=True))

        def variant(ps, label):
            sid = add_stream(flat(ps), cfg, must, label + " (first counter %d)" % cc0, base=base)
            for plan in plans_variant(rnd, len(streams[sid].bytes), quick):
                runs.append(Run(sid, plan, rec=True))
            return sid
        for k in range(N):
            what = "transport packet %d (counter %d, %s packet of its PES packet)" % (k, cc(k), pos[k])
            sid = variant(pk[:k + 1] + [pk[k]] + pk[k + 1:], what + " sent twice")
            covered.add(("twice", cc(k)))
            covered.add(("twice", cc(k), pos[k]))
            if ci == 0 and cc(k) == 15:
                ctx.sample(dict(case="transparent variant: " + streams[sid].label, bytes=len(streams[sid].bytes), must_deliver="what the intact stream delivers"))
            if not quick or k % 4 == cc0 % 4:
                variant(pk[:k + 1] + [dvb.ts_other(rnd, PID_OTHER, rnd.randrange(16)), pk[k]] + pk[k + 1:], what + " sent twice, a packet of another PID between")
            j = owner[k]
            if not quick or k % 4 == cc0 % 4:
                # not allowed to a transmitter (2.4.3.3: twice at most): a receiver may ignore the third packet or take it for a discontinuity
                sid = add_stream(flat(pk[:k + 1] + [pk[k], pk[k]] + pk[k + 1:]), cfg, sent[j + 2:-1], what + " sent three times (first counter %d)" % cc0)
                for plan in plans_variant(rnd, len(streams[sid].bytes), quick):
                    runs.append(Run(sid, plan, rec=True))
            sid = add_stream(flat(pk[:k] + pk[k + 1:]), cfg, sent[j + 2:-1], what + " lost (first counter %d)" % cc0)
            for plan in plans_variant(rnd, len(streams[sid].bytes), quick):
                runs.append(Run(sid, plan, rec=True))
            covered.add(("lost", cc(k)))
        variant([q for p_ in pk for q in (p_, p_)], "every transport packet sent twice")
        ps = []
        for k, p_ in enumerate(pk):
            # (not in front of the first packet: the receiver would be synchronised early enough to see the first PES packet, which the
            # intact stream - a one-packet PES packet at its very start - does not show: one frame MORE, correctly)
            while k > 0 and rnd.random() < 0.45:
                ps.append(rnd.choice([dvb.ts_other(rnd, PID_OTHER, rnd.randrange(16)), dvb.ts_null(), dvb.ts_other(rnd, 0x1FFE, rnd.randrange(16)),
                                      dvb.ts_af_only(PID2, cc(k - 1))]))
            ps.append(p_)
        variant(ps, "packets of other PIDs, null packets and adaptation-field-only packets of the own PID between the packets")
        # single header fields of one packet
        for k in range(N):
            if quick and (ci != len(starts) - 1 or k % 3 != ctx.seed % 3):
                continue
            for kind in TS_FIELDS:
                j = owner[k]
                sid = add_stream(flat(pk[:k] + [ts_field(pk[k], kind)] + pk[k + 1:]), cfg, sent[j + 2:-1],
                                 "transport packet %d (%s of its PES packet): %s (first counter %d)" % (k, pos[k], kind, cc0))
                for plan in plans_variant(rnd, len(streams[sid].bytes), quick, p_cor=0.1):
                    runs.append(Run(sid, plan, rec=True))
    # by construction: the counters wrap where it matters
    missing = [(w, c) for w in ("twice", "lost") for c in range(16) if (w, c) not in covered]
    missing += [("twice", 15, t) for t in ("only", "first", "middle", "last") if ("twice", 15, t) not in covered]
    if missing:
        raise tlc.ToolFailure("continuity family does not cover %s" % missing)
    ctx.cov["continuity"] = dict(first_counters=starts, packets=N, position_types=sorted(set(pos)))


CC525F1, CC525F2 = dvb.CC525F1, dvb.CC525F2


def big_lines(rnd, n, kind):
    """n lines of ONE frame.  line0: line 7, then Teletext with undefined line numbers; known: ascending known line numbers
    (525-line caption units on 1 .. 31 and 264 .. 294, Teletext on 320 .. 335); mixed: every known Teletext line followed by
    one with undefined line number of the same field"""
    if kind == "line0":
        return [ttx(rnd, 7)] + [ttx(rnd, 0) for _ in range(n - 1)]
    if kind == "known":
        ls = [dict(line=l, id=CC525F1, data=dvb.rnd_payload(rnd, dvb.CC)) for l in range(1, 32)]
        ls += [dict(line=l, id=CC525F2, data=dvb.rnd_payload(rnd, dvb.CC)) for l in range(264, 295)]
        ls += [ttx(rnd, l) for l in range(320, 336)]
        if n > len(ls):
            raise ValueError(n)
        return ls[:n]
    ls = []
    for l in range(7, 23):
        ls += [ttx(rnd, l), ttx(rnd, 0)]
    for l in range(320, 336):
        ls += [ttx(rnd, l), ttx(rnd, 0, True)]
    while len(ls) < n:
        ls.append(ttx(rnd, 0, True))
    return ls[:n]


CAP = 64


def family_capacity(ctx, drv, quick, rnd, add_stream, streams, runs):
    """frames of many data units around the capacity of a frame (64 lines): 63, 64 (ordinary frames: everything is
    delivered), 65, 71, 78 ... (oversized: damage), in one big PES packet and spread over three packets of the same frame"""
    sizes = (63, 64, 65, 71, 78) if quick else (8, 32, 60, 62, 63, 64, 65, 66, 70, 71, 72, 77, 78)     # (>= 7 known lines: the next frame, beginning on line 7, stays recognisable)
    counts = [2, 3, None, 3, 2, 4, 1]
    D = 2
    for ts in (False, True):
        cfg = dict(ts=ts, pid=PID2 if ts else 0)
        for n in sizes:
            combos = [(k_, l_) for k_ in ("line0", "known", "mixed") for l_ in ("one", "spread")]
            if quick:          # two fixed combinations and a seeded third one
                combos = [("line0", "one"), ("mixed", "spread"), rnd.choice([("known", "one"), ("known", "spread"), ("line0", "spread"), ("mixed", "one")])]
            for kind, layout in combos:
                if True:
                    def make():
                        small = simple_frames(rnd, [c or 1 for c in counts])
                        frames = [(big_lines(rnd, n, kind), pts) if counts[i] is None else (fr, pts) for i, (fr, pts) in enumerate(small)]
                        pes = []
                        for i, (fr, pts) in enumerate(frames):
                            us = [dvb.unit_of(l) for l in fr]
                            if i == D and layout == "spread" and len(us) >= 3:
                                c1, c2 = sorted(rnd.sample(range(1, len(us)), 2))
                                pes += [dvb.enc_pes(part, pts, 0x99) for part in (us[:c1], us[c1:c2], us[c2:])]
                            else:
                                pes.append(dvb.enc_pes(us, pts, 0x99, stuff_lens=[rnd.choice([0, 1, 3, 44, 100, 255]) for _ in range(3)]))
                        if not ts:
                            return frames, flat(pes)
                        b = flat(dvb.ts_packetize(pes, PID2, rnd.randrange(16))[0])
                        return (frames, b) if dvb.sync_clean(b) else None
                    frames, b = sync_clean_try(make)
                    sent = [dvb.sent_frame(fr, pts) for fr, pts in frames]
                    fits = n <= CAP
                    must = sent[(1 if ts else 0):-1] if fits else sent[D + 2:-1]
                    sid = add_stream(b, cfg, must, "capacity: a frame of %d data units (%s line numbers, %s) in a %s stream" % (
                        n, {"line0": "undefined", "known": "known", "mixed": "known and undefined"}[kind],
                        "one PES packet" if layout == "one" else "three PES packets", "TS" if ts else "PES"))
                    L = len(b)
                    P = [one_piece(L), ("cb", 64, dvb.rnd_partition(rnd, L, "mixed"), 0), ("cb", 64, dvb.rnd_partition(rnd, L, "packet"), 0)]
                    if quick:
                        for maxl in rnd.sample([1, 2, 31, 62, 63], 1) + [64]:
                            P.append(("cor", maxl, rnd.choice([[L], dvb.rnd_partition(rnd, L, "mixed")]), 0))
                    else:
                        P += [("cb", 64, dvb.rnd_partition(rnd, L, "small"), 0), ("cb", 64, dvb.rnd_partition(rnd, L, "any"), 0)]
                        for maxl in range(1, 65):
                            if layout == "one" or maxl % 8 == n % 8 or maxl >= 63:
                                P.append(("cor", maxl, [L] if maxl % 2 else dvb.rnd_partition(rnd, L, "mixed"), 0))
                    for plan in P:
                        runs.append(Run(sid, plan, rec=True))
                    if n == 71 and kind == "line0" and layout == "one" and not ts:
                        ctx.sample(dict(case=streams[sid].label, bytes=L, must_deliver=[[l["line"] for l in f["lines"]] for f in must]))
    # the same with the real multiplexer as the transmitter (undefined lines only)
    for ts in (False, True):
        cfg = dict(ts=ts, pid=PID2 if ts else 0, did=0x99, min=184, max=65504)
        for n in (63, 64, 65, 71) if quick else (60, 63, 64, 65, 66, 71, 80):
            def make():
                small = simple_frames(rnd, [c or 1 for c in counts])
                frames = [(big_lines(rnd, n, "line0"), pts) if counts[i] is None else (fr, pts) for i, (fr, pts) in enumerate(small)]
                b = flat(dvb.real_stream(drv, cfg, frames))
                return (frames, b) if (not ts or dvb.sync_clean(b)) else None
            frames, b = sync_clean_try(make)
            sent = [dvb.sent_frame(fr, pts) for fr, pts in frames]
            must = sent[(1 if ts else 0):-1] if n <= CAP else sent[D + 2:-1]
            sid = add_stream(b, cfg, must, "capacity: a frame of %d lines (undefined line numbers) from the real %s multiplexer" % (n, "TS" if ts else "PES"))
            for plan in plans_variant(rnd, len(b), quick, p_cor=1.0, maxls=(1, 63, 64)):
                runs.append(Run(sid, plan, rec=True))


def units_at(P):
    """offsets of the data units of PES packet P (cut at the length fields)"""
    at, q = [], 46
    while q + 2 <= len(P) and q + 2 + P[q + 1] <= len(P):
        at.append(q)
        q += 2 + P[q + 1]
    return at


def pes_mutations(rnd, P, quick):
    """directed changes of single fields of the VBI PES packet P -> [(label, bytes, recovery asserted in a PES stream,
    in a TS stream, transparent)]"""
    out = []
    L = len(P) - 6

    def put(label, off, v, rec_pes=True, rec_ts=True, same=False):
        q = list(P)
        if isinstance(v, int):
            v = [v]
        q[off:off + len(v)] = v
        out.append((label, q, rec_pes, rec_ts, same))
    for v in (L + 184, L + 7, L + 1, 0xFFFF, L - 1, L - 46, L - 184, 177, 0):
        if v >= 0:
            # a PES receiver has to trust a length that claims more than the packet; in a TS payload_unit_start shows the next packet
            put("PES_packet_length %d instead of %d" % (v, L), 4, [v >> 8, v & 255], rec_pes=v <= L, rec_ts=True)
    for v in (0, 35, 37, 255):
        put("PES_header_data_length %d" % v, 8, v)
    for v in (0x00, 0x40, 0xC0, 0x81):
        put("PTS_DTS_flags byte 0x%02x" % v, 7, v)
    for v in (0x80, 0x94, 0x04, 0x85, 0xFF):
        put("PES header byte 6 = 0x%02x" % v, 6, v)
    for v in (0x00, 0x0F, 0x20, 0x98, 0x9C, 0xFF):
        put("data_identifier 0x%02x" % v, 45, v)
    for v in (0x1F, 0x9A):
        put("data_identifier 0x%02x (legal)" % v, 45, v, same=True)
    at = units_at(P)
    data = [a for a in at if P[a] != 0xFF]
    for a in data[:2]:
        i = at.index(a)
        for v in (0x2B, 0x2D, 0x00, 0x01, 0xFF):
            put("data_unit_length 0x%02x in data unit %d" % (v, i), a + 1, v)
        for v in (0x00, 0x77, 0xC6, 0xB6):
            put("data_unit_id 0x%02x in data unit %d" % (v, i), a, v)
        if P[a] in (2, 3):
            put("framing code 0x27 in data unit %d" % i, a + 3, 0x27)
            put("line_offset 3 in data unit %d" % i, a + 2, 0xE3)
            put("line_offset 31 in data unit %d" % i, a + 2, 0xFF)
            put("reserved bits of the line_offset byte cleared in data unit %d" % i, a + 2, P[a + 2] & 0x3F, same=True)
    # stuffing: behind the last data unit
    tail = (data[-1] + 2 + P[data[-1] + 1]) if data else 46
    room = len(P) - tail
    if room >= 2:
        for _ in range(2 if quick else 6):
            lens = [rnd.choice([0, 0, 1, 2, 7, 43, 44, 45, 100, 254, 255]) for _ in range(6)]
            try:
                put("stuffing data units with the lengths %s.." % lens[:3], tail, dvb.stuffing(room, False, lens), same=True)
            except ValueError:
                pass
        q = list(P)
        st = [a for a in at if a >= tail]
        if st:
            put("last stuffing data unit one byte too long", st[-1] + 1, (P[st[-1] + 1] + 1) & 255)
    if data and room >= 2 and room <= 255 + 2:
        # the stuffing in front of the data units
        body = P[46:tail]
        put("stuffing in front of the data units", 46, dvb.stuffing(room, False, []) + body, same=True)
    return out


JUNK_PATTERNS = [([0x47], "a sync byte"), ([0, 0, 1, 0xBD], "a VBI start code"), ([0, 0, 1, 0xBD, 0, 178], "a start code with PES_packet_length 178"),
                 ([0, 0, 1, 0xBD, 0xFF, 0xFF], "a start code with PES_packet_length 65535"), ([0, 0, 1], "a start code prefix"),
                 ([0x47, 0x40 | (PID2 >> 8), PID2 & 255, 0x10, 0, 0, 1, 0xBD, 0, 178], "a transport packet header of the PID with a PES packet start"),
                 ([0, 0, 1, 0xE0, 0, 4], "a video start code"), ([0x47, 0x1F, 0xFF, 0x10], "a null packet header")]


def family_fields(ctx, drv, quick, rnd, add_stream, streams, runs):
    """single header fields of a PES packet, data unit lengths, stuffing, truncated end, junk with forged sync bytes / start codes"""
    D = 2
    for ci in (0, 1):
        cfgp = CFGS[ci]

        def make():
            frames, pk = dvb.real_frames_stream(drv, rnd, cfgp, 7, max_ttx=4, line0=0.0)
            pes = [list(p) for p in pk]
            return (frames, pes) if dvb.sync_clean(flat(dvb.ts_packetize(pes, PID2, 0)[0])) else None
        frames, pes = sync_clean_try(make)
        sent = [dvb.sent_frame(fr, pts) for fr, pts in frames]
        muts = pes_mutations(rnd, pes[D], quick)
        for ts in (False, True):
            cfg = dict(ts=ts, pid=PID2 if ts else 0)
            cc0 = rnd.randrange(16)
            enc = (lambda pp: flat(dvb.ts_packetize(pp, PID2, cc0)[0])) if ts else flat
            first = 1 if (ts and len(pes[0]) == 184) else 0
            b0 = enc(pes)
            base = add_stream(b0, cfg, sent[first:-1], "fields: intact %s stream, data_identifier 0x%02x" % ("TS" if ts else "PES", cfgp["did"]))
            for plan in plans_variant(rnd, len(b0), quick, p_cor=1.0):
                runs.append(Run(base, plan, rec=True))
            for label, q, rec_pes, rec_ts, same in muts:
                b = enc(pes[:D] + [q] + pes[D + 1:])
                if ts and not dvb.sync_clean(b):
                    continue
                if same:
                    sid = add_stream(b, cfg, sent[first:-1], "transparent: %s in packet %d of a %s stream" % (label, D, "TS" if ts else "PES"), base=base)
                else:
                    sid = add_stream(b, cfg, sent[D + 2:-1], "%s in packet %d of a %s stream" % (label, D, "TS" if ts else "PES"))
                for plan in plans_variant(rnd, len(b), quick):
                    runs.append(Run(sid, plan, rec=same or (rec_ts if ts else rec_pes)))
            # the stream ends anywhere in its last two packets
            n = len(b0)
            lo = n - len(enc(pes[-2:]))
            for cut in (sorted(rnd.sample(range(lo, n), 10)) if quick else range(lo, n)):
                sid = add_stream(b0[:cut], cfg, [], "%s stream truncated at byte %d of %d" % ("TS" if ts else "PES", cut, n))
                for plan in plans_variant(rnd, cut, quick, p_cor=0.3)[:(2 if quick else 3)]:
                    runs.append(Run(sid, plan, rec=False))
            # junk between two packets, a forged pattern at every alignment
            a = len(enc(pes[:D]))
            for pat, what in JUNK_PATTERNS:
                for L in (len(pat) + 3, 50, 190, 400):
                    offs = range(0, L - len(pat) + 1)
                    if quick:
                        offs = rnd.sample(list(offs), 1)
                    elif L >= 190:
                        offs = list(offs)[rnd.randrange(3)::3] if L == 190 else rnd.sample(list(offs), 24)
                    for o in offs:
                        junk = [rnd.choice(dvb.SAFE) for _ in range(L)]
                        junk[o:o + len(pat)] = pat
                        b = b0[:a] + junk + b0[a:]
                        forged = 0xBD in pat or (ts and 0x47 in pat) or (not ts and pat[:3] == [0, 0, 1])      # a forged header may claim any length
                        sid = add_stream(b, cfg, sent[D + 1:-1], "%d junk bytes with %s at offset %d between packets %d and %d of a %s stream" % (
                            L, what, o, D - 1, D, "TS" if ts else "PES"))
                        for plan in plans_variant(rnd, len(b), quick, p_cor=0.15):
                            runs.append(Run(sid, plan, rec=not forged))

# ---------------------------------------------------------------- round 3: every residue of the packet length, frames that begin with an undefined line
def family_residues(ctx, drv, quick, rnd, add_stream, streams, runs):
    """PES_packet_length of packet D (really 4 x 184 bytes) rewritten so that PES_packet_length + 6 = k x 184 + r for EVERY
    residue r in 0 .. 183: k = 1, 2, 3 (the field claims less than the packet has: in a TS the claimed end lies r bytes inside
    transport packet k, which continues without payload_unit_start) and k = 4 (more).  Non-conformant (EN 300 472 4.2: N x 184 - 6)
    but it passes every header test.  Behind the damage intact packets; once per route a tail of > 64 KiB (a receiver that
    loses count of the bytes of the damaged packet must not write them anywhere: pes_buffer holds 64 KiB)"""
    D, A = 2, 4
    counts = [2, 3, 12, 3, 2, 4, 1, 2]
    small, large = list(range(1, 6)), list(range(179, 184))
    covered = set()

    def make():
        frames = simple_frames(rnd, counts)
        pes = dvb.pes_of_mux(dvb.real_stream(drv, dict(ts=False, pid=0, did=0x99, min=184, max=1472), frames), False)
        return (frames, pes) if (len(pes[D]) == A * 184 and dvb.sync_clean(flat(dvb.ts_packetize(pes, PID2, 0)[0]))) else None
    frames, pes = sync_clean_try(make)
    sent = [dvb.sent_frame(fr, pts) for fr, pts in frames]
    if quick:
        others = [r for r in range(184) if r not in small + large + [0, 6, 7]]
        rot = [others[(ctx.seed * 13 + 23 * i) % len(others)] for i in range(6)]
        residues = sorted(set(small + large + [0, 6, 7] + rot))
    else:
        residues = list(range(184))
    for ts in (False, True):
        cfg = dict(ts=ts, pid=PID2 if ts else 0)
        cc0 = rnd.randrange(16)
        enc = (lambda pp: flat(dvb.ts_packetize(pp, PID2, cc0)[0])) if ts else flat
        first = 1 if (ts and len(pes[0]) == 184) else 0
        b0 = enc(pes)
        base = add_stream(b0, cfg, sent[first:-1], "residues: intact %s stream" % ("TS" if ts else "PES"))
        for plan in plans_variant(rnd, len(b0), quick, p_cor=1.0):
            runs.append(Run(base, plan, rec=True))
        for r in residues:
            if quick:
                k1 = 1 + (ctx.seed + r) % 3
                inside, beyond = [k1] + [k for k in (1, 2, 3) if k != k1], ([4] if r % 3 == ctx.seed % 3 else [])
            else:
                inside, beyond = [1, 2, 3], [4]
            done = 0
            for k in inside + beyond:
                T = k * 184 + r
                if (k == A and r == 0) or (quick and k < A and done):        # quick: one claimed end inside the packet (spares: only
                    continue                                                 # when a length byte forges a sync byte)
                q = list(pes[D])
                q[4:6] = [(T - 6) >> 8, (T - 6) & 255]
                b = enc(pes[:D] + [q] + pes[D + 1:])
                if ts and not dvb.sync_clean(b):
                    continue
                sid = add_stream(b, cfg, sent[D + 2:-1], "residues: PES_packet_length + 6 = %d x 184 + %d instead of %d x 184 in packet %d of a %s stream" % (
                    k, r, A, D, "TS" if ts else "PES"))
                for plan in plans_variant(rnd, len(b), quick):
                    runs.append(Run(sid, plan, rec=(ts or T <= A * 184)))
                covered.add((ts, r))
                if k < A:
                    covered.add((ts, r, "inside"))
                    done += 1
        # the long tail: > 64 KiB of intact single-packet frames behind the damage
        for r in (rnd.sample(small, 1) + (rnd.sample(large, 1) if ts else [])) if quick else (small + large + [0, 6, 7, 92]):
            def make_long():
                extra, xp, t0 = [], [], rnd.randrange(1 << 20)
                while len(extra) < 520:          # single-packet frames (line 7), no byte of a packet imitates a sync byte
                    t0 += 3600
                    fr, pts = [ttx(rnd, 7)], (len(extra) % 8, (t0 + rnd.randrange(3600)) % (1 << 30))
                    pk = dvb.enc_pes([dvb.unit_of(l) for l in fr], pts, 0x99)
                    if 0x47 not in pk:
                        extra.append((fr, pts)); xp.append(pk)
                k = rnd.choice([1, 2, 3])
                q = list(pes[D])
                T = k * 184 + r
                q[4:6] = [(T - 6) >> 8, (T - 6) & 255]
                b = enc(pes[:D] + [q] + pes[D + 1:] + xp)
                return (extra, b, k) if (not ts or dvb.sync_clean(b)) else None
            extra, b, k = sync_clean_try(make_long)
            must = (sent + [dvb.sent_frame(fr, pts) for fr, pts in extra])[D + 2:-1]
            sid = add_stream(b, cfg, must, "residues: PES_packet_length + 6 = %d x 184 + %d in packet %d of a %s stream, %d bytes of intact packets behind it" % (
                k, r, D, "TS" if ts else "PES", len(b) - len(b0)))
            n = len(b)
            P = [("cb", 64, [4096] * (n // 4096) + ([n % 4096] if n % 4096 else []), 0)]
            if ts or not quick:
                P.append(("cb", 64, dvb.rnd_partition(rnd, n, "packet"), 0))
            if not quick:
                P.append(("cor", 64, [1880] * (n // 1880) + ([n % 1880] if n % 1880 else []), 0))
            for plan in P:
                runs.append(Run(sid, plan, rec=True))
            covered.add((ts, r, "long"))
            if ts and r in small:
                ctx.sample(dict(case=streams[sid].label, bytes=n, must_deliver="the last %d frames as sent" % len(must)))
    need = [(ts, r) for ts in (False, True) for r in (range(184) if not quick else small + large)]
    missing = [x for x in need if x not in covered or (x[0], x[1], "inside") not in covered]
    if not any(c == (True, r, "long") for r in small for c in covered):
        missing.append("long TS tail behind a small residue")
    if missing:
        raise tlc.ToolFailure("residue family does not cover %s" % missing[:10])
    ctx.cov["residues"] = dict(residues=len(residues), routes=2)


PRED = {"f1": lambda rnd: [ttx(rnd, 7), ttx(rnd, 12)], "f2": lambda rnd: [ttx(rnd, 7), ttx(rnd, 330)],
        "u1": lambda rnd: [ttx(rnd, 7), ttx(rnd, 0)], "u2": lambda rnd: [ttx(rnd, 7), ttx(rnd, 321), ttx(rnd, 0, True)]}
PRED_FIELD = {"f1": 1, "f2": 2, "u1": 1, "u2": 2}
# frames whose FIRST data unit has an undefined line number (line_offset 0: only the field parity is known), first / second field
UBODY = {"E0": [[(0, 0), (9, 0), (15, 0), (321, 0)], [(0, 0), (0, 0), (10, 0), (0, 0), (320, 0), (0, 1)], [(0, 0), (8, 0)]],
         "C0": [[(0, 1), (320, 0), (330, 0)], [(0, 1), (0, 1), (325, 0), (0, 1)], [(0, 1), (321, 0)]]}


def family_undefined_first(ctx, drv, quick, rnd, add_stream, streams, runs):
    """frames that begin with a data unit of undefined line number of the first (lofp 0xE0) or second field (0xC0), as the
    first, second and later frame of a stream, behind predecessors that end in the first / second field with a known /
    undefined line, followed by known and undefined lines.  Where the frame begins (DvbDemux LineAddr, after line_address()):
    field parity goes back = new frame; goes up at the start of a packet = new frame (clause FieldUpStartsFrame); same field =
    not recognisable (nothing asserted for that frame and the next)"""
    covered = set()
    for ts in (False, True):
        cfg = dict(ts=ts, pid=PID2 if ts else 0)
        cases = [(kind, pos, pred) for kind in ("E0", "C0") for pos in (0, 1, 2, 4) for pred in (("-",) if pos == 0 else ("f1", "f2", "u1", "u2"))]
        cases.append(("alt", 2, "f2"))
        for kind, pos, pred in cases:
            bodies = [None] if kind == "alt" else (rnd.sample(UBODY[kind], 1) if quick else UBODY[kind])
            for body in bodies:
                def make():
                    frames = simple_frames(rnd, [2, 3, 2, 4, 2, 3, 1, 2])
                    fr = [f for f, _ in frames]
                    if kind == "alt":
                        fr[1] = PRED["f2"](rnd)
                        fr[2] = [ttx(rnd, 0), ttx(rnd, 0)]
                        fr[3] = [ttx(rnd, 0, True)]
                        fr[4] = [ttx(rnd, 0), ttx(rnd, 9)]
                    else:
                        if pos:
                            fr[pos - 1] = PRED[pred](rnd)
                        fr[pos] = [ttx(rnd, ln, bool(f2)) for ln, f2 in body]
                    frames = [(f, pts) for f, (_, pts) in zip(fr, frames)]
                    pes = [dvb.enc_pes([dvb.unit_of(l) for l in f], pts, 0x99) for f, pts in frames]
                    if not ts:
                        return frames, pes, flat(pes)
                    b = flat(dvb.ts_packetize(pes, PID2, rnd.randrange(16))[0])
                    return (frames, pes, b) if dvb.sync_clean(b) else None
                frames, pes, b = sync_clean_try(make)
                sent = [dvb.sent_frame(f, pts) for f, pts in frames]
                first = 1 if (ts and len(pes[0]) == 184) else 0
                f = 1 if kind == "E0" else 2
                how = "first" if pos == 0 else "back" if kind == "alt" or f < PRED_FIELD[pred] else "up" if f > PRED_FIELD[pred] else "same"
                must = sent[first:-1] if how != "same" else sent[pos + 2:-1]
                what = ("frames [known .. second field] [undefined first field x 2] [undefined second field] [undefined first field, line 9]" if kind == "alt" else
                        "frame %d begins with an undefined line of the %s field (lofp 0x%s; units %s)%s" % (
                            pos, "first" if f == 1 else "second", kind, [(l if l else ("u2" if f2 else "u1")) for l, f2 in body],
                            "" if pos == 0 else ", its predecessor ends with %s (%s)" % (
                                {"f1": "line 12", "f2": "line 330", "u1": "an undefined line of the first field", "u2": "an undefined line of the second field"}[pred],
                                {"back": "field goes back: new frame", "up": "field goes up at the start of a packet: new frame", "same": "same field: no recognisable boundary"}[how])))
                sid = add_stream(b, cfg, must, "undefined-first: %s, %s stream" % (what, "TS" if ts else "PES"))
                n = len(b)
                P = [one_piece(n), ("cb", 64, dvb.rnd_partition(rnd, n, rnd.choice(["mixed", "small", "packet"])), 0),
                     ("cor", rnd.choice([1, 2, 64]) if quick else 64, rnd.choice([[n], dvb.rnd_partition(rnd, n, "mixed")]), 0)]
                if not quick:
                    P += [("cb", 64, dvb.rnd_partition(rnd, n, "small"), 0), ("cor", 1, [n], 0), ("cor", 3, dvb.rnd_partition(rnd, n, "packet"), 0),
                          ("cb", 64, [1] * n, 0)]
                for plan in P:
                    runs.append(Run(sid, plan, rec=True))
                covered.add((ts, kind, min(pos, 2), how))
                if kind == "C0" and pos == 1 and how == "up" and not ts:
                    ctx.sample(dict(case=streams[sid].label, bytes=n, must_deliver=[[l["line"] for l in fr_["lines"]] for fr_ in must]))
    missing = [(ts, kind, pos, how) for ts in (False, True) for kind in ("E0", "C0") for pos in (1, 2)
               for how in (("back", "same") if kind == "E0" else ("up", "same")) if (ts, kind, pos, how) not in covered]
    missing += [(ts, kind, 0, "first") for ts in (False, True) for kind in ("E0", "C0") if (ts, kind, 0, "first") not in covered]
    if missing:
        raise tlc.ToolFailure("undefined-first family does not cover %s" % missing)


CFGS = [dict(ts=False, pid=0, did=0x10, min=184, max=1472, max_ttx=3, line0=0.0),
        dict(ts=False, pid=0, did=0x99, min=184, max=65504, max_ttx=9, line0=0.3),
        dict(ts=True, pid=0x123, did=0x10, min=184, max=1472, max_ttx=3, line0=0.0),
        dict(ts=True, pid=0x1FFE, did=0x9B, min=368, max=1472, max_ttx=7, line0=0.3)]

SAME_LINE = [[7], [7], [7, 16], [16], [16, 335], [335], [9, 20], [20]]
# frames of the directed case for the known finding: F[d] and F[d+2] are not separated by a line number wrap
TAIL_LOSS = [[7, 9], [8, 320], [7, 9], [8, 330], [10, 12], [7, 16], [7, 20]]


def build_cases(ctx, drv, quick):
    """-> (streams, runs)"""
    rnd = random.Random(ctx.seed * 7919 + 17)
    streams, runs = [], []

    def add_stream(b, cfg, sent, label, base=None):
        streams.append(Stream(b, cfg["ts"], cfg["pid"], sent, label, base))
        return len(streams) - 1

    for ci, cfg in enumerate(CFGS):
        # 1. an intact stream, all kinds of partitions
        frames, pk = dvb.real_frames_stream(drv, rnd, cfg, 3 if quick else 5, max_ttx=cfg["max_ttx"], line0=cfg["line0"])
        b = [x for p in pk for x in p]
        sent = [dvb.sent_frame(fr, pts) for fr, pts in frames]
        # the TS receiver needs 197 bytes to synchronise; a first PES packet of one TS packet is over by then
        sid = add_stream(b, cfg, sent[1:-1] if cfg["ts"] else sent[:-1], "intact cfg%d" % ci)
        small = ci in (0, 2)
        for plan in plans_intact(rnd, len(b), quick, (1 if small else 4) if quick else 1, 600 if quick else (260 if small else 120)):
            runs.append(Run(sid, plan, rec=True))
        if ci == 0:
            ctx.sample(dict(case="intact stream from the real multiplexer", cfg={k: cfg[k] for k in ("ts", "pid", "did", "min", "max")},
                            bytes=len(b), frames=[[l["line"] for l in fr] for fr, _ in frames], partitions=sum(1 for r in runs if r.sid == sid)))
        # 2. damage at every position of packet 2 of a 7 frame stream
        frames, pk = dvb.real_frames_stream(drv, rnd, cfg, 7, max_ttx=min(cfg["max_ttx"], 4), line0=0.0)
        sent = [dvb.sent_frame(fr, pts) for fr, pts in frames]
        d = 2
        plen = len(pk[d])
        pos = range(ci % 3, plen, 11 if quick else 1)
        for off in pos:
            for kind in KINDS:
                for ln in ((rnd.choice([1, 2, 5, 20, 60, 100, 180]),) if quick else (1, rnd.choice([2, 3, 5]), 20, rnd.choice([60, 100, 180]))):
                    b, rec = dvb.damage(rnd, pk, d, kind, off, ln, cfg["ts"])
                    sid = add_stream(b, cfg, sent[d + 2:-1], "%s %d bytes at offset %d of packet %d, cfg%d" % (kind, ln, off, d, ci))
                    for plan in plans_damaged(rnd, len(b), quick):
                        runs.append(Run(sid, plan, rec=rec))
        if cfg["ts"]:
            for off in range(0, plen - 188, 188):
                b, rec = dvb.damage(rnd, pk, d, "swap", off, 0, True)
                sid = add_stream(b, cfg, sent[d + 2:-1], "swap TS packets at offset %d of packet %d, cfg%d" % (off, d, ci))
                for plan in plans_damaged(rnd, len(b), quick):
                    runs.append(Run(sid, plan, rec=rec))
            # a whole TS packet lost / repeated
            st = [x for p in pk for x in p]
            a = sum(len(p) for p in pk[:d])
            for k in range(plen // 188):
                for b, what in ((st[:a + 188 * k] + st[a + 188 * k + 188:], "lost"), (st[:a + 188 * k + 188] + st[a + 188 * k:], "repeated")):
                    sid = add_stream(b, cfg, sent[d + 2:-1], "TS packet %d of packet %d %s, cfg%d" % (k, d, what, ci))
                    for plan in plans_damaged(rnd, len(b), quick):
                        runs.append(Run(sid, plan, rec=True))
    # 2b. frames that begin on the very line their predecessor ended on (one-line subtitle streams)
    for ci in (0, 2):
        cfg = CFGS[ci]
        frames = [([dict(line=ln, id=dvb.TTX, data=dvb.rnd_payload(rnd, dvb.TTX)) for ln in lines], (i % 8, 3600 * i + 11))
                  for i, lines in enumerate(SAME_LINE)]
        pk = dvb.real_stream(drv, cfg, frames)
        b = [x for p in pk for x in p]
        sent = [dvb.sent_frame(fr, pts) for fr, pts in frames]
        sid = add_stream(b, cfg, sent[1:-1] if cfg["ts"] else sent[:-1], "frames starting on the last line of their predecessor, cfg%d" % ci)
        n = len(b)
        for plan in [one_piece(n), ("cb", 64, dvb.rnd_partition(rnd, n, "mixed"), 0), ("cb", 64, dvb.rnd_partition(rnd, n, "small"), 0),
                     ("cor", 64, dvb.rnd_partition(rnd, n, "packet"), 0), ("cor", 1, [n], 0)]:
            runs.append(Run(sid, plan, rec=True))
    # 3. random garbage, and garbage between intact packets
    cfg = CFGS[1]
    for k in range(4 if quick else 40):
        ts = k % 2 == 1
        cfg = CFGS[1] if not ts else CFGS[3]
        frames, pk = dvb.real_frames_stream(drv, rnd, cfg, 5, max_ttx=3)
        sent = [dvb.sent_frame(fr, pts) for fr, pts in frames]
        wild = k % 4 >= 2          # may forge start codes / sync bytes: a forged header can claim any length
        junk = [rnd.choice(dvb.SAFE + ([0, 0, 0, 1, 1, 0x47, 0xBD] if wild else [])) for _ in range(rnd.choice([3, 50, 200, 400]))]
        b = junk + [x for p in pk for x in p]
        sid = add_stream(b, cfg, sent[1:-1], "%s junk of %d bytes before an intact stream" % ("wild" if wild else "plain", len(junk)))
        for plan in plans_damaged(rnd, len(b), quick):
            runs.append(Run(sid, plan, rec=not wild))
    # 4. the directed case: the last byte of a packet is lost
    cfg = CFGS[0]
    frames = [([dict(line=ln, id=dvb.TTX, data=dvb.rnd_payload(rnd, dvb.TTX)) for ln in lines], (i % 8, 90000 * i + 5))
              for i, lines in enumerate(TAIL_LOSS)]
    pk = dvb.real_stream(drv, cfg, frames)
    sent = [dvb.sent_frame(fr, pts) for fr, pts in frames]
    b, rec = dvb.damage(rnd, pk, 2, "drop", len(pk[2]) - 1, 1, False)
    sid = add_stream(b, cfg, sent[4:-1], "last byte of packet 2 lost (frames %s)" % TAIL_LOSS)
    for plan in plans_damaged(rnd, len(b), quick)[:3]:
        runs.append(Run(sid, plan, rec=True))
    ctx.sample(dict(case="damaged stream: " + streams[sid].label, bytes=len(b), must_deliver=[[l["line"] for l in f["lines"]] for f in sent[4:-1]]))
    family_continuity(ctx, drv, quick, rnd, add_stream, streams, runs)
    family_capacity(ctx, drv, quick, rnd, add_stream, streams, runs)
    family_fields(ctx, drv, quick, rnd, add_stream, streams, runs)
    family_residues(ctx, drv, quick, rnd, add_stream, streams, runs)
    family_undefined_first(ctx, drv, quick, rnd, add_stream, streams, runs)
    return streams, runs


def execute(ctx, drv, streams, runs):
    scripts = [dvb.demux_script(streams[r.sid].bytes, streams[r.sid].ts, streams[r.sid].pid, r.plan) for r in runs]
    res = dvb.run_scripts(drv, scripts, timeout=900, workers=8)
    skipped = 0
    # a watchdog report is confirmed by running that life time again, alone in a fresh process (the machine is shared: the
    # wall clock part of the watchdog may fire on a starved process); only a hang seen twice is a hang
    def hung(o, lines=None):
        return bool(o.get("timeout") or (o["crashed"] and o["rc"] == 95) or any(x.get("a") == "watchdog" for x in o["lines"]))
    suspects = [i for i, o in enumerate(res) if hung(o) and (o["crashed"] or any(x.get("a") == "watchdog" for x in o["lines"]))]
    confirmed = 0
    for n_, i in enumerate(suspects):
        if n_ >= 3 and confirmed:
            break                                  # the others are reported as recorded
        again = dvb.run_scripts(drv, [scripts[i]], timeout=120, workers=1)[0]
        if hung(again):
            confirmed += 1
        else:
            ctx.notes.append("watchdog report not confirmed by the re-run (load): %s" % streams[runs[i].sid].label[:120])
        res[i] = again
    for r, o in zip(runs, res):
        r.res = o
        r.lines = [x for x in o["lines"] if "a" in x]
        rp = replay_of(streams[r.sid], r, streams)
        bad = False
        if o["stderr"]:
            bad = core.report_sanitizers(ctx, o["stderr"], replay=rp, in_scope=True) > 0
        if o.get("timeout") or (o["crashed"] and o["rc"] == 95) or any(x.get("a") == "watchdog" for x in r.lines):
            ctx.violate("watchdog", "hang:vbi_dvb_demux:%s" % ("ts" if streams[r.sid].ts else "pes"),
                        "a call did not return (watchdog: 10 s CPU / 20 s wall; confirmed by a second run): %s, plan %s" % (streams[r.sid].label, str(r.plan)[:200]), rp)
            bad = True
        elif o["crashed"] and not bad:
            ctx.violate("crash", "crash:vbi_dvb_demux:rc=%s" % o["rc"], o["stderr"][-1500:], rp)
            bad = True
        elif o.get("skipped"):
            skipped += 1
            bad = True
        if bad or o["crashed"]:
            r.lines = []          # not a complete life time: not validated
    if skipped and not ctx.violations:
        raise tlc.ToolFailure("driver restarted too often (%d runs not executed)" % skipped)


def replay_of(st, r, streams=None):
    d = dict(stream=dvb.hexs(st.bytes), ts=st.ts, pid=st.pid, sent=st.sent, label=st.label, plan=list(r.plan), rec=r.rec)
    if st.base is not None and streams is not None:
        d["base"] = dvb.hexs(streams[st.base].bytes)
    return d


def write_logs(ctx, streams, runs, nfiles, tag):
    """runs grouped by stream (a base stream and its transparent variants form one family), spread over nfiles log files of
    similar cost; -> [(path, where)] where[i] = run of log line i+1"""
    by = {}
    for r in runs:
        if r.lines:
            by.setdefault(r.sid, []).append(r)
    fam = {}
    for sid in by:
        fam.setdefault(streams[sid].base if streams[sid].base is not None else sid, []).append(sid)

    def cost(sid, rs):
        return len(streams[sid].bytes) * sum(len(r.plan[2]) for r in rs) + 20000
    # a unit = [(sid, runs)] written in this order; it begins with the base stream and its first (one piece, callback) run
    units = []
    for b, sids in fam.items():
        sids = sorted(sids, key=lambda x: (x != b, x))
        if b not in by:
            continue                       # the base run failed (reported already): its variants cannot be judged
        if len(sids) == 1:
            rs = by[b]
            k = max(1, min(nfiles, cost(b, rs) // 3000000 + 1))
            for i in range(k):
                sub = rs[i::k]
                if i and rs[0] not in sub:
                    sub = [rs[0]] + sub
                units.append([(b, sub)])
        else:
            # families are cut into pieces of about 40 variants, each led by the base stream's first run
            head, rest = by[b], [x for x in sids if x != b]
            units.append([(b, head)] + [(x, by[x]) for x in rest[:40]])
            for i in range(40, len(rest), 40):
                units.append([(b, head[:1])] + [(x, by[x]) for x in rest[i:i + 40]])
    units.sort(key=lambda u: -sum(cost(sid, rs) for sid, rs in u))
    files = [[] for _ in range(nfiles)]
    load = [0] * nfiles
    for u in units:
        i = load.index(min(load))
        files[i].append(u)
        load[i] += sum(cost(sid, rs) for sid, rs in u)
    out = []
    for i, fl in enumerate(files):
        if not fl:
            continue
        path = os.path.join(ctx.scratch, "dvbdemux-%s-%d.ndjson" % (tag, i))
        where = []
        with open(path, "w") as f:
            for u in fl:
                for sid, rs in u:
                    st = streams[sid]
                    f.write(json.dumps(dict(a="stream", s=st.bytes, same=st.base is not None)) + "\n"); where.append(None)
                    for r in rs:
                        for ln in r.lines:
                            f.write(json.dumps(ln) + "\n"); where.append(r)
                        f.write(json.dumps(dict(a="end", rec=bool(r.rec), cmp=bool(r.cmp), sent=st.sent)) + "\n"); where.append(r)
        out.append((path, where))
    return out


POLICY_CFG = [("err", "Trace_DvbDemux"), ("none", "Trace_DvbDemux_none"), ("all", "Trace_DvbDemux_all")]


def validate(ctx, streams, runs, tag, nfiles=8, timeout=1500):
    logs = write_logs(ctx, streams, runs, nfiles, tag)

    def job(lw):
        path, where = lw
        tried = []
        for pol, cfg in POLICY_CFG:
            ok, r = tlc.validate_trace("Trace_DvbDemux", cfg, path, timeout=timeout, heap="2g", explain=False)
            tried.append((pol, ok, r))
            if ok:
                break
            run = where[r.reject_at - 1] if r.reject_at and r.reject_at <= len(where) else None
            if run is None or streams[run.sid].ts:
                break                      # the TS receiver has one policy only
        return path, where, tried
    ok_ids = set()
    for path, where, tried in core.pmap(job, logs, workers=8):
        pol, ok, r = tried[-1] if tried[-1][1] else max(tried, key=lambda t: t[2].reject_at or 0)
        ctx.add_mc(r, "TV %s %s pol=%s" % (tag, os.path.basename(path), pol))
        if pol != "err" and ok:
            ctx.notes.append("receiver policy '%s' explains the recorded runs of %s (policy 'err' does not)" % (pol, os.path.basename(path)))
        seen = set()
        for m in re.finditer(r'<<"TV-(RECOVERY|PARTITION|SAME)", (\d+)(?:, "(\w+)", "(\w+)")?>>', r.out):
            what, ln, kind, p = m.group(1), int(m.group(2)), m.group(3), m.group(4)
            if (what, ln) in seen or ln > len(where) or where[ln - 1] is None:
                continue
            seen.add((what, ln))
            run = where[ln - 1]
            st = streams[run.sid]
            got = [f for x in run.lines for f in x.get("d", [])]
            detail = "%s\nplan %s\nmust be delivered last: %s\ndelivered: %s" % (
                st.label, str(run.plan)[:200], [(f["pts"], [l["line"] for l in f["lines"]]) for f in st.sent],
                [(f["pts"], [l["line"] for l in f["lines"]]) for f in got])
            if what == "RECOVERY":
                ctx.violate("tv", "recovery:%s:%s:pol=%s" % ("ts" if st.ts else "pes", kind, p),
                            "frames behind the damage were not delivered as sent\n" + detail, replay_of(st, run, streams))
            elif what == "SAME":
                ctx.violate("tv", "transparent:%s:%s" % ("ts" if st.ts else "pes", run.plan[0]),
                            "this stream must deliver what its base stream (%s) delivers, it does not\n%s" % (streams[st.base].label, detail),
                            replay_of(st, run, streams))
            else:
                ctx.violate("tv", "partition:%s:%s" % ("ts" if st.ts else "pes", run.plan[0]),
                            "this partition of the stream delivered other frames than the first one\n" + detail, replay_of(st, run))
        done = set(id(x) for x in where[:(r.reject_at - 1) if (not ok and r.reject_at) else len(where)] if x is not None)
        if ok:
            ok_ids |= done
        else:
            at = r.reject_at
            run = where[at - 1] if at and at <= len(where) else None
            if run is None:
                raise tlc.ToolFailure("trace validation failed outside a run: %s\n%s" % (path, (r.violation or {}).get("text", r.out[-1500:])))
            st = streams[run.sid]
            line = open(path).read().split("\n")[at - 1]
            act = json.loads(line).get("a", "?")
            # explain with the best policy
            _, r2 = tlc.validate_trace("Trace_DvbDemux", dict(POLICY_CFG)[pol], path, timeout=timeout, heap="2g", explain=True)
            ctx.violate("tv", "tv:%s:%s:%s" % ("ts" if st.ts else "pes", run.plan[0], act),
                        "log line %d (%s) is not a step of DvbDemux under any receiver policy\n%s\nplan %s\nrejected line: %s\nlast matched state:%s" % (
                            at, act, st.label, str(run.plan)[:300], line[:1500], r2.last_state[:4000]), replay_of(st, run, streams))
            ok_ids |= done - {id(run)}
    return len(ok_ids)


def run(ctx):
    quick = ctx.tier == "quick"
    ctx.cov["rule"] = ("cases = recorded life times of the real demultiplexer (one partition of one stream into feed / coroutine calls) validated call by call "
                       "against DvbDemux; distinct by (stream bytes, interface, max_lines, chunk sizes); non-trivial = at least two calls and at least one frame delivered")
    ctx.assumptions += ["the callback always returns TRUE", "no raw (sample) buffer is attached to the demultiplexer (as in libzvbi 0.2)",
                        "frames of a valid stream are recognisable: the first line of a frame is not above the last line of its predecessor",
                        "recovery: the payload of the test streams imitates neither a start code (00 00 01) nor a TS sync byte (0x47); damage that enlarges "
                        "PES_packet_length or removes 184 or more bytes is exercised for safety and partition invariance only",
                        "a frame holds at most 64 lines (vbi_dvb_demux.sliced[64]): a frame of up to 64 data units is an ordinary frame, one of more is damage"]
    import concurrent.futures as cf
    t = "q" if quick else "t"
    # partitions of damaged streams; frame capacity (MaxLines = 3); continuity counter over its whole range
    mcs = [("MC_DvbDemux_" + t, 600 if quick else 3000), ("MC_DvbDemux_cap_" + t, 600 if quick else 3000), ("MC_DvbDemux_cont", 600),
           ("MC_DvbDemux_und_" + t, 600 if quick else 3000)]

    def model_checking():
        return [(cfg, tlc.run("MC_DvbDemux", cfg, timeout=to, workers=4 if quick else 8, heap="6g")) for cfg, to in mcs]
    with cf.ThreadPoolExecutor(1) as ex:
        # model checking (4 workers) runs beside the recording and validation of the real executions (8 processes)
        fut = ex.submit(model_checking)
        drv = build.build_driver("drv_dvb")
        streams, runs = build_cases(ctx, drv, quick)
        execute(ctx, drv, streams, runs)
        n_ok = validate(ctx, streams, runs, t, nfiles=8 if quick else 24)
        res = fut.result()
    for cfg, r in res:
        ctx.add_mc(r, cfg)
        if r.violation:
            m = re.search(r'<<"([^"]+)", (\d+), ("?\w+"?)>>', r.out)
            ctx.violate("mc", "mc:%s:%s:%s" % (cfg, r.violation["kind"], r.violation["name"]),
                        (m.group(0) + "\n" if m else "") + r.violation["text"][:3000])
    ctx.validated(n_ok)
    for r_ in runs:
        nontrivial = len(r_.lines) > 2 and any(x.get("d") for x in r_.lines)
        ctx.count_case([sha(streams[r_.sid].bytes), r_.plan[0], r_.plan[1], sha(json.dumps(r_.plan[2]).encode()), r_.plan[3]], nontrivial=nontrivial)
    ctx.cov["exhaustive"] = False
    ctx.cov["streams"] = len(streams)


def replay(ctx, rp):
    drv = build.build_driver("drv_dvb")
    r = rp["replay"]
    plan = tuple(r["plan"])
    streams, runs = [], []
    if r.get("base"):
        b = list(bytes.fromhex(r["base"]))
        streams.append(Stream(b, r["ts"], r["pid"], r["sent"], "base stream of the replay"))
        runs.append(Run(0, one_piece(len(b)), rec=False))
    st = Stream(list(bytes.fromhex(r["stream"])), r["ts"], r["pid"], r["sent"], r.get("label", "replay"), base=0 if r.get("base") else None)
    streams.append(st)
    sid = len(streams) - 1
    runs.append(Run(sid, one_piece(len(st.bytes)), rec=r.get("rec", False)))
    if list(plan) != list(runs[-1].plan):
        runs.append(Run(sid, plan, rec=r.get("rec", False)))
    execute(ctx, drv, streams, runs)
    for x in runs[-1].lines:
        print(json.dumps(x)[:400])
    validate(ctx, streams, runs, "replay", nfiles=1)
