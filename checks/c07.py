"""C07 - the frames the DVB demultiplexer delivers depend only on the byte stream, and it recovers after damage.
spec/DvbStream.tla  grammar / transmitter of a DVB VBI stream (EN 300 472, EN 301 775, ISO 13818-1)
spec/DvbDemux.tla   frames of a stream read sequentially (reference) + the incremental receiver fed with arbitrary
                    chunks, shaped like wrap_around()/demux_pes_packet()/demux_ts_packet()/vbi_dvb_demux_cor()
MC  (MC_DvbDemux):  PartitionInvariance over ALL partitions of scaled streams (intact, junk, truncated, foreign stream
                    id / PID, bad continuity, lost / repeated packets ...), callback and coroutine interface, the three
                    receiver policies; Recovery per policy; NoLookaheadOverrun.
TV  (Trace_DvbDemux, real constants): streams produced by the REAL multiplexer (and damaged variants) are fed to the REAL
                    demultiplexer in every single-cut partition, double cuts of a prefix, byte by byte, random partitions,
                    with resets, and through vbi_dvb_demux_cor(); after every call the driver logs chunk length, delivered
                    frames and the wrap-around scalars; TLC replays the same chunking in the specification and must
                    reproduce every line.  'end' lines state PartitionInvariance (all runs of a stream deliver the same
                    frames) and Recovery on what the real code delivered.  ASan/UBSan/LSan + watchdog for the safety clause."""
import json, os, random, re, hashlib
from vlib import tlc, build, core, dvb

MANIFEST = dict(
    level="model_checking",
    engine="tlc-mc+tv",
    technique="TLA+ specs DvbStream (stream grammar) and DvbDemux (sequential reference + incremental receiver with the wrap-around "
              "scalars of dvb_demux.c) checked exhaustively by TLC over all partitions of scaled streams; recorded executions of the "
              "real demultiplexer (chunk length, delivered frames, wrap scalars after every vbi_dvb_demux_feed / vbi_dvb_demux_cor "
              "call) on real multiplexer output and damaged variants validated step by step by TLC with the real constants, "
              "including the partition-invariance and recovery clauses evaluated on the recorded deliveries; ASan/UBSan/LSan",
    text="TLC explores for scaled packet layouts every partition (2^(n-1)) of intact and damaged PES and TS streams into feed calls and "
         "coroutine calls and checks that the frames delivered after every call equal those of the sequential reference, that no byte "
         "outside the supplied buffers is examined, and which receiver policies deliver all but the first frame after a damage. The real "
         "demultiplexer is fed real streams cut at every byte position, at pairs of positions, byte by byte, randomly, across resets and "
         "through the coroutine interface with max_lines 1/5/64; every call's deliveries and internal resume state must be reproduced by "
         "the specification with the real constants, every partition of a stream must deliver the same frames, and after every damage "
         "(overwritten, lost, duplicated bytes at every position of a PES / TS packet, swapped TS packets) the frames of the intact tail "
         "must be delivered as sent.",
    note="Bounded: exhaustive partitions only for the scaled layout (33-byte PES packets, 15-byte TS packets, streams of 70-115 bytes); at real "
         "size partitions are every single cut, sampled/all double cuts of a prefix, byte-by-byte and seeded random ones. Raw (monochrome sample) "
         "data units are skipped by the receiver as built (no raw buffer) and are only passed through. Recovery is not asserted where the damage "
         "enlarges PES_packet_length or removes >= 184 bytes (a receiver has to trust that field). The policy for the frame in progress at the "
         "damage (kept / dropped) is left open; the TS receiver is reachable only through the internal _vbi_dvb_ts_demux_new().",
)

KINDS = ("over", "drop", "dup")


def sha(b):
    return hashlib.sha1(bytes(b)).hexdigest()[:12]


class Run:
    """one demultiplexer life time over one stream"""
    __slots__ = ("sid", "plan", "rec", "cmp", "lines", "res")

    def __init__(self, sid, plan, rec=False, cmp=True):
        # the coroutine interface hands out at most max_lines lines of a frame: "as sent" only with room for all
        self.sid, self.plan, self.cmp = sid, plan, cmp
        self.rec = bool(rec and (plan[0] == "cb" or plan[1] >= 64))


class Stream:
    __slots__ = ("bytes", "ts", "pid", "sent", "label")

    def __init__(self, b, ts, pid, sent, label):
        self.bytes, self.ts, self.pid, self.sent, self.label = b, ts, pid, sent, label


def one_piece(n):
    return ("cb", 64, [n], 0)


def plans_intact(rnd, n, quick, step, prefix2):
    """partitions of an n byte stream: single cuts every `step` bytes, double cuts inside the first prefix2 bytes"""
    P = [one_piece(n)]
    P += [("cb", 64, [k, n - k], 0) for k in range(1, n, step)]
    lim = min(prefix2, n - 1)
    if quick:
        pairs = [(i, j) for i in range(1, lim, 31) for j in range(i + 1, lim, 37)]
        pairs += [(i, i + d) for i in range(1, lim, 5) for d in (1, 46) if i + d < n]
    else:
        pairs = [(i, j) for i in range(1, lim) for j in range(i + 1, lim + 1)]
    P += [("cb", 64, [i, j - i, n - j], 0) for i, j in pairs]
    P.append(("cb", 64, [1] * n, 0))
    for style in ("tiny", "small", "packet", "mixed", "any") * (1 if quick else 8):
        P.append(("cb", 64, dvb.rnd_partition(rnd, n, style), 0))
    for k in (1, 47, n // 2):
        P.append(("cb", 64, [k] + dvb.rnd_partition(rnd, n, "mixed"), 1))            # reset after the first chunk
    for maxl in (1, 5, 64):
        P.append(("cor", maxl, [n], 0))
        P.append(("cor", maxl, [7] * (n // 7 + 1), 0))
        for style in ("small", "packet", "mixed") * (1 if quick else 4):
            P.append(("cor", maxl, dvb.rnd_partition(rnd, n, style), 0))
    P.append(("cor", 64, [1] * n, 0))
    return P


def plans_damaged(rnd, n, quick):
    P = [one_piece(n), ("cb", 64, dvb.rnd_partition(rnd, n, rnd.choice(["mixed", "small", "packet"])), 0)]
    if not quick:
        P.append(("cb", 64, dvb.rnd_partition(rnd, n, "small"), 0))
    if not quick or rnd.random() < 0.1:
        P.append(("cor", rnd.choice([1, 5, 64]), dvb.rnd_partition(rnd, n, "mixed"), 0))
    if rnd.random() < (0.03 if quick else 0.1):
        P.append(("cb", 64, [1] * n, 0))
    return P


CFGS = [dict(ts=False, pid=0, did=0x10, min=184, max=1472, max_ttx=3, line0=0.0),
        dict(ts=False, pid=0, did=0x99, min=184, max=65504, max_ttx=9, line0=0.3),
        dict(ts=True, pid=0x123, did=0x10, min=184, max=1472, max_ttx=3, line0=0.0),
        dict(ts=True, pid=0x1FFE, did=0x9B, min=368, max=1472, max_ttx=7, line0=0.3)]

SAME_LINE = [[7], [7], [7, 16], [16], [16, 335], [335], [9, 20], [20]]
# frames of the directed case for the known finding: F[d] and F[d+2] are not separated by a line number wrap
TAIL_LOSS = [[7, 9], [8, 320], [7, 9], [8, 330], [10, 12], [7, 16], [7, 20]]


def build_cases(ctx, drv, quick):
    """-> (streams, runs)"""
    rnd = random.Random(ctx.seed * 7919 + 17)
    streams, runs = [], []

    def add_stream(b, cfg, sent, label):
        streams.append(Stream(b, cfg["ts"], cfg["pid"], sent, label))
        return len(streams) - 1

    for ci, cfg in enumerate(CFGS):
        # 1. an intact stream, all kinds of partitions
        frames, pk = dvb.real_frames_stream(drv, rnd, cfg, 3 if quick else 5, max_ttx=cfg["max_ttx"], line0=cfg["line0"])
        b = [x for p in pk for x in p]
        sent = [dvb.sent_frame(fr, pts) for fr, pts in frames]
        # the TS receiver needs 197 bytes to synchronise; a first PES packet of one TS packet is over by then
        sid = add_stream(b, cfg, sent[1:-1] if cfg["ts"] else sent[:-1], "intact cfg%d" % ci)
        small = ci in (0, 2)
        for plan in plans_intact(rnd, len(b), quick, (1 if small else 4) if quick else 1, 600 if quick else (260 if small else 120)):
            runs.append(Run(sid, plan, rec=True))
        ctx.sample(dict(case="intact stream from the real multiplexer", cfg={k: cfg[k] for k in ("ts", "pid", "did", "min", "max")},
                        bytes=len(b), frames=[[l["line"] for l in fr] for fr, _ in frames], partitions=sum(1 for r in runs if r.sid == sid)))
        # 2. damage at every position of packet 2 of a 7 frame stream
        frames, pk = dvb.real_frames_stream(drv, rnd, cfg, 7, max_ttx=min(cfg["max_ttx"], 4), line0=0.0)
        sent = [dvb.sent_frame(fr, pts) for fr, pts in frames]
        d = 2
        plen = len(pk[d])
        pos = range(ci % 3, plen, 11 if quick else 1)
        for off in pos:
            for kind in KINDS:
                for ln in ((rnd.choice([1, 2, 5, 20, 60, 100, 180]),) if quick else (1, rnd.choice([2, 3, 5]), 20, rnd.choice([60, 100, 180]))):
                    b, rec = dvb.damage(rnd, pk, d, kind, off, ln, cfg["ts"])
                    sid = add_stream(b, cfg, sent[d + 2:-1], "%s %d bytes at offset %d of packet %d, cfg%d" % (kind, ln, off, d, ci))
                    for plan in plans_damaged(rnd, len(b), quick):
                        runs.append(Run(sid, plan, rec=rec))
        if cfg["ts"]:
            for off in range(0, plen - 188, 188):
                b, rec = dvb.damage(rnd, pk, d, "swap", off, 0, True)
                sid = add_stream(b, cfg, sent[d + 2:-1], "swap TS packets at offset %d of packet %d, cfg%d" % (off, d, ci))
                for plan in plans_damaged(rnd, len(b), quick):
                    runs.append(Run(sid, plan, rec=rec))
            # a whole TS packet lost / repeated
            st = [x for p in pk for x in p]
            a = sum(len(p) for p in pk[:d])
            for k in range(plen // 188):
                for b, what in ((st[:a + 188 * k] + st[a + 188 * k + 188:], "lost"), (st[:a + 188 * k + 188] + st[a + 188 * k:], "repeated")):
                    sid = add_stream(b, cfg, sent[d + 2:-1], "TS packet %d of packet %d %s, cfg%d" % (k, d, what, ci))
                    for plan in plans_damaged(rnd, len(b), quick):
                        runs.append(Run(sid, plan, rec=True))
    # 2b. frames that begin on the very line their predecessor ended on (one-line subtitle streams)
    for ci in (0, 2):
        cfg = CFGS[ci]
        frames = [([dict(line=ln, id=dvb.TTX, data=dvb.rnd_payload(rnd, dvb.TTX)) for ln in lines], (i % 8, 3600 * i + 11))
                  for i, lines in enumerate(SAME_LINE)]
        pk = dvb.real_stream(drv, cfg, frames)
        b = [x for p in pk for x in p]
        sent = [dvb.sent_frame(fr, pts) for fr, pts in frames]
        sid = add_stream(b, cfg, sent[1:-1] if cfg["ts"] else sent[:-1], "frames starting on the last line of their predecessor, cfg%d" % ci)
        n = len(b)
        for plan in [one_piece(n), ("cb", 64, dvb.rnd_partition(rnd, n, "mixed"), 0), ("cb", 64, dvb.rnd_partition(rnd, n, "small"), 0),
                     ("cor", 64, dvb.rnd_partition(rnd, n, "packet"), 0), ("cor", 1, [n], 0)]:
            runs.append(Run(sid, plan, rec=True))
    # 3. random garbage, and garbage between intact packets
    cfg = CFGS[1]
    for k in range(4 if quick else 40):
        ts = k % 2 == 1
        cfg = CFGS[1] if not ts else CFGS[3]
        frames, pk = dvb.real_frames_stream(drv, rnd, cfg, 5, max_ttx=3)
        sent = [dvb.sent_frame(fr, pts) for fr, pts in frames]
        wild = k % 4 >= 2          # may forge start codes / sync bytes: a forged header can claim any length
        junk = [rnd.choice(dvb.SAFE + ([0, 0, 0, 1, 1, 0x47, 0xBD] if wild else [])) for _ in range(rnd.choice([3, 50, 200, 400]))]
        b = junk + [x for p in pk for x in p]
        sid = add_stream(b, cfg, sent[1:-1], "%s junk of %d bytes before an intact stream" % ("wild" if wild else "plain", len(junk)))
        for plan in plans_damaged(rnd, len(b), quick):
            runs.append(Run(sid, plan, rec=not wild))
    # 4. the directed case: the last byte of a packet is lost
    cfg = CFGS[0]
    frames = [([dict(line=ln, id=dvb.TTX, data=dvb.rnd_payload(rnd, dvb.TTX)) for ln in lines], (i % 8, 90000 * i + 5))
              for i, lines in enumerate(TAIL_LOSS)]
    pk = dvb.real_stream(drv, cfg, frames)
    sent = [dvb.sent_frame(fr, pts) for fr, pts in frames]
    b, rec = dvb.damage(rnd, pk, 2, "drop", len(pk[2]) - 1, 1, False)
    sid = add_stream(b, cfg, sent[4:-1], "last byte of packet 2 lost (frames %s)" % TAIL_LOSS)
    for plan in plans_damaged(rnd, len(b), quick)[:3]:
        runs.append(Run(sid, plan, rec=True))
    ctx.sample(dict(case="damaged stream: " + streams[sid].label, bytes=len(b), must_deliver=[[l["line"] for l in f["lines"]] for f in sent[4:-1]]))
    return streams, runs


def execute(ctx, drv, streams, runs):
    scripts = [dvb.demux_script(streams[r.sid].bytes, streams[r.sid].ts, streams[r.sid].pid, r.plan) for r in runs]
    res = dvb.run_scripts(drv, scripts, timeout=900, workers=8)
    skipped = 0
    for r, o in zip(runs, res):
        r.res = o
        r.lines = [x for x in o["lines"] if "a" in x]
        rp = replay_of(streams[r.sid], r)
        bad = False
        if o["stderr"]:
            bad = core.report_sanitizers(ctx, o["stderr"], replay=rp, in_scope=True) > 0
        if o.get("timeout") or (o["crashed"] and o["rc"] == 95) or any(x.get("a") == "watchdog" for x in r.lines):
            ctx.violate("watchdog", "hang:vbi_dvb_demux:%s" % ("ts" if streams[r.sid].ts else "pes"),
                        "a call did not return within 20 s: %s, plan %s" % (streams[r.sid].label, str(r.plan)[:200]), rp)
            bad = True
        elif o["crashed"] and not bad:
            ctx.violate("crash", "crash:vbi_dvb_demux:rc=%s" % o["rc"], o["stderr"][-1500:], rp)
            bad = True
        elif o.get("skipped"):
            skipped += 1
            bad = True
        if bad or o["crashed"]:
            r.lines = []          # not a complete life time: not validated
    if skipped and not ctx.violations:
        raise tlc.ToolFailure("driver restarted too often (%d runs not executed)" % skipped)


def replay_of(st, r):
    return dict(stream=dvb.hexs(st.bytes), ts=st.ts, pid=st.pid, sent=st.sent, label=st.label, plan=list(r.plan), rec=r.rec)


def write_logs(ctx, streams, runs, nfiles, tag):
    """runs grouped by stream, spread over nfiles log files of similar cost; -> [(path, where)] where[i] = run of log line i+1"""
    by = {}
    for r in runs:
        if r.lines:
            by.setdefault(r.sid, []).append(r)
    groups = sorted(by.items(), key=lambda kv: -sum(len(streams[kv[0]].bytes) * len(r.plan[2]) for r in kv[1]))
    # a big group (the intact streams) is split: every part starts with the stream line and its one-piece run
    parts = []
    for sid, rs in groups:
        cost = len(streams[sid].bytes) * sum(len(r.plan[2]) for r in rs)
        k = max(1, min(nfiles, cost // 3000000 + 1))
        for i in range(k):
            sub = rs[i::k]
            if i and rs[0] not in sub:
                sub = [rs[0]] + sub
            parts.append((sid, sub))
    files = [[] for _ in range(nfiles)]
    load = [0] * nfiles
    for sid, rs in parts:
        i = load.index(min(load))
        files[i].append((sid, rs))
        load[i] += len(streams[sid].bytes) * sum(len(r.plan[2]) for r in rs) + 20000
    out = []
    for i, fl in enumerate(files):
        if not fl:
            continue
        path = os.path.join(ctx.scratch, "dvbdemux-%s-%d.ndjson" % (tag, i))
        where = []
        with open(path, "w") as f:
            for sid, rs in fl:
                st = streams[sid]
                f.write(json.dumps(dict(a="stream", s=st.bytes)) + "\n"); where.append(None)
                for r in rs:
                    for ln in r.lines:
                        f.write(json.dumps(ln) + "\n"); where.append(r)
                    f.write(json.dumps(dict(a="end", rec=bool(r.rec), cmp=bool(r.cmp), sent=st.sent)) + "\n"); where.append(r)
        out.append((path, where))
    return out


POLICY_CFG = [("err", "Trace_DvbDemux"), ("none", "Trace_DvbDemux_none"), ("all", "Trace_DvbDemux_all")]


def validate(ctx, streams, runs, tag, nfiles=8, timeout=1500):
    logs = write_logs(ctx, streams, runs, nfiles, tag)

    def job(lw):
        path, where = lw
        tried = []
        for pol, cfg in POLICY_CFG:
            ok, r = tlc.validate_trace("Trace_DvbDemux", cfg, path, timeout=timeout, heap="2g", explain=False)
            tried.append((pol, ok, r))
            if ok:
                break
            run = where[r.reject_at - 1] if r.reject_at and r.reject_at <= len(where) else None
            if run is None or streams[run.sid].ts:
                break                      # the TS receiver has one policy only
        return path, where, tried
    n_ok = 0
    for path, where, tried in core.pmap(job, logs, workers=8):
        pol, ok, r = tried[-1] if tried[-1][1] else max(tried, key=lambda t: t[2].reject_at or 0)
        ctx.add_mc(r, "TV %s %s pol=%s" % (tag, os.path.basename(path), pol))
        if pol != "err" and ok:
            ctx.notes.append("receiver policy '%s' explains the recorded runs of %s (policy 'err' does not)" % (pol, os.path.basename(path)))
        seen = set()
        for m in re.finditer(r'<<"TV-(RECOVERY|PARTITION)", (\d+)(?:, "(\w+)", "(\w+)")?>>', r.out):
            what, ln, kind, p = m.group(1), int(m.group(2)), m.group(3), m.group(4)
            if (what, ln) in seen or ln > len(where) or where[ln - 1] is None:
                continue
            seen.add((what, ln))
            run = where[ln - 1]
            st = streams[run.sid]
            got = [f for x in run.lines for f in x.get("d", [])]
            detail = "%s\nplan %s\nmust be delivered last: %s\ndelivered: %s" % (
                st.label, str(run.plan)[:200], [(f["pts"], [l["line"] for l in f["lines"]]) for f in st.sent],
                [(f["pts"], [l["line"] for l in f["lines"]]) for f in got])
            if what == "RECOVERY":
                ctx.violate("tv", "recovery:%s:%s:pol=%s" % ("ts" if st.ts else "pes", kind, p),
                            "frames behind the damage were not delivered as sent\n" + detail, replay_of(st, run))
            else:
                ctx.violate("tv", "partition:%s:%s" % ("ts" if st.ts else "pes", run.plan[0]),
                            "this partition of the stream delivered other frames than the first one\n" + detail, replay_of(st, run))
        done = set(id(x) for x in where[:(r.reject_at - 1) if (not ok and r.reject_at) else len(where)] if x is not None)
        if ok:
            n_ok += len(done)
        else:
            at = r.reject_at
            run = where[at - 1] if at and at <= len(where) else None
            if run is None:
                raise tlc.ToolFailure("trace validation failed outside a run: %s\n%s" % (path, (r.violation or {}).get("text", r.out[-1500:])))
            st = streams[run.sid]
            line = open(path).read().split("\n")[at - 1]
            act = json.loads(line).get("a", "?")
            # explain with the best policy
            _, r2 = tlc.validate_trace("Trace_DvbDemux", dict(POLICY_CFG)[pol], path, timeout=timeout, heap="2g", explain=True)
            ctx.violate("tv", "tv:%s:%s:%s" % ("ts" if st.ts else "pes", run.plan[0], act),
                        "log line %d (%s) is not a step of DvbDemux under any receiver policy\n%s\nplan %s\nrejected line: %s\nlast matched state:%s" % (
                            at, act, st.label, str(run.plan)[:300], line[:1500], r2.last_state[:4000]), replay_of(st, run))
            n_ok += len(done) - 1 if id(run) in done else len(done)
    return n_ok


def run(ctx):
    quick = ctx.tier == "quick"
    ctx.cov["rule"] = ("cases = recorded life times of the real demultiplexer (one partition of one stream into feed / coroutine calls) validated call by call "
                       "against DvbDemux; distinct by (stream bytes, interface, max_lines, chunk sizes); non-trivial = at least two calls and at least one frame delivered")
    ctx.assumptions += ["the callback always returns TRUE", "no raw (sample) buffer is attached to the demultiplexer (as in libzvbi 0.2)",
                        "frames of a valid stream are recognisable: the first line of a frame is not above the last line of its predecessor",
                        "recovery: the payload of the test streams imitates neither a start code (00 00 01) nor a TS sync byte (0x47); damage that enlarges "
                        "PES_packet_length or removes 184 or more bytes is exercised for safety and partition invariance only"]
    import concurrent.futures as cf
    mccfg = "MC_DvbDemux_q" if quick else "MC_DvbDemux_t"
    with cf.ThreadPoolExecutor(1) as ex:
        # model checking (4 workers) runs beside the recording and validation of the real executions (8 processes)
        fut = ex.submit(tlc.run, "MC_DvbDemux", mccfg, timeout=600 if quick else 3000, workers=4 if quick else 8, heap="6g")
        drv = build.build_driver("drv_dvb")
        streams, runs = build_cases(ctx, drv, quick)
        execute(ctx, drv, streams, runs)
        n_ok = validate(ctx, streams, runs, "q" if quick else "t", nfiles=8 if quick else 24)
        r = fut.result()
    ctx.add_mc(r, mccfg)
    if r.violation:
        ctx.violate("mc", "mc:%s:%s" % (r.violation["kind"], r.violation["name"]), r.violation["text"][:3000])
    ctx.validated(n_ok)
    for r_ in runs:
        nontrivial = len(r_.lines) > 2 and any(x.get("d") for x in r_.lines)
        ctx.count_case([sha(streams[r_.sid].bytes), r_.plan[0], r_.plan[1], sha(json.dumps(r_.plan[2]).encode()), r_.plan[3]], nontrivial=nontrivial)
    ctx.cov["exhaustive"] = False
    ctx.cov["streams"] = len(streams)


def replay(ctx, rp):
    drv = build.build_driver("drv_dvb")
    r = rp["replay"]
    st = Stream(list(bytes.fromhex(r["stream"])), r["ts"], r["pid"], r["sent"], r.get("label", "replay"))
    plan = tuple(r["plan"])
    runs = [Run(0, one_piece(len(st.bytes)), rec=r.get("rec", False))]
    if list(plan) != list(runs[0].plan):
        runs.append(Run(0, plan, rec=r.get("rec", False)))
    execute(ctx, drv, [st], runs)
    for x in runs[-1].lines:
        print(json.dumps(x)[:400])
    validate(ctx, [st], runs, "replay", nfiles=1)
