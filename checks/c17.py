"""C17 - search finds exactly the matching pages, in page order, and ends.
spec/TtxSearch.tla (walk of _vbi_cache_foreach_page one iteration per action + search.c stop logic)
MC: Exact/Sound/BoundedWalk invariants + Termination (liveness, fair spec)
GEN: every terminal state of the bounded model -> API-level behaviour with predicted results
REPLAY: harness/drv_search.c on the real library, populations transmitted through vbi_decode().
Pattern layer: spec/TtxMatch.tla (independent matcher), TtxMatchPage.tla (what successive calls report on pages of glyph rows,
acceptance of any result sequence), TtxPatSpace.tla (pattern space by index), TtxMatchRows.tla (generated row texts),
TtxMatchDet.tla (named deviation D66: Ambiguous, UreScan), Gen_TtxMatch.tla (generator), Judge_TtxMatch.tla (acceptance of
diverging sequences), MC_TtxMatchFast.tla (the evaluation short cuts of the reference = TtxMatch!Occ)."""
import json, shutil, os, random, collections
from vlib import tlc, build, core

MANIFEST = dict(
    level="model_checking",
    engine="tlc-mc+replay",
    technique="TLA+ spec TtxSearch checked exhaustively by TLC (safety + liveness); all generated call histories replayed on the real vbi_search API "
              "with a watchdog and compared result by result; TLC enumerates a regular-expression pattern space and evaluates the reference matcher "
              "TtxMatch on generated page texts, every pattern is run forwards and backwards through vbi_search_new/next and compared report by report",
    text="TLC explores every population of a small page alphabet (3-4 page slots x subpage sets x match counts), every start "
         "position, both directions and direction changes, and checks Exact (result sequence = declarative reference), Sound, and "
         "Termination as a liveness property of the walk. Every terminal state's call history is replayed through "
         "vbi_decode/vbi_search_new/vbi_search_next (ASan+UBSan build, 4 s CPU watchdog per call) and each result (status, page, "
         "subpage, highlighted cells) must equal the model's. Matching: TLC walks the pattern space of TtxPatSpace (all expression trees over "
         "a b A . [ab] [bC] [^a] ^ $ with * + ? | concatenation up to a size bound, a strided sample of larger ones, common-prefix and restart "
         "shapes, literal patterns with every character vbi_search_new escapes at the start / middle / end, patterns matching the empty string / the row separator), case folded and not, pairs "
         "each with a cache of three generated pages (words at the first and last cell searched, at row ends/starts, double width / double height "
         "text, dense rows) and computes with the independent matcher TtxMatch what a forward and a backward pass must report (page and "
         "highlighted cells). Diverging result sequences are judged by TLC against the acceptance predicate of TtxMatchPage (real occurrence, "
         "nothing skipped, NOT_FOUND only at the end). The library's single-path automaton walk (known finding D66) is a named deviation: "
         "TtxMatchDet!Ambiguous says where it can differ and TtxMatchDet!UreScan predicts its reports exactly; any other divergence is a violation. "
         "Odd patterns (malformed, nested empty loops, misplaced anchors) must be refused or terminate without crash, leak or empty highlight.",
    note="Bounded: <=4 page slots, subpages {0,1,2}, <=2 occurrences per page, <=4 calls per search in MC; page slots are mapped to "
         "real decimal page numbers by the driver. Pattern space: quick = all trees up to 3 nodes, 900 of the 1701 trees with 4 nodes, strided "
         "samples (offset from VERIF_SEED) of sizes 5-7 and of the shape / literal families, 6 caches, first 6 reports per pass; thorough = all "
         "trees up to 4 nodes, 2500 with 5 nodes, all shapes and literals, samples of sizes 6-8, 24 caches, first 9 reports. The oracle is TtxMatch evaluated by TLC "
         "(no second implementation outside the specification); anchors only where they anchor the pattern or a whole alternative. Patterns "
         "for which TtxMatchDet!Ambiguous holds are compared with the model of the deviation (UreScan) instead of being exempted.",
)

SLOTMAPS = {3: [[0x100, 0x101, 0x899], [0x123, 0x456, 0x789], [0x150, 0x300, 0x898]],
            4: [[0x100, 0x101, 0x555, 0x899], [0x111, 0x222, 0x333, 0x444]],
            2: [[0x100, 0x899], [0x345, 0x346]]}
STATUS = {"success": 1, "notfound": 0, "empty": -2}


def gen(ctx, cfg, timeout):
    r = tlc.run("Gen_TtxSearch", cfg, timeout=timeout, collect_tr=True, heap="8g", workers=8)
    if r.violation:
        raise tlc.ToolFailure("GEN run reported " + str(r.violation))
    ctx.add_mc(r, "GEN " + cfg)
    return r.tr


def script_for(beh, smap, bid, anysub, layout=0):
    """line protocol for one behaviour; layout = presentation of the pages (enlarged text on rows without occurrence)"""
    lines = ["B %s" % bid] + (["Y %d" % layout] if layout else [])
    for (p, s, occ) in beh["pop0"]:
        if occ >= 0:
            lines.append("P %x %x %d" % (smap[p - 1], s, occ))
    a = beh["arg"]
    lines.append("N %x %x" % (smap[a[0] - 1], 0x3F7F if a[1] == anysub else a[1]))
    for c in beh["calls"]:
        if c["r"] == "update":
            lines.append("P %x %x %d" % (smap[c["pg"] - 1], c["sub"], c["occ"]))
        else:
            lines.append("S %d" % c["d"])
    lines.append("E")
    return lines


def expected(beh, smap, layout=0):
    out = []
    for c in beh["calls"]:
        if c["r"] == "update":
            continue
        e = dict(r=STATUS[c["r"]])
        if c["r"] == "success":
            o = c["occ"] - 1
            e.update(pg=smap[c["pg"] - 1], sub=c["sub"],
                     hl=[[1 + 5 * o, 3 * o + i] for i in range(3)] if layout == 5 else [[3 + 5 * o, 4 + 3 * o + i] for i in range(3)])
        out.append(e)
    return out


def run_batch(ctx, drv, items):
    """items: list of (bid, lines, expected, beh, smap). Runs the driver (restarting after a hang)."""
    pending = list(items)
    hangs = 0
    while pending:
        if hangs >= 6:
            ctx.notes.append("replay of a chunk stopped after 6 watchdog hits (%d behaviours not replayed)" % len(pending))
            ctx.cov["exhaustive"] = False
            return
        text = "\n".join("\n".join(it[1]) for it in pending) + "\n"
        rc, out, err, to = core.run_driver([drv], text, timeout=600, env=build.san_env())
        res = collections.defaultdict(list)
        hang_id = None
        for ln in out.split("\n"):
            if not ln.startswith("{"):
                continue
            o = json.loads(ln)
            if o.get("hang"):
                hang_id = o["id"]
            res[o["id"]].append(o)
        done = 0
        for idx, it in enumerate(pending):
            bid, lines, exp, beh, smap = it
            rr = res.get(bid, [])
            if bid == hang_id:
                k = len([x for x in rr if "r" in x])
                # confirm on its own before reporting (DESIGN 3.6: a verdict must be reproducible)
                rc2, out2, err2, to2 = core.run_driver([drv], "\n".join(lines) + "\n", timeout=120, env=build.san_env())
                if '"hang":true' not in out2 and not to2:
                    ctx.notes.append("watchdog hit for %s was not reproducible (machine load); behaviour replayed again" % bid)
                    done = idx          # this behaviour is run again with the rest
                    hangs += 1
                    break
                ctx.violate("replay", "hang:vbi_search_next",
                            "vbi_search_next did not return within 4 s of CPU time (call %d of the behaviour)" % (k + 1),
                            dict(script=lines, expected=exp, behaviour=beh))
                ctx.count_case(beh)
                done = idx + 1
                hangs += 1
                break
            if not any("end" in x for x in rr):
                break
            got = [{k: v for k, v in x.items() if k != "id"} for x in rr if "r" in x]
            ctx.count_case(beh, nontrivial=any(e["r"] == 1 for e in exp))
            if got == exp:
                ctx.validated()
            else:
                i = next((j for j in range(min(len(got), len(exp))) if got[j] != exp[j]), min(len(got), len(exp)))
                ctx.violate("replay", classify(beh, exp, got, i),
                            "call %d: spec predicts %s, library returned %s" % (i + 1, exp[i] if i < len(exp) else None, got[i] if i < len(got) else None),
                            dict(script=lines, expected=exp, got=got, behaviour=beh))
            done = idx + 1
        sr = core.report_sanitizers(ctx, err, in_scope=False)
        if done == 0 and not sr and hang_id is None:
            raise tlc.ToolFailure("driver produced no result (rc=%s): %s" % (rc, err[-2000:]))
        if done >= len(pending):
            break
        pending = pending[done:]


def classify(beh, exp, got, i):
    """signature of a divergence, narrow enough to tell different defects apart"""
    d = [c for c in beh["calls"] if c["r"] != "update"][i]["d"] if i < len(exp) else 0
    e = exp[i] if i < len(exp) else {}
    g = got[i] if i < len(got) else {}
    if e.get("r") == 1 and g.get("r") == 1 and (e.get("pg"), e.get("sub")) != (g.get("pg"), g.get("sub")):
        what = "wrong-page"
    elif e.get("r") == 1 and g.get("r") == 0:
        what = "missed-page"
    elif e.get("r") == 0 and g.get("r") == 1:
        what = "extra-page"
    elif e.get("r") == 1 and g.get("r") == 1:
        what = "wrong-highlight"
    else:
        what = "status %s->%s" % (e.get("r"), g.get("r"))
    return "diverge:%s:%s" % ("fwd" if d > 0 else "rev", what)


# ---- pattern language: the ure string handed to vbi_search_new and its transcription as a TtxMatch AST (TLA+ text)
def _chr(c): return '[k |-> "chr", c |-> %d]' % ord(c)
def _cat(*a): return '[k |-> "cat", a |-> <<%s>>]' % ", ".join(a)
def _alt(*a): return '[k |-> "alt", a |-> <<%s>>]' % ", ".join(a)
def _cls(chars): return '[k |-> "cls", s |-> {%s}]' % ", ".join(str(ord(c)) for c in chars)
def _un(k, p): return '[k |-> "%s", p |-> %s]' % (k, p)
def _lit(s): return _cat(*[_chr(c) for c in s])
_ANY, _BOL, _EOL = '[k |-> "any"]', '[k |-> "bol"]', '[k |-> "eol"]'
DIGITS = "0123456789"
PATS = [  # (ure pattern, casefold, regexp, AST)
    ("ZQX", 0, 0, _lit("ZQX")), ("zqx", 1, 0, _lit("zqx")), ("zqx", 0, 0, _lit("zqx")),
    ("Z.X", 0, 1, _cat(_chr("Z"), _ANY, _chr("X"))), ("ZQ*X", 0, 1, _cat(_chr("Z"), _un("star", _chr("Q")), _chr("X"))),
    ("(AB|CD)E", 0, 1, _cat(_alt(_lit("AB"), _lit("CD")), _chr("E"))), ("[K-M]9", 0, 1, _cat(_cls("KLM"), _chr("9"))),
    ("Q+R", 0, 1, _cat(_un("plus", _chr("Q")), _chr("R"))), ("a.c", 1, 1, _cat(_chr("a"), _ANY, _chr("c"))),
    ("X *$", 0, 1, _cat(_chr("X"), _un("star", _chr(" ")), _EOL)), ("^rowd", 0, 1, _cat(_BOL, _lit("rowd"))),
    ("1+1", 0, 0, _lit("1+1")), ("A?B", 0, 0, _lit("A?B")), ("N?OP", 0, 1, _cat(_un("opt", _chr("N")), _lit("OP"))),
    ("x[0-9][0-9]y", 0, 1, _cat(_chr("x"), _cls(DIGITS), _cls(DIGITS), _chr("y"))),
    # occurrences behind a false start: the matcher has to come back to the character after the failed attempt
    ("ab", 0, 0, _lit("ab")), ("abac", 0, 0, _lit("abac")), ("aab", 0, 1, _lit("aab")), ("ZQ+X", 0, 1, _cat(_chr("Z"), _un("plus", _chr("Q")), _chr("X"))),
    ("(ab)+c", 0, 1, _cat(_un("plus", _lit("ab")), _chr("c"))),
    # an attempt that goes on behind a complete match and then fails: the complete match counts
    ("AB(CD)?", 0, 1, _cat(_lit("AB"), _un("opt", _lit("CD")))), ("A(BC)*", 0, 1, _cat(_chr("A"), _un("star", _lit("BC")))),
    ("AB|ABCD", 0, 1, _alt(_lit("AB"), _lit("ABCD"))),
]
# (only characters which the default national subset displays as themselves: 0x7C is shown as U+2016, the literal pattern "A|B"
#  rightly does not find it - the reference compares displayed characters)
WORDS = ["ZQX", "zqx", "ZX", "ZQQQX", "ABE", "CDE", "L9", "QQR", "abc", "AxC", "1+1", "A?B", "OP", "NOP", "x42y", "x4y", "hello", "Z X", "X",
         "ZZQX", "aab", "aaab", "ababac", "abab", "QQQR", "ZQZQX", "ZQQZQQX", "ababc", "xaby", "AABE", "ABCX", "ABC", "ABCBX", "ABCD"]


def row_text(row, w):
    return ("row" + chr(ord('a') + row) + (w if row == 3 else "")).ljust(40)


def eval_matchlib(ctx):
    """TLC evaluates spec/TtxMatch.tla on every (pattern, row): -> {(pattern index, row text): (hit, starts)}"""
    rows = sorted({row_text(r, "") for r in range(1, 24)} | {row_text(3, w) for w in WORDS})
    d = os.path.join(ctx.scratch, "match")
    os.makedirs(d, exist_ok=True)
    for f in ("TtxMatch.tla", "Eval_TtxMatch.tla", "Eval_TtxMatch.cfg"):
        shutil.copy(os.path.join(tlc.SPEC, f), d)
    pats = ",\n  ".join("[cf |-> %s, p |-> %s]" % ("TRUE" if cf else "FALSE", ast) for _, cf, _, ast in PATS)
    rws = ",\n  ".join("<<" + ", ".join(str(ord(c)) for c in r) + ">>" for r in rows)
    open(os.path.join(d, "MatchLib.tla"), "w").write("---- MODULE MatchLib ----\nEXTENDS TtxMatch\nPats == <<\n  %s >>\nRows == <<\n  %s >>\n====\n" % (pats, rws))
    r = tlc.run("Eval_TtxMatch", "Eval_TtxMatch", timeout=900, workers=1, collect_tr=True, cwd=d, heap="4g")
    ctx.add_mc(r, "EVAL TtxMatch (pattern x row library)")
    tab = {(e["p"] - 1, rows[e["r"] - 1]): (e["hit"], sorted(e["starts"])) for e in r.tr}
    if len(tab) != len(PATS) * len(rows):
        raise tlc.ToolFailure("pattern library evaluation incomplete: %d of %d" % (len(tab), len(PATS) * len(rows)))
    return tab


def regex_pass(ctx, drv):
    """independent matcher = spec/TtxMatch.tla evaluated by TLC on the rows the driver transmits"""
    tab = eval_matchlib(ctx)
    rnd = random.Random(ctx.seed)
    items = []
    n = 120 if ctx.tier == "quick" else 1500
    for t in range(n):
        pi = rnd.randrange(len(PATS)) if t >= len(PATS) else t
        pat, cf, rx, _ = PATS[pi]
        pages = [(pg, rnd.choice(WORDS)) for pg in (0x100, 0x200, 0x300)]
        bid = "rx%d" % t
        lines = ["B " + bid] + ["P %x 0 0 %s" % (pg, w) for pg, w in pages] + ["N 100 0 %s %d %d" % (pat.replace(" ", "_"), cf, rx)] + ["L 1 16"] + ["E"]
        # (a page is reported once per occurrence, 'A(BC)*' finds two in "AABE": the calls go on until NOT_FOUND, at most 16)
        # the search sees rows 1..23; row 3 carries the word
        exp, first = [], {}
        for pg, w in pages:
            hits = [(row, tab[(pi, row_text(row, w))]) for row in range(1, 24)]
            hits = [(row, h[1]) for row, h in hits if h[0]]
            if hits:
                exp.append(pg)
                first[pg] = [hits[0][0], hits[0][1][0] - 1]          # row and column of the first occurrence in reading order
        items.append((bid, lines, exp, pages, (pat, cf, rx), first))
    text = "\n".join("\n".join(it[1]) for it in items) + "\n"
    rc, out, err, to = core.run_driver([drv], text, timeout=600, env=build.san_env())
    res = collections.defaultdict(list)
    for ln in out.split("\n"):
        if ln.startswith("{"):
            o = json.loads(ln); res[o["id"]].append(o)
    for bid, lines, exp, pages, p, first in items:
        rr = res.get(bid, [])
        if rr and rr[0].get("new") == 0:
            ctx.violate("regex", "regex:compile-failed:%s" % p[0], "vbi_search_new refused pattern %r" % (p,), dict(script=lines))
            continue
        got, hl = [], {}
        for x in rr:
            if x.get("r") == 1 and x["pg"] not in got:
                got.append(x["pg"]); hl[x["pg"]] = x["hl"][0] if x.get("hl") else None
        ctx.count_case([p, pages], nontrivial=bool(exp))
        if got != exp:
            ctx.violate("regex", "regex:%s cf=%d rx=%d" % p, "pattern %r pages %r: specification TtxMatch finds %s, library %s" % (p, pages, [hex(x) for x in exp], [hex(x) for x in got]),
                        dict(script=lines, expected=exp, got=got))
        elif any(hl[pg] != first[pg] for pg in exp):
            ctx.violate("regex", "regex-highlight:%s cf=%d rx=%d" % p, "pattern %r pages %r: first occurrence at %s, highlight begins at %s" % (p, pages, first, hl),
                        dict(script=lines, expected=first, got=hl))
        else:
            ctx.validated()
    core.report_sanitizers(ctx, err, in_scope=False)


# ---- pattern space layer: spec/Gen_TtxMatch.tla (patterns x caches of row texts, expectations by TLC) replayed on the library
PAGENOS = [0x100, 0x345, 0x899]
# family "X" of spec/TtxPatSpace.tla (Named): the ure text of each, by position
NAMED_URE = ["a*", "^", "$", "b*$", "^a*", "(ab)?", "\\n", "[\\P4]", "[\\p9]"]
SEP_FIRST = 6          # Named[7..9] can match the separator search.c puts between the rows (known finding D65)
_META = set(".*+?()[]|^$\\")


def render(p):
    """ure syntax of a TtxMatch AST (the transmitter side of the pattern: no matching logic here)"""
    k = p["k"]
    if k == "chr":
        ch = chr(p["c"])
        return "\\n" if ch == "\n" else ("\\" + ch if ch in _META else ch)
    if k == "any":
        return "."
    if k in ("cls", "ncls"):
        return "[" + ("^" if k == "ncls" else "") + "".join(chr(c) for c in sorted(p["s"])) + "]"
    if k == "bol":
        return "^"
    if k == "eol":
        return "$"
    if k == "cat":
        return "".join("(" + render(x) + ")" if x["k"] == "alt" else render(x) for x in p["a"])
    if k == "alt":
        return "|".join(render(x) for x in p["a"])
    inner = render(p["p"])
    if p["p"]["k"] not in ("chr", "any", "cls", "ncls"):
        inner = "(" + inner + ")"
    return inner + {"star": "*", "plus": "+", "opt": "?"}[k]


def pattern_text(c):
    """(pattern string, regexp flag) handed to vbi_search_new for a generated case"""
    if c["f"] == "L":
        return "".join(chr(x["c"]) for x in c["p"]["a"]), 0
    if c["f"] == "X":
        return NAMED_URE[c["k"]], 1
    return render(c["p"]), 1


def row_codes(row):
    """the 40 transmitted codes of a displayed row [g: glyphs, col: columns] (EN 300 706 12.2 spacing attributes:
    double width 0x0E / double height 0x0D are set-after, normal size 0x0C is set-at; the blank glyph in front of and behind an
    enlarged word carries them; the second cell of a double width character is covered, its code ('x') must not show)"""
    codes = [0x20] * 40
    g, col = row["g"], row["col"]
    for i, x in enumerate(g):
        codes[col[i]] = 0x5F if x["c"] == 0x23 else x["c"]      # the default national subset shows "#" for code 0x5F
        if x["z"] == "w":
            codes[col[i] + 1] = ord("x")
    for i, x in enumerate(g):
        prev = g[i - 1]["z"] if i else "n"
        if x["z"] != prev:
            if x["z"] == "n":
                ok = x["c"] == 0x20
                codes[col[i]] = 0x0C
            else:
                ok = i > 0 and prev == "n" and g[i - 1]["c"] == 0x20
                codes[col[i - 1]] = 0x0E if x["z"] == "w" else 0x0D
            if not ok:
                raise tlc.ToolFailure("generated row cannot be transmitted: size change without a blank cell for the control code")
    return codes


def cache_script(cache):
    """transmission of the pages of a generated cache"""
    lines = []
    for j, rows in enumerate(cache["pages"]):
        lines.append("G %x 0" % PAGENOS[j])
        for r, ri in enumerate(rows, start=1):
            if r in cache["lower"][j]:
                # the row below double height characters is not displayed: whatever is transmitted there must not be found
                lines.append("W %d %s" % (r, "".join("%02x" % ord(ch) for ch in ("abAB." * 8))))
            elif ri != 1:
                lines.append("W %d %s" % (r, "".join("%02x" % c for c in row_codes(cache["lib"][ri - 1]))))
        lines.append("F")
    return lines


def case_script(c, cap, same_object):
    pat, rx = pattern_text(c)
    m = "M 100 0 %d %d %s" % (1 if c["cf"] else 0, rx, "".join("%04x" % ord(ch) for ch in pat))
    return ["I " + c["id"], m, "L 1 %d" % (cap + 1)] + ([] if same_object else [m]) + ["L -1 %d" % (cap + 1), "D"]


def split_passes(lines, cap):
    """driver lines of one case -> (compiled, [fwd, bwd]) with pass = (hits, final status or None)"""
    compiled = bool(lines) and lines[0].get("new") == 1
    rl = [x for x in lines if "r" in x]
    passes = []
    for _ in range(2):
        hits, status = [], None
        while rl and len(hits) < cap + 1:
            x = rl.pop(0)
            if x["r"] == 1:
                hits.append(dict(pg=PAGENOS.index(x["pg"]) + 1 if x.get("pg") in PAGENOS else x.get("pg"), hl=sorted(x.get("hl", []))))
            else:
                status = x["r"]
                break
        passes.append((hits, status))
    return compiled, passes


def agrees(exp, got):
    hits, status = got
    eh = [dict(pg=h["pg"], hl=sorted(h["hl"])) for h in exp["hits"]]
    return hits == eh and (status == 0 if exp["ends"] else status is None)


def run_cases(drv, cache, cases, cap, coin):
    """one driver process: the cache is transmitted once, then every case (each ends with the marker D); restarts behind a case
    in which the process ended (watchdog, crash).  -> {id: dict(lines=[...], hang=bool [, died=rc, stderr=...])}, stderr"""
    out, errs = {}, ""
    pending = list(cases)
    stops = 0
    while pending:
        script = ["B pat"] + cache_script(cache)
        for c in pending:
            script += case_script(c, cap, coin(c))
        script.append("E")
        rc, so, se, to = core.run_driver([drv], "\n".join(script) + "\n", timeout=900, env=build.san_env())
        errs += se
        cur, complete, ended = {}, set(), False
        for ln in so.split("\n"):
            if ln.startswith("{"):
                o = json.loads(ln)
                if o.get("end"):
                    ended = True
                elif o["id"] != "pat":
                    d = cur.setdefault(o["id"], dict(lines=[], hang=False))
                    if o.get("hang"):
                        d["hang"] = True
                    elif o.get("done"):
                        complete.add(o["id"])
                    else:
                        d["lines"].append(o)
        k = 0
        while k < len(pending) and pending[k]["id"] in complete:
            out[pending[k]["id"]] = cur[pending[k]["id"]]
            k += 1
        if ended and k == len(pending):
            break
        if k == len(pending):
            raise tlc.ToolFailure("driver ended without end marker (rc=%s): %s" % (rc, se[-2000:]))
        # the process ended within case k
        d = cur.get(pending[k]["id"], dict(lines=[], hang=False))
        if not d["hang"]:
            d["died"] = rc
            d["stderr"] = se[-3000:]
        out[pending[k]["id"]] = d
        pending = pending[k + 1:]
        stops += 1
        if stops >= 4:
            # a library that hangs or dies again and again: the verdict is clear, the rest of this chunk is not replayed
            for c in pending:
                out[c["id"]] = dict(lines=[], hang=False, skipped=True)
            break
    return out, errs


def tla_obs(hits):
    return "<<" + ", ".join("[pg |-> %d, hl |-> {%s}]" % (h["pg"], ", ".join("<<%d, %d>>" % (r, c) for r, c in h["hl"])) for h in hits) + ">>"


def judge(ctx, seed, jc):
    """TLC (spec/Judge_TtxMatch.tla) decides whether the diverging result sequences are acceptable for C17"""
    d = os.path.join(ctx.scratch, "judge%d" % len(os.listdir(ctx.scratch)))
    os.makedirs(d)
    for f in ("TtxMatch.tla", "TtxMatchPage.tla", "TtxMatchRows.tla", "TtxMatchDet.tla", "TtxPatSpace.tla", "Judge_TtxMatch.tla", "Judge_TtxMatch.cfg"):
        shutil.copy(os.path.join(tlc.SPEC, f), d)
    body = ",\n  ".join('[f |-> "%s", n |-> %d, k |-> %d, cf |-> %s, ci |-> %d, dir |-> %d, obs |-> %s, ended |-> %s]' % (
        c["f"], c["n"], c["k"], "TRUE" if c["cf"] else "FALSE", c["ci"], 1 if dr > 0 else 0, tla_obs(hits), "TRUE" if st == 0 else "FALSE") for c, dr, hits, st in jc)
    open(os.path.join(d, "JudgeLib.tla"), "w").write("---- MODULE JudgeLib ----\nJCases == <<\n  %s >>\n====\n" % body)
    r = tlc.run("Judge_TtxMatch", "Judge_TtxMatch", timeout=1500, workers=8, collect_tr=True, cwd=d, heap="8g", env={"VERIF_MATCH_SEED": seed})
    ctx.add_mc(r, "JUDGE TtxMatchPage acceptance of %d diverging result sequences" % len(jc))
    v = {e["i"] - 1: e for e in r.tr}
    if len(v) != len(jc):
        raise tlc.ToolFailure("judge evaluation incomplete: %d of %d" % (len(v), len(jc)))
    return [v[i] for i in range(len(jc))]


def pattern_pass(ctx, drv, gen_result=None):
    quick = ctx.tier == "quick"
    seed = ctx.seed % 60000
    r = gen_result or tlc.run("Gen_TtxMatch", "Gen_TtxMatch_q" if quick else "Gen_TtxMatch_t", timeout=600 if quick else 3000, workers=8, collect_tr=True,
                              heap="8g", env={"VERIF_MATCH_SEED": seed})
    if r.violation:
        raise tlc.ToolFailure("GEN run reported " + str(r.violation))
    ctx.add_mc(r, "GEN Gen_TtxMatch (pattern space x row texts, expectations of TtxMatch)")
    caches = next(t for t in r.tr if t["t"] == "caches")["caches"]
    cases = sorted((t for t in r.tr if t["t"] == "case"), key=lambda c: (c["ci"], c["f"], c["n"], c["k"], c["cf"]))
    if not cases:
        raise tlc.ToolFailure("pattern space generator printed no case")
    cap = max(len(c["fwd"]["hits"]) for c in cases) - 1
    if cap < 1:
        raise tlc.ToolFailure("pattern space generator: no pattern occurs anywhere")
    for i, c in enumerate(cases):
        c["id"] = "c%d" % i
    rnd = random.Random(ctx.seed)
    # second pass on the same search object: only where the forward pass is expected to end with NOT_FOUND (also by the single path walk)
    same = {c["id"]: c["fwd"]["ends"] and ((c.get("ure") or {}).get("fwd") or c["fwd"])["ends"] and rnd.random() < 0.5 for c in cases}
    jobs = []
    for ci in sorted({c["ci"] for c in cases}):
        cs = [c for c in cases if c["ci"] == ci]
        n = max(1, (len(cs) + 399) // 400)
        jobs += [(ci, cs[k::n]) for k in range(n)]
    res = core.pmap(lambda j: run_cases(drv, caches[j[0] - 1], j[1], cap, lambda c: same[c["id"]]), jobs, workers=8)
    got, errs = {}, ""
    for o, e in res:
        got.update(o); errs += e
    stats = collections.Counter()
    jc = []
    for c in cases:
        pat, rx = pattern_text(c)
        what = "%r casefold=%d regexp=%d (family %s, %d nodes, index %d) on cache %d" % (pat, c["cf"], rx, c["f"], c["n"], c["k"], c["ci"])
        rp = dict(layer="pattern", seed=seed, cap=cap, what=what, script=["B pat"] + cache_script(caches[c["ci"] - 1]) + case_script(c, cap, same[c["id"]]) + ["E"],
                  expected=dict(fwd=c["fwd"], bwd=c["bwd"]), case={k: c[k] for k in ("f", "n", "k", "cf", "ci", "amb")})
        g = got.get(c["id"])
        ctx.count_case([pat, c["cf"], rx, c["ci"]], nontrivial=bool(c["fwd"]["hits"]))
        stats["cases"] += 1
        stats["ambiguous"] += bool(c["amb"])
        if g is None:
            raise tlc.ToolFailure("no driver output for case %s (%s)" % (c["id"], what))
        if g.get("skipped"):
            stats["not-replayed"] += 1
            continue
        if g.get("hang") and stats["hang-confirmed"] >= 2:
            stats["hang-more"] += 1          # the verdict is reported already; no further confirmation runs
            continue
        if g.get("hang"):
            rc2, out2, err2, to2 = core.run_driver([drv], "\n".join(rp["script"]) + "\n", timeout=120, env=build.san_env())
            if '"hang":true' in out2 or to2:
                stats["hang-confirmed"] += 1
                ctx.violate("pattern", "hang:vbi_search_next", "vbi_search_next did not return within 4 s of CPU time: " + what, rp)
                continue
            ctx.notes.append("watchdog hit for %s was not reproducible (machine load)" % what)
            g = dict(lines=[json.loads(l) for l in out2.split("\n") if l.startswith("{") and '"id":"%s"' % c["id"] in l])
        if "died" in g:
            ctx.violate("pattern", "crash:%s" % g["died"], "driver died (rc %s) in %s\n%s" % (g["died"], what, g.get("stderr", "")[-1500:]), rp)
            continue
        compiled, passes = split_passes(g["lines"], cap)
        if not compiled:
            ctx.violate("pattern", "regex:compile-failed", "vbi_search_new refused " + what, rp)
            continue
        both = ((1, "fwd", passes[0]), (-1, "bwd", passes[1]))
        if same[c["id"]] and passes[0][1] != 0:
            both = both[:1]      # the forward pass did not end: the backward calls on the same object were a change of direction, not a pass
        bad = [(dr, nm) for dr, nm, p in both if not agrees(c[nm], p)]
        for dr, nm, p in both:
            u = (c.get("ure") or {}).get(nm)
            if u:
                stats["urescan-compared"] += 1
                if not agrees(u, p):      # the model of the deviation is not exact here (no verdict about the library)
                    stats["urescan-differs"] += 1
        if not bad:
            ctx.validated()
            stats["equal"] += 1
            if c["fwd"]["hits"]:
                ctx.sample(dict(pattern=pat, casefold=c["cf"], regexp=rx, forward=c["fwd"], backward=c["bwd"]))
            continue
        for dr, nm in bad:
            hits, st = passes[0 if dr > 0 else 1]
            ure = (c.get("ure") or {}).get(nm)
            if st not in (0, None):
                ctx.violate("pattern", "regex:%s:status %s" % (nm, st), "%s: vbi_search_next returned %s" % (what, st), rp)
            elif c["amb"] and ure and agrees(ure, (hits, st)):
                # exactly the named deviation TtxMatchDet!UreScan (known finding D66): the walk along the first accepting transition
                stats["regex:amb:single-path"] += 1
                ctx.violate("pattern", "regex:amb:single-path", "%s, %s pass: TtxMatch expects %s%s; library %s%s = TtxMatchDet!UreScan" % (
                    what, nm, c[nm]["hits"], " then NOT_FOUND" if c[nm]["ends"] else " ...", hits, " then NOT_FOUND" if st == 0 else " ..."), rp)
            else:
                jc.append((c, dr, hits, st, rp))
    limit = 600 if quick else 4000
    if len(jc) > limit:
        # a library that diverges everywhere: the unambiguous patterns first (every verdict there is a violation), the rest is left unjudged
        jc.sort(key=lambda x: (x[0]["amb"], x[0]["id"]))
        stats["unjudged"] = len(jc) - limit
        ctx.notes.append("%d diverging result sequences were not judged (limit %d)" % (len(jc) - limit, limit))
        jc = jc[:limit]
    if jc:
        def cut(c, dr, hits, st):
            """the judge needs the reports up to the first one that differs from the reference (which is acceptable itself)"""
            eh = [dict(pg=h["pg"], hl=sorted(h["hl"])) for h in c["fwd" if dr > 0 else "bwd"]["hits"]]
            d = next((i for i in range(min(len(hits), len(eh))) if hits[i] != eh[i]), min(len(hits), len(eh)))
            return hits[:d + 1], (st if d + 1 >= len(hits) else None)
        cuts = [cut(c, dr, hits, st) for c, dr, hits, st, rp in jc]
        verdicts = judge(ctx, seed, [(c, dr, h2, s2) for (c, dr, hits, st, rp), (h2, s2) in zip(jc, cuts)])
        for (c, dr, hits, st, rp), v in zip(jc, verdicts):
            nm = "fwd" if dr > 0 else "bwd"
            exp = c[nm]
            sep = c["f"] == "X" and c["k"] >= SEP_FIRST
            ure = (c.get("ure") or {}).get(nm)
            detail = "%s, %s pass: TtxMatch expects %s%s; library %s%s; judged %s at report %s%s" % (
                rp["what"], "forward" if dr > 0 else "backward", exp["hits"], " then NOT_FOUND" if exp["ends"] else " ...",
                hits, " then NOT_FOUND" if st == 0 else " ...", v["v"], v["at"],
                "; TtxMatchDet!UreScan (single path walk) predicts %s" % (ure["hits"],) if ure else "")
            if v["v"] == "ok":
                # a real occurrence of another length than the longest, nothing skipped: the property leaves that open
                stats["policy" if c["amb"] else "policy-unambiguous"] += 1
                continue
            if sep and any(not h["hl"] for h in hits):
                key = "odd:sep:empty-highlight"
            elif sep and exp["ends"] and st is None:
                key = "odd:sep:no-end"
            elif c["amb"] and not ure and v["v"] in ("skipped", "early-end"):
                key = "regex:amb:single-path"       # ambiguous pattern with anchors: the walk is not modelled, a miss is the known deviation
            else:
                key = "regex:%s:%s" % (nm, v["v"])
            stats[key] += 1
            ctx.violate("pattern", key, detail, rp)
    if stats["not-replayed"]:
        ctx.notes.append("%d cases were not replayed: their driver process had hung or died 4 times" % stats["not-replayed"])
    ctx.notes.append("pattern space layer: %s" % dict(stats))
    core.report_sanitizers(ctx, errs, in_scope=True)
    ctx.cov["pattern_space"] = dict(stats)
    return caches


# ---- odd patterns: the edge of the pattern language (no reference result: only what C17 demands of every call)
# vbi_search_new must refuse these (unbalanced class / property number without entry / operator without operand)
NOCOMPILE = ["[a", "[a\\", "[:alpha", "[ab", "|a", "|", "(|a)", "(*a)", "(+)", "\\p99", "\\p20", "[\\p31]", "\\p18", "(a", "\\"]
# (a leading operator is a literal character for ure, as in POSIX basic expressions: '*a' finds "*a")
# anything goes, but every call returns, nothing crashes or leaks, and a reported page highlights something
WEIRD = ["*a", "+a", "?", "a^b", "a$b", "(^a)*", "^*", "$*", "(^)+a", "a**", "(a*)*", "(a*)+", "(a|b*)*c", "a)", "()", "^^a", "a$$", "\\x41", "\\u0061b", "[a-", "[]a]", "[^]a]",
         "[a-c-e]", ".*.*.*a", "(a|aa)*b", "((a))", "(((((a)))))", "a|b|c|A|B|C", "[:alpha:]+", "[[:digit:]]", "\\p2,10", "\\P1", "a{2}", "\\", "a\\", "$^", "^$",
         "(ab|a)(bc|c)?", "x*", "(x*)*", "(a|b)*abb(a|b)*(a|b)*(a|b)*"]


def odd_pass(ctx, drv, cache):
    items = [(p, cf, True) for p in NOCOMPILE for cf in (0, 1)] + [(p, cf, False) for p in WEIRD for cf in (0, 1)]

    def lines_of(pat, cf):
        return ["M 100 0 %d 1 %s" % (cf, "".join("%04x" % ord(ch) for ch in pat)), "L 1 8", "L -1 8", "D"]
    pending = list(enumerate(items))
    errs = ""
    while pending:
        script = ["B odd"] + cache_script(cache)
        for i, (pat, cf, _) in pending:
            script += ["I o%d" % i] + lines_of(pat, cf)
        script.append("E")
        rc, so, se, to = core.run_driver([drv], "\n".join(script) + "\n", timeout=300, env=build.san_env())
        errs += se
        res, complete, ended = collections.defaultdict(list), set(), False
        for ln in so.split("\n"):
            if ln.startswith("{"):
                o = json.loads(ln)
                if o.get("end"):
                    ended = True
                elif o.get("done"):
                    complete.add(o["id"])
                else:
                    res[o["id"]].append(o)
        k = 0
        for k, (i, (pat, cf, must_fail)) in enumerate(pending):
            rr = res.get("o%d" % i, [])
            rp = dict(layer="odd", script=["B odd"] + cache_script(cache) + ["I x"] + lines_of(pat, cf) + ["E"], pattern=pat, casefold=cf)
            if "o%d" % i not in complete:
                if any(x.get("hang") for x in rr):
                    ctx.violate("odd", "hang:vbi_search_next", "pattern %r casefold=%d: vbi_search_next did not return within 4 s of CPU time" % (pat, cf), rp)
                elif ended:
                    raise tlc.ToolFailure("odd pattern driver: no result for %r" % pat)
                else:
                    sr = core.sanitizer_reports(se)
                    ctx.violate("odd", "crash:%s" % (":".join(sr[0][:2]) if sr else rc), "pattern %r casefold=%d: the process ended (rc %s)\n%s" % (pat, cf, rc, se[-1500:]), rp)
                break
            ctx.count_case(["odd", pat, cf], nontrivial=True)
            if must_fail and rr and rr[0].get("new") != 0:
                ctx.violate("odd", "odd:compiled", "vbi_search_new accepted the malformed pattern %r (casefold=%d)" % (pat, cf), rp)
            elif any(x.get("r") == 1 and not x.get("hl") for x in rr):
                ctx.violate("odd", "odd:empty-highlight", "pattern %r casefold=%d: SUCCESS with no cell highlighted: %s" % (pat, cf, rr), rp)
            elif any(x.get("r") not in (None, 0, 1) for x in rr):
                ctx.violate("odd", "odd:status", "pattern %r casefold=%d: %s" % (pat, cf, rr), rp)
            else:
                ctx.validated()
        else:
            k = len(pending)
        pending = pending[k + 1:]
    core.report_sanitizers(ctx, errs, in_scope=True)


def run(ctx):
    quick = ctx.tier == "quick"
    ctx.cov["rule"] = ("behaviours = terminal states of the bounded TtxSearch model (population x start x call sequence), each replayed on the "
                       "real library; distinct = distinct (population, start, calls) tuples; non-trivial = the spec predicts at least one SUCCESS; "
                       "pattern layer: one case = (pattern, casefold, cache of row texts) run forwards and backwards, non-trivial = TtxMatch finds an occurrence")
    ctx.assumptions += ["page slots stand for increasing page numbers; the driver maps them to real decimal/hex numbers",
                        "pattern occurrences are non-overlapping literal occurrences at fixed cells",
                        "header text is consistent so that no channel switch is inferred",
                        "pattern layer: texts over a b c A B C blank . * + which the default national subset displays as themselves; "
                        "forward = leftmost occurrence behind the previous one, backward = last of the successive occurrences of the text in front of the previous hit",
                        "result sequences that differ from the reference policy (longest match) are accepted when TtxMatchPage!Judge accepts them (length policy left open)"]
    drv = build.build_driver("drv_search")
    # 1. exhaustive model checking of the specification itself
    r = tlc.run("TtxSearch", "MC_TtxSearch_q" if quick else "MC_TtxSearch_t", timeout=1500, coverage=not quick, heap="8g", workers=8)
    ctx.add_mc(r, "MC safety")
    if r.violation:
        ctx.violate("mc", "mc:%s:%s" % (r.violation["kind"], r.violation["name"]), r.violation["text"])
    r = tlc.run("TtxSearch", "MC_TtxSearch_live" if quick else "MC_TtxSearch_live_t", timeout=900, heap="8g", workers=8)
    ctx.add_mc(r, "MC liveness")
    if r.violation:
        ctx.violate("mc", "mc:%s:%s" % (r.violation["kind"], r.violation["name"]), r.violation["text"])
    # 2. behaviours
    sets = [("Gen_TtxSearch_q", 3, 1)] if quick else [("Gen_TtxSearch_q", 3, 1), ("Gen_TtxSearch_t", 3, 2), ("Gen_TtxSearch_occ", 2, 1), ("Gen_TtxSearch_upd", 2, 1)]
    rnd = random.Random(ctx.seed)
    for cfg, np_, maxsub in sets:
        behs = gen(ctx, cfg, 1500)
        anysub = maxsub + 4
        items = []
        for i, b in enumerate(behs):
            smap = SLOTMAPS[np_][rnd.randrange(len(SLOTMAPS[np_]))]
            bid = "%s.%d" % (cfg[-3:], i)
            # concretisation: the presentation of the rows that carry no occurrence is free (plain / double height / double size /
            # double width text above or between the occurrences); the expected result does not depend on it
            # layout 5 moves the occurrences so that the first one starts in the very first cell searched (row 1, column 0)
            lay = rnd.choice([0, 0, 1, 2, 3, 4, 5, 5])
            items.append((bid, script_for(b, smap, bid, anysub, layout=lay), expected(b, smap, lay), b, smap))
        if items:
            ctx.sample(dict(script=items[len(items) // 2][1], expected=items[len(items) // 2][2]))
        # 8 parallel driver processes
        import concurrent.futures as cf
        chunks = [items[k::8] for k in range(8)]
        with cf.ThreadPoolExecutor(8) as ex:
            list(ex.map(lambda ch: run_batch(ctx, drv, ch) if ch else None, chunks))
    regex_pass(ctx, drv)
    # 3. the pattern space: generated patterns x generated row texts, expectations of TtxMatch, named deviation TtxMatchDet
    if not quick:
        r = tlc.run("MC_TtxMatchFast", "MC_TtxMatchFast", timeout=1500, workers=8, heap="8g", env={"VERIF_MATCH_SEED": ctx.seed % 60000})
        ctx.add_mc(r, "MC OccTab/OccF (evaluation short cuts of the reference matcher) = Occ")
        if r.violation:
            raise tlc.ToolFailure("the short cuts of the reference matcher differ from TtxMatch!Occ: " + r.violation["text"][:1500])
    caches = pattern_pass(ctx, drv)
    # 4. the edge of the pattern language
    odd_pass(ctx, drv, caches[0])
    ctx.cov["exhaustive"] = True


def replay(ctx, rp):
    drv = build.build_driver("drv_search")
    r = rp["replay"]
    text = "\n".join(r["script"]) + "\n"
    rc, out, err, to = core.run_driver([drv], text, timeout=60, env=build.san_env())
    print(out)
    if r.get("layer") in ("pattern", "odd"):
        lines = [json.loads(l) for l in out.split("\n") if l.startswith("{")]
        mine = [x for x in lines if x.get("id") not in ("pat", "odd")]
        if any(x.get("hang") for x in lines):
            ctx.violate("replay", "hang:vbi_search_next", "hang reproduced", r)
        elif r["layer"] == "pattern":
            compiled, passes = split_passes(mine, r["cap"])
            ok = compiled and agrees(r["expected"]["fwd"], passes[0]) and agrees(r["expected"]["bwd"], passes[1])
            if not ok:      # the recorded key stands for the judged divergence (the judge is not run again here)
                ctx.violate("replay", rp["key"], "%s: TtxMatch expects %s, library %s" % (r["what"], r["expected"], passes), r)
        elif rp["key"] == "odd:compiled" and mine and mine[0].get("new") != 0:
            ctx.violate("replay", rp["key"], "malformed pattern %r accepted" % r["pattern"], r)
        elif rp["key"] == "odd:empty-highlight" and any(x.get("r") == 1 and not x.get("hl") for x in mine):
            ctx.violate("replay", rp["key"], "SUCCESS without highlight reproduced", r)
        elif rc != 0:
            ctx.violate("replay", rp["key"], "driver died (rc %s): %s" % (rc, err[-1500:]), r)
        core.report_sanitizers(ctx, err, in_scope=True)
        return
    got = [{k: v for k, v in json.loads(l).items() if k != "id"} for l in out.split("\n") if l.startswith("{") and '"r"' in l]
    if '"hang":true' in out:
        ctx.violate("replay", "hang:vbi_search_next", "hang reproduced", r)
    elif "expected" in r and got != r["expected"] and isinstance(r["expected"], list) and r["expected"] and isinstance(r["expected"][0], dict):
        ctx.violate("replay", rp["key"], "expected %s got %s" % (r["expected"], got), r)
    core.report_sanitizers(ctx, err, in_scope=False)
