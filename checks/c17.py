"""C17 - search finds exactly the matching pages, in page order, and ends.
spec/TtxSearch.tla (walk of _vbi_cache_foreach_page one iteration per action + search.c stop logic)
MC: Exact/Sound/BoundedWalk invariants + Termination (liveness, fair spec)
GEN: every terminal state of the bounded model -> API-level behaviour with predicted results
REPLAY: harness/drv_search.c on the real library, populations transmitted through vbi_decode()."""
import json, shutil, os, random, collections
from vlib import tlc, build, core

MANIFEST = dict(
    level="model_checking",
    engine="tlc-mc+replay",
    technique="TLA+ spec TtxSearch checked exhaustively by TLC (safety + liveness); all generated call histories replayed on the real vbi_search API with a watchdog and compared result by result",
    text="TLC explores every population of a small page alphabet (3-4 page slots x subpage sets x match counts), every start "
         "position, both directions and direction changes, and checks Exact (result sequence = declarative reference), Sound, and "
         "Termination as a liveness property of the walk. Every terminal state's call history is replayed through "
         "vbi_decode/vbi_search_new/vbi_search_next (ASan+UBSan build, 5 s watchdog per call) and each result (status, page, "
         "subpage, highlighted cells) must equal the model's. Regex/casefold matching is checked against an independent matcher on generated rows.",
    note="Bounded: <=4 page slots, subpages {0,1,2}, <=2 occurrences per page, <=4 calls per search in MC; page slots are mapped to "
         "real decimal/hex page numbers by the driver; the ure regex engine is compared with Python's re on a generated pattern set (sampled, not exhaustive).",
)

SLOTMAPS = {3: [[0x100, 0x101, 0x899], [0x123, 0x456, 0x789], [0x150, 0x300, 0x898]],
            4: [[0x100, 0x101, 0x555, 0x899], [0x111, 0x222, 0x333, 0x444]],
            2: [[0x100, 0x899], [0x345, 0x346]]}
STATUS = {"success": 1, "notfound": 0, "empty": -2}


def gen(ctx, cfg, timeout):
    r = tlc.run("Gen_TtxSearch", cfg, timeout=timeout, collect_tr=True, heap="12g")
    if r.violation:
        raise tlc.ToolFailure("GEN run reported " + str(r.violation))
    ctx.add_mc(r, "GEN " + cfg)
    return r.tr


def script_for(beh, smap, bid, anysub, layout=0):
    """line protocol for one behaviour; layout = presentation of the pages (enlarged text on rows without occurrence)"""
    lines = ["B %s" % bid] + (["Y %d" % layout] if layout else [])
    for (p, s, occ) in beh["pop0"]:
        if occ >= 0:
            lines.append("P %x %x %d" % (smap[p - 1], s, occ))
    a = beh["arg"]
    lines.append("N %x %x" % (smap[a[0] - 1], 0x3F7F if a[1] == anysub else a[1]))
    for c in beh["calls"]:
        if c["r"] == "update":
            lines.append("P %x %x %d" % (smap[c["pg"] - 1], c["sub"], c["occ"]))
        else:
            lines.append("S %d" % c["d"])
    lines.append("E")
    return lines


def expected(beh, smap, layout=0):
    out = []
    for c in beh["calls"]:
        if c["r"] == "update":
            continue
        e = dict(r=STATUS[c["r"]])
        if c["r"] == "success":
            o = c["occ"] - 1
            e.update(pg=smap[c["pg"] - 1], sub=c["sub"],
                     hl=[[1 + 5 * o, 3 * o + i] for i in range(3)] if layout == 5 else [[3 + 5 * o, 4 + 3 * o + i] for i in range(3)])
        out.append(e)
    return out


def run_batch(ctx, drv, items):
    """items: list of (bid, lines, expected, beh, smap). Runs the driver (restarting after a hang)."""
    pending = list(items)
    hangs = 0
    while pending:
        if hangs >= 6:
            ctx.notes.append("replay of a chunk stopped after 6 watchdog hits (%d behaviours not replayed)" % len(pending))
            ctx.cov["exhaustive"] = False
            return
        text = "\n".join("\n".join(it[1]) for it in pending) + "\n"
        rc, out, err, to = core.run_driver([drv], text, timeout=600, env=build.san_env())
        res = collections.defaultdict(list)
        hang_id = None
        for ln in out.split("\n"):
            if not ln.startswith("{"):
                continue
            o = json.loads(ln)
            if o.get("hang"):
                hang_id = o["id"]
            res[o["id"]].append(o)
        done = 0
        for idx, it in enumerate(pending):
            bid, lines, exp, beh, smap = it
            rr = res.get(bid, [])
            if bid == hang_id:
                k = len([x for x in rr if "r" in x])
                # confirm on its own before reporting (DESIGN 3.6: a verdict must be reproducible)
                rc2, out2, err2, to2 = core.run_driver([drv], "\n".join(lines) + "\n", timeout=120, env=build.san_env())
                if '"hang":true' not in out2 and not to2:
                    ctx.notes.append("watchdog hit for %s was not reproducible (machine load); behaviour replayed again" % bid)
                    done = idx          # this behaviour is run again with the rest
                    hangs += 1
                    break
                ctx.violate("replay", "hang:vbi_search_next",
                            "vbi_search_next did not return within 4 s of CPU time (call %d of the behaviour)" % (k + 1),
                            dict(script=lines, expected=exp, behaviour=beh))
                ctx.count_case(beh)
                done = idx + 1
                hangs += 1
                break
            if not any("end" in x for x in rr):
                break
            got = [{k: v for k, v in x.items() if k != "id"} for x in rr if "r" in x]
            ctx.count_case(beh, nontrivial=any(e["r"] == 1 for e in exp))
            if got == exp:
                ctx.validated()
            else:
                i = next((j for j in range(min(len(got), len(exp))) if got[j] != exp[j]), min(len(got), len(exp)))
                ctx.violate("replay", classify(beh, exp, got, i),
                            "call %d: spec predicts %s, library returned %s" % (i + 1, exp[i] if i < len(exp) else None, got[i] if i < len(got) else None),
                            dict(script=lines, expected=exp, got=got, behaviour=beh))
            done = idx + 1
        sr = core.report_sanitizers(ctx, err, in_scope=False)
        if done == 0 and not sr and hang_id is None:
            raise tlc.ToolFailure("driver produced no result (rc=%s): %s" % (rc, err[-2000:]))
        if done >= len(pending):
            break
        pending = pending[done:]


def classify(beh, exp, got, i):
    """signature of a divergence, narrow enough to tell different defects apart"""
    d = [c for c in beh["calls"] if c["r"] != "update"][i]["d"] if i < len(exp) else 0
    e = exp[i] if i < len(exp) else {}
    g = got[i] if i < len(got) else {}
    if e.get("r") == 1 and g.get("r") == 1 and (e.get("pg"), e.get("sub")) != (g.get("pg"), g.get("sub")):
        what = "wrong-page"
    elif e.get("r") == 1 and g.get("r") == 0:
        what = "missed-page"
    elif e.get("r") == 0 and g.get("r") == 1:
        what = "extra-page"
    elif e.get("r") == 1 and g.get("r") == 1:
        what = "wrong-highlight"
    else:
        what = "status %s->%s" % (e.get("r"), g.get("r"))
    return "diverge:%s:%s" % ("fwd" if d > 0 else "rev", what)


# ---- pattern language: the ure string handed to vbi_search_new and its transcription as a TtxMatch AST (TLA+ text)
def _chr(c): return '[k |-> "chr", c |-> %d]' % ord(c)
def _cat(*a): return '[k |-> "cat", a |-> <<%s>>]' % ", ".join(a)
def _alt(*a): return '[k |-> "alt", a |-> <<%s>>]' % ", ".join(a)
def _cls(chars): return '[k |-> "cls", s |-> {%s}]' % ", ".join(str(ord(c)) for c in chars)
def _un(k, p): return '[k |-> "%s", p |-> %s]' % (k, p)
def _lit(s): return _cat(*[_chr(c) for c in s])
_ANY, _BOL, _EOL = '[k |-> "any"]', '[k |-> "bol"]', '[k |-> "eol"]'
DIGITS = "0123456789"
PATS = [  # (ure pattern, casefold, regexp, AST)
    ("ZQX", 0, 0, _lit("ZQX")), ("zqx", 1, 0, _lit("zqx")), ("zqx", 0, 0, _lit("zqx")),
    ("Z.X", 0, 1, _cat(_chr("Z"), _ANY, _chr("X"))), ("ZQ*X", 0, 1, _cat(_chr("Z"), _un("star", _chr("Q")), _chr("X"))),
    ("(AB|CD)E", 0, 1, _cat(_alt(_lit("AB"), _lit("CD")), _chr("E"))), ("[K-M]9", 0, 1, _cat(_cls("KLM"), _chr("9"))),
    ("Q+R", 0, 1, _cat(_un("plus", _chr("Q")), _chr("R"))), ("a.c", 1, 1, _cat(_chr("a"), _ANY, _chr("c"))),
    ("X *$", 0, 1, _cat(_chr("X"), _un("star", _chr(" ")), _EOL)), ("^rowd", 0, 1, _cat(_BOL, _lit("rowd"))),
    ("1+1", 0, 0, _lit("1+1")), ("A|B", 0, 0, _lit("A|B")), ("N?OP", 0, 1, _cat(_un("opt", _chr("N")), _lit("OP"))),
    ("x[0-9][0-9]y", 0, 1, _cat(_chr("x"), _cls(DIGITS), _cls(DIGITS), _chr("y"))),
    # occurrences behind a false start: the matcher has to come back to the character after the failed attempt
    ("ab", 0, 0, _lit("ab")), ("abac", 0, 0, _lit("abac")), ("aab", 0, 1, _lit("aab")), ("ZQ+X", 0, 1, _cat(_chr("Z"), _un("plus", _chr("Q")), _chr("X"))),
    ("(ab)+c", 0, 1, _cat(_un("plus", _lit("ab")), _chr("c"))),
    # an attempt that goes on behind a complete match and then fails: the complete match counts
    ("AB(CD)?", 0, 1, _cat(_lit("AB"), _un("opt", _lit("CD")))), ("A(BC)*", 0, 1, _cat(_chr("A"), _un("star", _lit("BC")))),
    ("AB|ABCD", 0, 1, _alt(_lit("AB"), _lit("ABCD"))),
]
WORDS = ["ZQX", "zqx", "ZX", "ZQQQX", "ABE", "CDE", "L9", "QQR", "abc", "AxC", "1+1", "A|B", "OP", "NOP", "x42y", "x4y", "hello", "Z X", "X",
         "ZZQX", "aab", "aaab", "ababac", "abab", "QQQR", "ZQZQX", "ZQQZQQX", "ababc", "xaby", "AABE", "ABCX", "ABC", "ABCBX", "ABCD"]


def row_text(row, w):
    return ("row" + chr(ord('a') + row) + (w if row == 3 else "")).ljust(40)


def eval_matchlib(ctx):
    """TLC evaluates spec/TtxMatch.tla on every (pattern, row): -> {(pattern index, row text): (hit, starts)}"""
    rows = sorted({row_text(r, "") for r in range(1, 24)} | {row_text(3, w) for w in WORDS})
    d = os.path.join(ctx.scratch, "match")
    os.makedirs(d, exist_ok=True)
    for f in ("TtxMatch.tla", "Eval_TtxMatch.tla", "Eval_TtxMatch.cfg"):
        shutil.copy(os.path.join(tlc.SPEC, f), d)
    pats = ",\n  ".join("[cf |-> %s, p |-> %s]" % ("TRUE" if cf else "FALSE", ast) for _, cf, _, ast in PATS)
    rws = ",\n  ".join("<<" + ", ".join(str(ord(c)) for c in r) + ">>" for r in rows)
    open(os.path.join(d, "MatchLib.tla"), "w").write("---- MODULE MatchLib ----\nEXTENDS TtxMatch\nPats == <<\n  %s >>\nRows == <<\n  %s >>\n====\n" % (pats, rws))
    r = tlc.run("Eval_TtxMatch", "Eval_TtxMatch", timeout=900, workers=1, collect_tr=True, cwd=d, heap="4g")
    ctx.add_mc(r, "EVAL TtxMatch (pattern x row library)")
    tab = {(e["p"] - 1, rows[e["r"] - 1]): (e["hit"], sorted(e["starts"])) for e in r.tr}
    if len(tab) != len(PATS) * len(rows):
        raise tlc.ToolFailure("pattern library evaluation incomplete: %d of %d" % (len(tab), len(PATS) * len(rows)))
    return tab


def regex_pass(ctx, drv):
    """independent matcher = spec/TtxMatch.tla evaluated by TLC on the rows the driver transmits"""
    tab = eval_matchlib(ctx)
    rnd = random.Random(ctx.seed)
    items = []
    n = 120 if ctx.tier == "quick" else 1500
    for t in range(n):
        pi = rnd.randrange(len(PATS)) if t >= len(PATS) else t
        pat, cf, rx, _ = PATS[pi]
        pages = [(pg, rnd.choice(WORDS)) for pg in (0x100, 0x200, 0x300)]
        bid = "rx%d" % t
        lines = ["B " + bid] + ["P %x 0 0 %s" % (pg, w) for pg, w in pages] + ["N 100 0 %s %d %d" % (pat.replace(" ", "_"), cf, rx)] + ["S 1"] * 4 + ["E"]
        # the search sees rows 1..23; row 3 carries the word
        exp, first = [], {}
        for pg, w in pages:
            hits = [(row, tab[(pi, row_text(row, w))]) for row in range(1, 24)]
            hits = [(row, h[1]) for row, h in hits if h[0]]
            if hits:
                exp.append(pg)
                first[pg] = [hits[0][0], hits[0][1][0] - 1]          # row and column of the first occurrence in reading order
        items.append((bid, lines, exp, pages, (pat, cf, rx), first))
    text = "\n".join("\n".join(it[1]) for it in items) + "\n"
    rc, out, err, to = core.run_driver([drv], text, timeout=600, env=build.san_env())
    res = collections.defaultdict(list)
    for ln in out.split("\n"):
        if ln.startswith("{"):
            o = json.loads(ln); res[o["id"]].append(o)
    for bid, lines, exp, pages, p, first in items:
        rr = res.get(bid, [])
        if rr and rr[0].get("new") == 0:
            ctx.violate("regex", "regex:compile-failed:%s" % p[0], "vbi_search_new refused pattern %r" % (p,), dict(script=lines))
            continue
        got, hl = [], {}
        for x in rr:
            if x.get("r") == 1 and x["pg"] not in got:
                got.append(x["pg"]); hl[x["pg"]] = x["hl"][0] if x.get("hl") else None
        ctx.count_case([p, pages], nontrivial=bool(exp))
        if got != exp:
            ctx.violate("regex", "regex:%s cf=%d rx=%d" % p, "pattern %r pages %r: specification TtxMatch finds %s, library %s" % (p, pages, [hex(x) for x in exp], [hex(x) for x in got]),
                        dict(script=lines, expected=exp, got=got))
        elif any(hl[pg] != first[pg] for pg in exp):
            ctx.violate("regex", "regex-highlight:%s cf=%d rx=%d" % p, "pattern %r pages %r: first occurrence at %s, highlight begins at %s" % (p, pages, first, hl),
                        dict(script=lines, expected=first, got=hl))
        else:
            ctx.validated()
    core.report_sanitizers(ctx, err, in_scope=False)


def run(ctx):
    quick = ctx.tier == "quick"
    ctx.cov["rule"] = ("behaviours = terminal states of the bounded TtxSearch model (population x start x call sequence), each replayed on the "
                       "real library; distinct = distinct (population, start, calls) tuples; non-trivial = the spec predicts at least one SUCCESS")
    ctx.assumptions += ["page slots stand for increasing page numbers; the driver maps them to real decimal/hex numbers",
                        "pattern occurrences are non-overlapping literal occurrences at fixed cells",
                        "header text is consistent so that no channel switch is inferred"]
    drv = build.build_driver("drv_search")
    # 1. exhaustive model checking of the specification itself
    r = tlc.run("TtxSearch", "MC_TtxSearch_q" if quick else "MC_TtxSearch_t", timeout=1500, coverage=not quick, heap="12g")
    ctx.add_mc(r, "MC safety")
    if r.violation:
        ctx.violate("mc", "mc:%s:%s" % (r.violation["kind"], r.violation["name"]), r.violation["text"])
    r = tlc.run("TtxSearch", "MC_TtxSearch_live" if quick else "MC_TtxSearch_live_t", timeout=900, heap="12g")
    ctx.add_mc(r, "MC liveness")
    if r.violation:
        ctx.violate("mc", "mc:%s:%s" % (r.violation["kind"], r.violation["name"]), r.violation["text"])
    # 2. behaviours
    sets = [("Gen_TtxSearch_q", 3, 1)] if quick else [("Gen_TtxSearch_q", 3, 1), ("Gen_TtxSearch_t", 3, 2), ("Gen_TtxSearch_occ", 2, 1), ("Gen_TtxSearch_upd", 2, 1)]
    rnd = random.Random(ctx.seed)
    for cfg, np_, maxsub in sets:
        behs = gen(ctx, cfg, 1500)
        anysub = maxsub + 4
        items = []
        for i, b in enumerate(behs):
            smap = SLOTMAPS[np_][rnd.randrange(len(SLOTMAPS[np_]))]
            bid = "%s.%d" % (cfg[-3:], i)
            # concretisation: the presentation of the rows that carry no occurrence is free (plain / double height / double size /
            # double width text above or between the occurrences); the expected result does not depend on it
            # layout 5 moves the occurrences so that the first one starts in the very first cell searched (row 1, column 0)
            lay = rnd.choice([0, 0, 1, 2, 3, 4, 5, 5])
            items.append((bid, script_for(b, smap, bid, anysub, layout=lay), expected(b, smap, lay), b, smap))
        if items:
            ctx.sample(dict(script=items[len(items) // 2][1], expected=items[len(items) // 2][2]))
        # 16 parallel driver processes
        import concurrent.futures as cf
        chunks = [items[k::16] for k in range(16)]
        with cf.ThreadPoolExecutor(16) as ex:
            list(ex.map(lambda ch: run_batch(ctx, drv, ch) if ch else None, chunks))
    regex_pass(ctx, drv)
    ctx.cov["exhaustive"] = True


def replay(ctx, rp):
    drv = build.build_driver("drv_search")
    r = rp["replay"]
    text = "\n".join(r["script"]) + "\n"
    rc, out, err, to = core.run_driver([drv], text, timeout=60, env=build.san_env())
    print(out)
    got = [{k: v for k, v in json.loads(l).items() if k != "id"} for l in out.split("\n") if l.startswith("{") and '"r"' in l]
    if '"hang":true' in out:
        ctx.violate("replay", "hang:vbi_search_next", "hang reproduced", r)
    elif "expected" in r and got != r["expected"] and isinstance(r["expected"], list) and r["expected"] and isinstance(r["expected"][0], dict):
        ctx.violate("replay", rp["key"], "expected %s got %s" % (r["expected"], got), r)
    core.report_sanitizers(ctx, err, in_scope=False)
