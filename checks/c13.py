"""C13 - station, programme, time and aspect announcements are faithful and debounced.
spec/Announce.tla: the network record as coded (one value per carrier, ONE shared repeat state, network id, VPS label of the
  first reception, reset on a station change incl. the withdrawn aspect ratio), WSS repeat counter, the list of registered
  handlers with their masks (what is decoded depends on the union; newly activated types reset their part of the state);
  the property as separate invariants / action properties.
MC:  Faithful, OfThisReception, OnlyAfterRepeat, VpsLabelTwice, NetworkMeansChange, OneNetworkEvent, NotAgainWhileSame, StationKept,
     CacheKept, CacheDropped, Gated, WssOnlyAfterRepeats, AspectRevertOnlyOnChange over all interleavings of VPS / 8-30-1 / 8-30-2 /
     WSS receptions of known, other-known and unlisted stations with programme labels and times varying independently, and of
     registrations in mid-stream; XDS name / call letters separately.
GEN: one behaviour into every distinct model state after MaxRecv receptions.
REPLAY: harness/drv_announce.c feeds real lines through vbi_decode and calls vbi_event_handler_register/_unregister/_add/_remove;
     the events every handler was handed (type, order, network id, CNIs, PDC label, time, aspect) and the cached sentinel page are
     compared after every step."""
import json, os, random, re
from vlib import tlc, build, core

MANIFEST = dict(
    level="model_checking",
    engine="tlc-mc+replay",
    technique="TLA+ spec Announce (network record with the shared repeat state as coded, VPS label store, handler list with event masks and "
              "the resets of newly activated event types + the property as invariants/action properties) checked exhaustively by TLC; one "
              "generated behaviour into every distinct model state replayed through vbi_decode and vbi_event_handler_register/_unregister/"
              "_add/_remove with real VPS, packet 8/30 format 1/2, XDS and WSS lines and compared event by event and handler by handler, "
              "incl. the cached sentinel page",
    text="TLC explores all interleavings of up to 8 receptions on VPS, packet 8/30 format 1 and 2 and WSS (stations: two listed, one unlisted; "
         "PDC labels and local times varying independently of the CNI, damaged 8/30 payloads; WSS words: valid ones incl. two with the same "
         "meaning, one with bad parity), of registrations / unregistrations of two handlers with different event masks in mid-stream, and of XDS "
         "network names and call letters separately, and checks that event payloads equal the values of the reception that raised them, an "
         "identifier is announced only on a reception repeating the previous one of its carrier, a VPS programme label only when received "
         "before with the same CNI, a NETWORK event implies a changed station, occurs at most once per reception and never repeats the station "
         "announced last, a registration that does not newly activate a network event type leaves station, repeat state and cache alone, the "
         "cache is dropped exactly when the identified station changes, programme label and time are decoded for listeners only, and WSS is "
         "announced only with valid parity after >= 3 identical repeats, not again while unchanged, and withdrawn only on a station change. "
         "Time stamp jumps of vbi_decode (dropped frames) and empty frames are actions too: a jump alone raises nothing and keeps station and "
         "cache; the drop-out countdown it arms expires only after 40 regular frames in which no change of the identified station was "
         "announced (a station change after a gap = ONE network event, the cache dropped once) and is cancelled by a rolling page header. "
         "The PDC label q deviates from p in exactly one field of vbi_program_id the carrier transmits (VPS: PIL, PTY, PCS; 8/30-2: PIL, PTY, "
         "PCS, LCI, LUF, PRF, MI), the field taken in turn across the behaviours. "
         "The generated behaviours are replayed on the real decoder: event types, order, receiving handler, network id, CNI fields, "
         "PIL/PTY/PCS/LCI/LUF/PRF/MI, local time and offset, aspect payload and the sentinel page.",
    note="Bounded: <= 9 receptions in replay (5 with the full alphabet; thorough 10 / 6), <= 11 in MC; 3 station values per carrier, 2 labels, 2 times, "
         "2 handlers with <= 2 registrations in mid-stream; "
         "XDS (NTSC) is checked on its own because the network name field is shared with the station table name of the PAL carriers. The "
         "station table itself is trusted (two listed stations drawn from it). The concrete stations, PDC labels, times and WSS words depend on VERIF_SEED. "
         "Gaps: one time stamp jump and two runs of empty frames (1 / 38 / 40 frames) among 5 receptions on VPS and 8/30-1 (thorough: two jumps, "
         "three stations, WSS); the countdown expires in empty frames only (a reception is never the expiring frame) and gaps are not "
         "combined with XDS (its units take several frames). What a drop-out alone does after 40 frames (cache dropped, NETWORK event without "
         "station) is modelled as coded and left open by the property.",
)

WORKERS = 8
TYPE_ORDER = ["NETWORK", "NETWORK_ID", "PROG_ID", "LOCAL_TIME", "ASPECT", "PROG_INFO", "TTX_PAGE", "CAPTION"]
SLOT = {"h1": 0, "h2": 1, "h3": 2}
XDS_NAME = dict(a="NETA", b="NETB", u="UVW")
CALL = {"a": "WAAA", "b": "KBBB", "0": ""}
CNI_TYPE_VPS, CNI_TYPE_8302, PID_CHANNEL_VPS = 1, 3, 4          # enum values of src/pdc.h / src/bcd.h
# EN 300 294 group 1 (b0..b3, odd parity): active lines of the first field and pixel aspect of the transmitted format
WSS_FORMAT = {0x8: (23, 310, 1000),     # 4:3 full format, 576 lines
              0x1: (41, 292, 1000),     # 14:9 letterbox centre, 504 lines
              0x2: (23, 274, 1000),     # 14:9 letterbox top
              0xB: (59, 273, 1000),     # 16:9 letterbox centre, 430 lines
              0x4: (23, 237, 1000),     # 16:9 letterbox top
              0xD: (59, 273, 1000),     # > 16:9 letterbox centre
              0xE: (23, 310, 1000),     # 14:9 full format, shoot and protect
              0x7: (23, 310, 750)}      # 16:9 full format (anamorphic)
ASPECT_DEFAULT = dict(first=23, last=310, ratio1000=1000, film=0, subt=3)


def bcd(x, n):
    return sum(((x >> (4 * i)) & 15) * 10 ** i for i in range(n))


def tobcd(x, n):
    return sum(((x // 10 ** i) % 10) << (4 * i) for i in range(n))


def station_table():
    """rows (id, 8/30-1 code, 8/30-2 code, VPS code) of the station table of the tree under test (trusted)"""
    rows = []
    path = os.path.join(os.environ.get("VERIF_REPO", "/repo"), "src", "network-table.h")
    for ln in open(path, encoding="latin-1"):
        m = re.match(r'\s*\{\s*(\d+),\s*"[^"]*",\s*"[^"]*",\s*0x([0-9A-Fa-f]+),\s*0x([0-9A-Fa-f]+),\s*0x([0-9A-Fa-f]+),\s*0x([0-9A-Fa-f]+)\s*\}', ln)
        if m:
            rows.append((int(m.group(1)), int(m.group(2), 16), int(m.group(3), 16), int(m.group(5), 16)))
    return rows


class Values:
    """what the stations transmit for the symbols of the model - the transmitter; drawn from the seed"""

    def stations(self, rng):
        """a, b: two listed stations that have a code of their own on every carrier; u: codes no station has"""
        rows = station_table()
        n1, n2, n4, nid = ({}, {}, {}, {})
        for i, c1, c2, c4 in rows:
            n1[c1] = n1.get(c1, 0) + 1; n2[c2] = n2.get(c2, 0) + 1; n4[c4] = n4.get(c4, 0) + 1
            nid[i] = nid.get(i, 0) + 1
        shared = {0xDC1, 0xDC2, 0xDC3}           # ARD / ZDF share a VPS code, told apart by another bit
        cand = [r for r in rows if r[1] and r[3] and n1[r[1]] == 1 and n4[r[3]] == 1 and r[3] not in shared
                and (r[2] == 0 or n2[r[2]] == 1)]
        if len(cand) < 2:
            raise tlc.ToolFailure("station table: no two stations with codes on all carriers")
        a, b = rng.sample(cand, 2)
        while a[0] == b[0]:
            a, b = rng.sample(cand, 2)

        def p2code(r):
            if r[2]:
                return r[2]              # the station's own 8/30 format 2 code
            while True:                  # else its VPS code behind any country nibble (looked up by the low 12 bits)
                c = (rng.randrange(1, 16) << 12) | r[3]
                if c not in n2:
                    return c

        def unlisted(bits, *used):
            while True:
                c = rng.randrange(1, 1 << bits)
                if all(c not in u for u in used) and (c & 0xFFF) not in shared:
                    return c
        u2 = unlisted(16, n2)
        while (u2 & 0xFFF) in n4:
            u2 = unlisted(16, n2)
        self.code = dict(vps=dict(a=a[3], b=b[3], u=unlisted(12, n4)), p1=dict(a=a[1], b=b[1], u=unlisted(16, n1)),
                         p2=dict(a=p2code(a), b=p2code(b), u=u2), xds=XDS_NAME)
        self.nuid = {"A": a[0], "B": b[0], "0": 0}

    def __init__(self, seed):
        rng = random.Random(seed * 7919 + 13)
        self.stations(rng)

        def label():
            return dict(pil=rng.getrandbits(20), pty=rng.getrandbits(8), pcs=rng.randrange(4), lci=rng.randrange(4), luf=rng.randrange(2),
                        prf=rng.randrange(2), mi=rng.randrange(2))
        p = label()
        # q differs from p in exactly ONE field of vbi_program_id that the carrier transmits; WHICH field is taken in turn across the
        # generated behaviours (q_fields below), so that "announced only after received again unchanged" is decided for every field
        self.alt = dict(pil=p["pil"] ^ (1 << rng.randrange(20)), pty=p["pty"] ^ (1 << rng.randrange(8)),
                        pcs=(p["pcs"] + 1 + rng.randrange(3)) % 4, lci=(p["lci"] + 1 + rng.randrange(3)) % 4,
                        luf=p["luf"] ^ 1, prf=p["prf"] ^ 1, mi=p["mi"] ^ 1)
        self.label = dict(p=p)

        def atime(sign):
            mjd = rng.randrange(40587, 99999)
            utc = (rng.randrange(24), rng.randrange(60), rng.randrange(60))
            lto = sign * rng.randrange(1, 32) if sign else 0
            return dict(mjd=mjd, utc=utc, lto=lto)
        self.time = dict(t=atime(1), s=atime(-1))       # east and west of Greenwich

        def word(fmt):
            film, subt = rng.randrange(2), rng.randrange(4)
            b0 = fmt | (film << 4) | (rng.randrange(8) << 5)
            b1 = rng.randrange(2) | (subt << 1) | (rng.randrange(8) << 3)
            f0, f1, ratio = WSS_FORMAT[fmt]
            return (b0, b1), dict(first=f0, last=f1, ratio1000=ratio, film=film, subt=subt)
        fx, fy, fz = rng.sample(sorted(WSS_FORMAT), 3)
        self.wss, self.aspect = {}, {}
        for sym, fmt in (("x", fx), ("y", fy), ("z", fz)):
            self.wss[sym], self.aspect["a" + sym] = word(fmt)
        b0, b1 = self.wss["x"]          # x2: the same meaning, other reserved bits
        self.wss["x2"] = rng.choice([(b0 ^ 0x20, b1), (b0 ^ 0xC0, b1 ^ 0x08), (b0, b1 ^ 0x31)])
        self.wss["bad"] = (self.wss["y"][0] ^ (1 << rng.randrange(4)), self.wss["y"][1])
        self.aspect["adefault"] = ASPECT_DEFAULT

    def lab(self, c, l, qf):
        """the label a station transmits for symbol l on carrier c when q's deviating field on that carrier is qf[c]"""
        lb = dict(self.label["p"])
        if l == "q":
            lb[qf[c]] = self.alt[qf[c]]
        return lb

    def time_args(self, l):
        if l == "bad":                  # a digit that is not BCD
            t = self.time["t"]
            return "%x %x %d" % (tobcd(t["mjd"], 5), 0x1A3456, t["lto"])
        t = self.time[l]
        h, m, s = t["utc"]
        return "%x %x %d" % (tobcd(t["mjd"], 5), (tobcd(h, 2) << 16) | (tobcd(m, 2) << 8) | tobcd(s, 2), t["lto"])


def mask_str(m):
    return "|".join(t for t in TYPE_ORDER if t in m) or "0"


# the fields of vbi_program_id a carrier transmits besides the CNI (which the model varies itself: a / b / u)
Q_FIELDS = dict(vps=["pil", "pty", "pcs"], p2=["pil", "pty", "pcs", "lci", "luf", "prf", "mi"])
QF_DEFAULT = dict(vps="pil", p2="pil")


def q_fields(behs):
    """per behaviour the field in which label q deviates from p on VPS / in 8/30-2: taken in turn over the behaviours that
    transmit q on that carrier (the behaviours are sorted first: TLC's output order depends on its worker threads)"""
    out, k = [], dict(vps=0, p2=0)
    for b in behs:
        out.append({c: Q_FIELDS[c][k[c] % len(Q_FIELDS[c])] for c in k})
        for c in k:
            k[c] += any(st["act"].get("c") == c and st["act"].get("l") == "q" for st in b)
    return out


def line_of(act, val, qf=QF_DEFAULT):
    a = act["a"]
    if a == "Init":
        return "H r 0 %s" % mask_str(act["m"])
    if a == "Register":
        return "H %s %d %s" % ("a" if act["api"] == "add" else "r", SLOT[act["h"]], mask_str(act["m"]))
    if a == "Unregister":
        return "H %s %d 0" % ("a" if act["api"] == "add" else "r", SLOT[act["h"]])
    if a == "Refill":
        return "T"
    if a == "Call":
        return "L %s" % CALL[act["v"]]
    if a == "Wss":
        return "W %02x %02x" % val.wss[act["w"]]
    if a == "Gap":
        return "G"
    if a == "Idle":
        return "F %d" % act["n"]
    c, v, l = act["c"], act["v"], act["l"]
    if c == "vps":
        lb = val.lab(c, l, qf)
        return "V %x %x %x %x" % (val.code[c][v], lb["pil"], lb["pty"], lb["pcs"])
    if c == "p1":
        return "1 %x %s" % (val.code[c][v], val.time_args(l))
    if c == "p2":
        lb = val.lab(c, "p" if l == "bad" else l, qf)
        return "2 %x %x %x %x %x %x %x %x%s" % (val.code[c][v], lb["pil"], lb["lci"], lb["luf"], lb["prf"], lb["pcs"], lb["mi"], lb["pty"],
                                              " x" if l == "bad" else "")
    return "N %s" % val.code[c][v]


def expect(st, val, qf=QF_DEFAULT):
    """model events -> the fields the driver prints"""
    out = []
    for e in st["evs"]:
        t, c, v, l = e["t"], e["c"], e["v"], e["l"]
        o = dict(h=SLOT[e["h"]], t=t)
        if t in ("NETWORK", "NETWORK_ID"):
            if c == "cd":              # the drop-out event: the zeroed network record
                o.update(nuid=0, cni_vps=0, cni_8301=0, cni_8302=0, name="", call="")
            elif c == "xds":
                o["nuid_sym"] = e["nuid"]
                o["name"] = val.code[c][v]
                o["call"] = CALL[e.get("call", "0")]
            else:
                o["nuid"] = val.nuid[e["nuid"]]
                o[{"vps": "cni_vps", "p1": "cni_8301", "p2": "cni_8302"}[c]] = val.code[c][v]
        elif t == "PROG_ID":
            lb = val.lab(c, l, qf)
            if c == "vps":
                o.update(cni_type=CNI_TYPE_VPS, cni=val.code[c][v], pil=lb["pil"], ch=PID_CHANNEL_VPS, luf=0, mi=1, prf=0, pcs=lb["pcs"], pty=lb["pty"])
            else:
                o.update(cni_type=CNI_TYPE_8302, cni=val.code[c][v], pil=lb["pil"], ch=lb["lci"], luf=lb["luf"], mi=lb["mi"], prf=lb["prf"],
                         pcs=lb["pcs"], pty=lb["pty"])
        elif t == "LOCAL_TIME":
            tm = val.time[l]
            h, m, s = tm["utc"]
            o.update(time=(tm["mjd"] - 40587) * 86400 + h * 3600 + m * 60 + s, east=tm["lto"] * 1800, east_valid=1)
        elif t == "ASPECT":
            o.update(val.aspect[e["asp"]])
        out.append(o)
    return out


def matches(exp, got, xmap):
    if len(exp) != len(got):
        return False
    for e, g in zip(exp, got):
        for k, v in e.items():
            if k == "nuid_sym":
                n = g.get("nuid")
                if n == 0 or not (n & (1 << 30)):
                    return False
                if xmap.setdefault(v, n) != n or sum(1 for x in xmap.values() if x == n) != 1:
                    return False
            elif g.get(k) != v:
                return False
    return True


def script_of(b, val, qf=QF_DEFAULT):
    """the Init step registers handler h1 and, if Teletext is decoded, is followed by the sentinel page"""
    s = [line_of(b[0]["act"], val, qf)]
    if "TTX_PAGE" in b[0]["act"]["m"]:
        s.append("T")
    return s + [line_of(st["act"], val, qf) for st in b[1:]]


def compare(b, got, val, qf=QF_DEFAULT):
    xmap = {}
    skip = 1 if "TTX_PAGE" in b[0]["act"]["m"] else 0          # answer to the initial T
    if len(got) < len(b) + skip:
        return (len(got), "diverge:crash", "driver stopped")
    got = got[skip:]                 # got[0]: the state after the registration of h1 (and the sentinel page), got[n]: after step n
    for n, st in enumerate(b):
        e = expect(st, val, qf)
        g = got[n]
        act = st["act"]
        name = act.get("c", act["a"])
        if not matches(e, g["evs"], xmap):
            et = [x["t"] for x in e]; gt = [x["t"] for x in g["evs"]]
            eh = [x["h"] for x in e]; gh = [x["h"] for x in g["evs"]]
            kind = "events" if et != gt else "handlers" if eh != gh else "payload"
            return (n, "diverge:%s:%s:%s" % (name, kind, "+".join(gt) or "none"),
                    "spec predicts %s, real decoder raised %s" % (e, g["evs"]))
        if bool(g["cached"]) != st["cache"]:
            return (n, "diverge:%s:cache" % name,
                    "spec: sentinel page %s, real: cached=%s" % ("kept" if st["cache"] else "dropped", g["cached"]))
    return None


def interesting(b):
    """does the behaviour exercise the property: an announcement, a suppressed one or a registration between receptions"""
    return any(st["evs"] or st["raised"] for st in b) or any(st["act"]["a"] in ("Register", "Unregister", "Gap") for st in b)


def run_set(ctx, drv, behs, label, val):
    behs = sorted(behs, key=lambda b: json.dumps([st["act"] for st in b], sort_keys=True))
    qfs = q_fields(behs)
    scripts = [script_of(b, val, qf) for b, qf in zip(behs, qfs)]
    chunks = [list(range(k, len(behs), WORKERS)) for k in range(WORKERS)]

    def job(idx):
        return (idx, core.run_seq_driver([drv], [scripts[i] for i in idx], env=build.san_env())) if idx else (idx, [])
    for idx, res in core.pmap(job, chunks, workers=WORKERS):
        for j, i in enumerate(idx):
            r, b = res[j], behs[i]
            if r.get("skipped"):
                continue
            rp = dict(script=scripts[i], beh=b, seed=ctx.seed, qf=qfs[i])
            ctx.count_case(scripts[i], nontrivial=interesting(b))
            if r["stderr"]:
                core.report_sanitizers(ctx, r["stderr"], replay=rp, in_scope=False)
            bad = compare(b, r["lines"], val, qfs[i])
            if bad is None:
                ctx.validated()
            else:
                n, key, why = bad
                ctx.violate("replay", key, "step %d of %s: %s" % (n, [st["act"] for st in b], why), rp)
    if behs:
        m = len(behs) // 2
        ctx.sample(dict(source=label, script=scripts[m], expected=[dict(evs=st["evs"], cache=st["cache"]) for st in behs[m]]))


# (the generator runs are model checking runs too: the same invariants and action properties are checked there)
MC_CFG = dict(quick=["MC_Announce_h", "MC_Announce_xds"],
              thorough=["MC_Announce_t", "MC_Announce_ht", "MC_Announce_wt", "MC_Announce_xds", "MC_Announce_gt"])
GEN_CFG = dict(quick=["Gen_Announce_q", "Gen_Announce_h", "Gen_Announce_h1", "Gen_Announce_w", "Gen_Announce_xds", "Gen_Announce_g"],
               thorough=["Gen_Announce_t", "Gen_Announce_ht", "Gen_Announce_h1", "Gen_Announce_wt", "Gen_Announce_xdst", "Gen_Announce_gt",
                         "Gen_Announce_gw"])


def run(ctx):
    val = Values(ctx.seed)
    ctx.cov["rule"] = ("cases = behaviours (receptions and registrations) generated from the Announce model, one into every distinct model state "
                       "at the reception bound, replayed on the real decoder; distinct by driver script; non-trivial = an event is raised, a "
                       "handler is registered / unregistered in mid-stream or the time stamps jump")
    ctx.assumptions += ["the station table (src/network-table.h) is trusted", "timestamps advance by one frame per reception except at the modelled jumps (Gap: +1 s)",
                        "the VPS and packet 8/30 encoders (C12) are trusted as transmitter"]
    drv = build.build_driver("drv_announce")

    # two TLC runs at a time with 4 workers each (<= 8 workers)
    def tlc_job(job):
        kind, cfg = job
        if kind == "mc":
            return tlc.run("Announce", cfg, timeout=1700, workers=WORKERS // 2, coverage=(ctx.tier != "quick"), heap="6g")
        return tlc.run("Gen_Announce", cfg, timeout=1700, workers=WORKERS // 2, collect_tr=True, heap="6g")
    jobs = [("mc", c) for c in MC_CFG[ctx.tier]] + [("gen", c) for c in GEN_CFG[ctx.tier]]
    sets = []
    for (kind, cfg), r in zip(jobs, core.pmap(tlc_job, jobs, workers=2)):
        if kind == "mc":
            ctx.add_mc(r, cfg)
            if r.violation:
                ctx.violate("mc", "mc:%s:%s" % (r.violation["kind"], r.violation["name"]), r.violation["text"][:3000])
        else:
            if r.violation:          # the generator runs check the property too
                ctx.violate("mc", "mc:%s:%s" % (r.violation["kind"], r.violation["name"]), r.violation["text"][:3000])
                continue
            if not r.tr:
                raise tlc.ToolFailure("GEN run %s produced no behaviour" % cfg)
            ctx.add_mc(r, "GEN " + cfg)
            sets.append((cfg, r.tr))
    for cfg, tr in sets:
        run_set(ctx, drv, tr, cfg, val)
    ctx.cov["exhaustive"] = True


def replay(ctx, rp):
    drv = build.build_driver("drv_announce")
    r = rp["replay"]
    val = Values(r.get("seed", ctx.seed))
    res = core.run_seq_driver([drv], [r["script"]], env=build.san_env())[0]
    for l, g in zip(r["script"], res["lines"]):
        print(l, "->", g)
    bad = compare(r["beh"], res["lines"], val, r.get("qf", QF_DEFAULT))
    if bad:
        ctx.violate("replay", bad[1], bad[2], r)


def selftest(ctx):
    """a corrupted expectation must be rejected: one field of one generated behaviour is changed"""
    val = Values(ctx.seed)
    drv = build.build_driver("drv_announce")
    g = tlc.run("Gen_Announce", "Gen_Announce_xds", timeout=600, workers=WORKERS, collect_tr=True, heap="4g")
    b = next(x for x in g.tr if any(st["evs"] for st in x))
    res = core.run_seq_driver([drv], [script_of(b, val)], env=build.san_env())[0]
    if compare(b, res["lines"], val) is not None:
        print("selftest: the unchanged behaviour is rejected"); return 1
    bad = json.loads(json.dumps(b))
    st = next(s for s in bad if s["evs"])
    st["evs"][0]["t"] = "NETWORK_ID" if st["evs"][0]["t"] == "NETWORK" else "NETWORK"
    if compare(bad, res["lines"], val) is None:
        print("selftest: corrupted expectation accepted"); return 1
    bad = json.loads(json.dumps(b))
    bad[-1]["cache"] = not bad[-1]["cache"]
    if compare(bad, res["lines"], val) is None:
        print("selftest: corrupted cache expectation accepted"); return 1
    print("selftest: corrupted expectations rejected")
    return 0
