"""C13 - station, programme, time and aspect announcements are faithful and debounced.
spec/Announce.tla: the network record as coded (one value per carrier, ONE shared repeat state, network id, reset on a
  station change), WSS repeat counter; the property as separate invariants / action properties.
MC:  Faithful, OnlyAfterRepeat, NetworkMeansChange, OneNetworkEvent, CacheKept, CacheDropped, WssOnlyAfterRepeats over all
     interleavings of VPS / 8-30-1 / 8-30-2 / WSS receptions of known, other-known and unlisted stations; XDS name separately.
GEN: all reception sequences ending in a distinct model state (+ all generated paths into them).
REPLAY: harness/drv_announce.c feeds real lines through vbi_decode; events (type, network id, CNIs, PIL, time, aspect) and the
     cached sentinel page compared after every reception."""
import json, os, random
from vlib import tlc, build, core

MANIFEST = dict(
    level="model_checking",
    engine="tlc-mc+replay",
    technique="TLA+ spec Announce (network record with the shared repeat state as coded + the property as invariants/action properties) "
              "checked exhaustively by TLC; every generated reception sequence replayed through vbi_decode with real VPS, packet 8/30 format 1/2, "
              "XDS and WSS lines and compared event by event, incl. the cached sentinel page",
    text="TLC explores all interleavings of up to 9 receptions on VPS, packet 8/30 format 1 and 2 and WSS (stations: two listed, one unlisted; "
         "WSS words: two valid, one with bad parity), and of XDS network names separately, and checks that event payloads equal the transmitted "
         "values, an identifier is announced only on a reception repeating the previous one of its carrier, a NETWORK event implies a changed "
         "station and occurs at most once per reception, the cache is dropped exactly when the identified station changes, and WSS is announced "
         "only with valid parity after >= 3 identical repeats and not again while unchanged. All generated sequences are replayed on the real "
         "decoder: event types, order, network id, CNI fields, PIL/flags, local time and offset, aspect payload and the sentinel page.",
    note="Bounded: <= 7 receptions in replay, <= 9 in MC; 3 station values per carrier; XDS (NTSC) is checked on its own because the network name "
         "field is shared with the station table name of the PAL carriers. The station table itself is trusted (two listed Austrian stations).",
)

CODE = dict(vps=dict(a=0xAC1, b=0xAC2, u=0x123), p1=dict(a=0x4301, b=0x4302, u=0x1234), p2=dict(a=0x1AC1, b=0x1AC2, u=0x5123),
            xds=dict(a="NETA", b="NETB", u="UVW"))
CALL = {"a": "WAAA", "b": "KBBB", "0": ""}
NUID = {"A": 193, "B": 194, "0": 0}
PIL = dict(a=0x12345, b=0x2468A, u=0x3F0F0)          # any 20-bit label
TIME = dict(a=(0x45000, 0x123456, 2), b=(0x51603, 0x213243, -7), u=(0x53735, 0x235959, 0))
WSS = dict(x=(0x08, 0x00), y=(0x07, 0x06), bad=(0x0F, 0x00))
ASPECT = dict(x=dict(first=23, last=310, ratio1000=1000, film=0, subt=0), y=dict(first=23, last=310, ratio1000=750, film=0, subt=3))


def bcd(x, n):
    return sum(((x >> (4 * i)) & 15) * 10 ** i for i in range(n))


def line_of(act):
    if act["a"] == "Refill":
        return "T"
    if act["a"] == "Call":
        return "L %s" % CALL[act["v"]]
    if act["a"] == "Wss":
        return "W %02x %02x" % WSS[act["w"]]
    c, v = act["c"], act["v"]
    if c == "vps":
        return "V %x %x" % (CODE[c][v], PIL[v])
    if c == "p1":
        m, u, l = TIME[v]
        return "1 %x %x %x %d" % (CODE[c][v], m, u, l)
    if c == "p2":
        return "2 %x %x" % (CODE[c][v], PIL[v])
    return "N %s" % CODE[c][v]


def expect(st, xmap):
    """model events -> the fields the driver prints"""
    out = []
    for e in st["evs"]:
        t, c, v = e["t"], e["c"], e["v"]
        if t in ("NETWORK", "NETWORK_ID"):
            o = dict(t=t)
            if c == "xds":
                o["nuid_sym"] = e["nuid"]
                o["name"] = CODE[c][v]
                o["call"] = CALL[e.get("call", "0")]
            else:
                o["nuid"] = NUID[e["nuid"]]
                o[{"vps": "cni_vps", "p1": "cni_8301", "p2": "cni_8302"}[c]] = CODE[c][v]
            out.append(o)
        elif t == "PROG_ID":
            if c == "vps":
                out.append(dict(t=t, cni=CODE[c][v], pil=PIL[v], ch=4, pcs=2, pty=0x42))
            else:
                out.append(dict(t=t, cni=CODE[c][v], pil=PIL[v], ch=1, luf=0, mi=1, prf=1, pcs=2, pty=0x42))
        elif t == "LOCAL_TIME":
            m, u, l = TIME[v]
            secs = bcd(u >> 16, 2) * 3600 + bcd((u >> 8) & 0xFF, 2) * 60 + bcd(u & 0xFF, 2)
            out.append(dict(t=t, time=(bcd(m, 5) - 40587) * 86400 + secs, east=l * 1800))
        elif t == "ASPECT":
            o = dict(t=t); o.update(ASPECT[v]); out.append(o)
    return out


def matches(exp, got, xmap):
    if len(exp) != len(got):
        return False
    for e, g in zip(exp, got):
        for k, val in e.items():
            if k == "nuid_sym":
                n = g.get("nuid")
                if n == 0 or not (n & (1 << 30)):
                    return False
                if xmap.setdefault(val, n) != n or sum(1 for x in xmap.values() if x == n) != 1:
                    return False
            elif g.get(k) != val:
                return False
    return True


def run_set(ctx, drv, behs, label):
    scripts = [["T"] + [line_of(st["act"]) for st in b] for b in behs]
    chunks = [list(range(k, len(behs), 16)) for k in range(16)]

    def job(idx):
        return (idx, core.run_seq_driver([drv], [scripts[i] for i in idx], env=build.san_env())) if idx else (idx, [])
    for idx, res in core.pmap(job, chunks):
        for j, i in enumerate(idx):
            r, b = res[j], behs[i]
            if r.get("skipped"):
                continue
            rp = dict(script=scripts[i], beh=b)
            ctx.count_case(scripts[i], nontrivial=any(st["evs"] for st in b))
            if r["stderr"]:
                core.report_sanitizers(ctx, r["stderr"], replay=rp, in_scope=False)
            bad = compare(b, r["lines"])
            if bad is None:
                ctx.validated()
            else:
                n, key, why = bad
                ctx.violate("replay", key, "reception %d of %s: %s" % (n + 1, [st["act"] for st in b], why), rp)
    if behs:
        m = len(behs) // 2
        ctx.sample(dict(source=label, script=scripts[m], expected=[dict(evs=st["evs"], cache=st["cache"]) for st in behs[m]]))


def compare(b, got):
    xmap = {}
    got = got[1:]          # answer to the initial T
    if len(got) < len(b):
        return (len(got), "diverge:crash", "driver stopped")
    for n, st in enumerate(b):
        e = expect(st, xmap)
        g = got[n]
        if not matches(e, g["evs"], xmap):
            act = st["act"]
            et = [x["t"] for x in e]; gt = [x["t"] for x in g["evs"]]
            kind = "events" if et != gt else "payload"
            return (n, "diverge:%s:%s:%s" % (act.get("c", act["a"]), kind, "+".join(gt) or "none"),
                    "spec predicts %s, real decoder raised %s" % (e, g["evs"]))
        if bool(g["cached"]) != st["cache"]:
            return (n, "diverge:%s:cache" % st["act"].get("c", st["act"]["a"]),
                    "spec: sentinel page %s, real: cached=%s" % ("kept" if st["cache"] else "dropped", g["cached"]))
    return None


def run(ctx):
    quick = ctx.tier == "quick"
    ctx.cov["rule"] = ("cases = reception sequences generated from the Announce model, replayed on the real decoder; distinct by driver script; "
                       "non-trivial = at least one event is predicted")
    ctx.assumptions += ["the station table (src/network-table.h) is trusted", "timestamps advance by one frame per reception (no frame dropping)"]
    drv = build.build_driver("drv_announce")
    for cfg in (["MC_Announce_q", "MC_Announce_xds"] if quick else ["MC_Announce_t", "MC_Announce_xds"]):
        r = tlc.run("Announce", cfg, timeout=1500, coverage=not quick, heap="12g")
        ctx.add_mc(r, cfg)
        if r.violation:
            ctx.violate("mc", "mc:%s:%s" % (r.violation["kind"], r.violation["name"]), r.violation["text"][:3000])
    for cfg in (["Gen_Announce_q", "Gen_Announce_xds"] if quick else ["Gen_Announce_q", "Gen_Announce_xds", "Gen_Announce_t"]):
        g = tlc.run("Gen_Announce", cfg, timeout=1500, collect_tr=True, heap="12g")
        if g.violation:
            raise tlc.ToolFailure("GEN run reported " + str(g.violation))
        ctx.add_mc(g, "GEN " + cfg)
        run_set(ctx, drv, g.tr, cfg)
    ctx.cov["exhaustive"] = True


def replay(ctx, rp):
    drv = build.build_driver("drv_announce")
    r = rp["replay"]
    res = core.run_seq_driver([drv], [r["script"]], env=build.san_env())[0]
    for l, g in zip(r["script"], res["lines"]):
        print(l, "->", g)
    bad = compare(r["beh"], res["lines"])
    if bad:
        ctx.violate("replay", bad[1], bad[2], r)
