"""C03 - transmission errors in Teletext are corrected or contained, never shown as data.
spec/TtxFaults.tla (+ spec/TtxX26.tla): reception of pages with a fault on every received packet: uncorrectable header page
  number (all pages in progress abandoned), subcode S1/S2, S3/S4, control bits (terminates, opens nothing), or wrong parity in
  header TEXT bytes (the header acts like the intact one, no stored page is dropped, no channel switch is inferred; the header row
  shows the transmitted character or a blank there); text row with an
  uncorrectable address (nothing) or wrong parity in k = 1, 2, 3, 40 bytes, adjacent or scattered (row keeps the stored content or
  stays blank), or in exactly the byte of one column that a column triplet of the page's X/26 packet addresses (forgiven only where
  the triplet's mode supplies the character of the position: TtxX26!CharModes; colour, flash, character set designation, display
  attribute, font style, PDC and reserved modes excuse nothing), on first reception and on retransmission with and without erase;
  packets X/26 in the sub-language of TtxX26 (row address / column triplets of every mode / termination) with an uncorrectable
  triplet at every position (this and all following triplets are dropped, nothing is misplaced), uncorrectable address /
  designation of X/26 and X/27 (nothing); X/27/0 over stored FLOF links with an uncorrectable link control byte (nothing: the
  stored links stay) or link (that link keeps its value or is no link); magazines 1..8 (8 = address 0), four-digit (clock) subcodes.
  Single bit errors in Hamming protected bytes are the error-free behaviour by definition.
MC:  all interleavings of two magazines with <= 2 damaged packets; invariants OnlyTransmitted, EnhNotMisplaced, LinksContained,
  action properties ParityErrorContained, DamagedLinkKept, AddressFaultNothing, ...
GEN -> REPLAY: exhaustive scenario models (one behaviour per final state and fault) and random long transmissions (tlc -simulate)
  with the damage placed on concrete bits; at every termination point the fetched Level 1 / 1.5 page is compared cell by cell with
  the spec (rows from TtxFormatL1, enhancement characters from TtxX26!Lands) and the navigation links of the fetched page with the
  spec's links; at the end the cache must hold exactly the versions the spec holds, with their content.
TWIN: every single bit of every Hamming 8/4 byte and 24/18 triplet of base transmissions (header, rows, X/26, X/27, X/28, 8/30)
  flipped: events, fetched pages (Level 1, 1.5, 2.5), links, cache content must equal the error-free run; two bit errors in the
  address or designation byte of a non-header packet or the link control byte of X/27/0: must equal the run without that packet;
  one bit error in a header text byte (columns 8..39) of transmissions with several rolling header pages: events incl. NETWORK, cache
  content, links and every other page must equal the error-free run."""
import json, os, random, shutil, zlib
from vlib import tlc, core, ttx
from vlib import build as vbuild
from checks import c02

MANIFEST = dict(
    level="model_checking",
    engine="tlc-mc+replay",
    technique="TLA+ specs TtxFaults (page reception with a fault model on every packet, magazines 1..8, clock subcodes, FLOF links) and "
              "TtxX26 (X/26 enhancement sub-language: which column triplet modes supply a character, lost triplets) checked exhaustively by "
              "TLC (OnlyTransmitted, EnhNotMisplaced, AddressFaultNothing, HeaderFaultOnlyAbandons, BadRowContained, ParityErrorContained, "
              "DamagedLinkKept, HeaderTextContained); generated damaged transmissions (exhaustive scenario models + random walks) replayed with the damage on "
              "concrete bits, fetched Level 1/1.5 pages and navigation links compared with the specification at every termination point, "
              "final cache compared with the specification's; every single bit of every Hamming protected unit flipped and compared with "
              "the error-free twin",
    text="TLC explores all interleavings of two magazines (incl. magazine 8) with up to two damaged packets: uncorrectable header page number, "
         "subcode (S1/S2, S3/S4) or control bits, header text bytes with wrong parity, rows with an uncorrectable address or parity errors in 1, 2, 3 or 40 bytes or in exactly "
         "the column an X/26 triplet addresses, X/26 packets with an uncorrectable triplet at any of the 13 positions, uncorrectable "
         "designation bytes, X/27/0 packets with an uncorrectable link control byte or link; the stored pages are checked against the "
         "reference (only transmitted page/subpage numbers are stored, a damaged row or packet changes nothing, a damaged header only "
         "abandons, enhancement characters are dropped, never misplaced, a parity error is forgiven only where a triplet supplies the "
         "character, a damaged link shows no other page). On the real decoder: (1) generated damaged transmissions - every fault "
         "descriptor on first reception and on retransmission over a cached copy with and without erase, in both magazine kinds; pages "
         "with X/26 triplets of every column address mode (colours, mosaics, G0/G2/G3, flash, character set designation, display "
         "attributes, DRCS, font style, PDC, reserved, diacritical marks) and a row with a parity error exactly in the addressed column; "
         "a page cached with FLOF links retransmitted with different links and two bit errors in the designation, the link control byte "
         "or each link; rolling header pages (<= 0x199 and serial mode) with a parity error in one or two header text bytes (page "
         "number, text, clock columns) on first reception and on retransmission while two and more other pages are stored - with the "
         "damage realised on seeded concrete bits; at every termination point the exact fetch at Level 1 and 1.5 "
         "is compared cell by cell with the specification (enhancement characters where TtxX26 says they land; header row columns "
         "8..39: the transmitted character, or a blank where the byte had a parity error), the navigation links "
         "of a fetch with navigation are compared with the specification's links, page events are counted, and at the end the cache "
         "must contain exactly the specification's versions with the specification's content; (2) for base transmissions incl. X/26, "
         "X/27 (also over stored links), X/28/0 and 8/30 packets every single bit of every Hamming 8/4 byte and 24/18 triplet flipped "
         "(events incl. network events, Level 1, 1.5, 2.5 fetches, links, cache content must equal the error-free run) and two bit errors "
         "in the address or designation byte of non-header packets and the link control byte (must equal the run without the packet); "
         "one bit error in every header text byte of transmissions with several rolling header pages and an identified network (events "
         "incl. NETWORK, cache content, all other pages must equal the error-free run).",
    note="Bounded: <= 7 packets per exhaustive scenario, 16 per random walk, <= 3 damaged packets per behaviour. A header whose "
         "magazine/packet address is uncorrectable is not covered (no decoder can recognise it as a header; the rows that follow are filed "
         "under the previous page). A page retransmitted without erase repeats the enhancement data of its stored version. Where the "
         "statement leaves the outcome open the specification holds the set of allowed outcomes: a parity error at a position whose "
         "character the enhancement data supply (row as transmitted or earlier content), the links next to an uncorrectable link (new "
         "or earlier). Uncorrectable triplets of X/28 and 8/30 data bytes are compared for single bit errors only. Diacritical marks 9 "
         "and 12 (no composed letters in libzvbi's repertoire) are not transmitted. Subcodes used are ones the cache stores verbatim. "
         "A header text byte with an even number of bit errors (valid parity, another character) is undetectable and not transmitted "
         "(libzvbi takes it for a channel switch when the page is a rolling header page of the reference header's magazine).",
)

FAULT_ACTS = ("Header", "Filler", "Row", "X26", "Flof")
HDR_BYTES = {"page": (2, 3), "s12": (4, 5), "s34": (6, 7), "ctrl": (8, 9)}
HDR_PAGES = (0x100, 0x101, 0x102, 0x800, 0x801)      # page numbers of the models: their header rows are evaluated by TLC (TtxFormatL1)


def hdr_ok(f):
    """address and control bytes of the header are intact (TtxFaults!HdrOk): it terminates and opens like the error-free one"""
    return f["f"] in ("ok", "htxt")


def header_codes(pg):
    """the 40 codes of the header row as transmitted (columns 0..7 are the decoder's: blank here)"""
    return [0x20] * 8 + [b & 0x7F for b in ttx.header(pg)[10:42]]


# ------------------------------------------------------------------------------------------------ row library (TtxFormatL1 by TLC)
def setup(ctx):
    """row library of C02 plus an all-blank row (the last one); TLC evaluates the Level 1 presentation; -> lib, tab (flags), raw (cells)"""
    lib, tab, raw = c02.eval_rowlib(ctx, c02.make_rowlib(random.Random(ctx.seed), 40),
                                    extra=[header_codes(pg) for pg in HDR_PAGES] + [[0x20] * 40])
    # the header rows are no row contents: take them out of the library again (the blank row stays the last one)
    n, nh = len(lib), len(HDR_PAGES)
    assert [lib[n - 1 - nh + i] for i in range(nh)] == [header_codes(pg) for pg in HDR_PAGES] and lib[n - 1] == [0x20] * 40
    hdr = {(pg, nat): raw[(n - nh + i, nat)] for i, pg in enumerate(HDR_PAGES) for nat in (0, 1)}
    for nat in (0, 1):
        tab[(n - nh, nat)], raw[(n - nh, nat)] = tab[(n, nat)], raw[(n, nat)]
        for k in range(n - nh + 1, n + 1):
            del tab[(k, nat)], raw[(k, nat)]
    lib = lib[:n - 1 - nh] + [lib[n - 1]]
    raw["hdr"] = hdr
    return lib, tab, raw


def enc(cell):
    """the driver's compact cell format (brief = 3) of a canonical cell"""
    u, fg, bg, fl, cn, sz = c02.canon(cell)
    return "%04x%02x%02x%x%x%x" % (u, fg, bg, fl, cn, sz)


def dec(s, c):
    t = s[11 * c:11 * c + 11]
    return [int(t[0:4], 16), int(t[4:6], 16), int(t[6:8], 16), int(t[8], 16), int(t[9], 16), int(t[10], 16)]


def grid_strings(v, cmap, raw, blank_k, enhanced):
    """displayed rows 1..24 of a stored version as the driver prints them: per row the list of ALLOWED row strings (one, except where
    the spec leaves the outcome open: v["rows"][r] is the set of allowed contents); enhanced: with the characters the spec says MUST be
    shown (v["must"]); every allowed row comes with {column: cell string} for the characters that MAY be shown in addition (v["shown"])"""
    rows, prev = [], None
    for r in range(1, 25):
        cids = v["rows"][r - 1]
        if prev is not None:
            rows.append([[list(c) for c in raw[prev]["lower"]]]); prev = None
            continue
        keys = [(cmap[cid], v["nat"]) if cid else (blank_k, v["nat"]) for cid in cids]
        rows.append([[list(c) for c in raw[key]["cells"]] for key in keys])
        if len(keys) == 1:
            if raw[keys[0]]["dh"] and r < 24:
                prev = keys[0]
        else:
            assert not any(raw[k]["sized"] for k in keys), "alternatives only among rows of normal size"
    may = [[{} for alt in row] for row in rows]          # per row and alternative: column -> cell string that MAY be shown instead
    if enhanced:
        must = {(r, c) for (r, c, u) in v["must"]}
        for (r, c, u) in v["shown"]:
            if 1 <= r <= 24:
                for k, alt in enumerate(rows[r - 1]):
                    if (r, c) in must:
                        alt[c][0] = u
                    else:
                        cell = list(alt[c]); cell[0] = u
                        may[r - 1][k][c] = enc(cell)
    return [[("".join(enc(c) for c in alt), may[r][k]) for k, alt in enumerate(row)] for r, row in enumerate(rows)]


def header_row(v, raw):
    """header row of a stored version, columns 8..39 (0..7 are the decoder's page number): per column the allowed cell strings - the
    transmitted character (presentation by TtxFormatL1), at the columns received with a parity error (v["hbad"]) also a blank"""
    cells = raw["hdr"][(v["pg"], v["nat"])]["cells"]
    out = {}
    for c in range(8, 40):
        out[c] = {enc(cells[c])}
        if c in v["hbad"]:
            cell = list(cells[c]); cell[0] = 0x20
            out[c].add(enc(cell))
    return out


def row_matches(alt, gr):
    """-> None or the first differing column"""
    er, may = alt
    if er == gr[:440]:
        return None
    for c in range(40):
        if er[11 * c:11 * c + 11] != gr[11 * c:11 * c + 11] and may.get(c) != gr[11 * c:11 * c + 11]:
            return c
    return None


# ------------------------------------------------------------------------------------------------ packets and damage
def x26_packet(mag, trips):
    pk = ttx.mrag(mag, 26) + [ttx.ham8(0)]
    for t in trips:
        pk += ttx.ham24(t["a"] | (t["m"] << 6) | (t["d"] << 11))
    assert len(pk) == 42
    return pk


def flip2(rnd, pk, byte_choices, nbits=8):
    b = rnd.choice(list(byte_choices))
    for bit in rnd.sample(range(nbits), 2):
        pk[b + bit // 8] ^= 1 << (bit % 8)


def damage(rnd, pk, act, override_cols):
    """two bit errors in the unit the fault descriptor names / parity errors; plus now and then one (corrected) bit error elsewhere"""
    f = act["flt"]
    kind = f["f"]
    pk = list(pk)
    a = act["a"]
    if kind == "ok":
        return pk
    if kind == "htxt":
        # wrong parity (1 or 3 bit errors) in the header text bytes of the named columns
        for c in f["cols"]:
            for bit in rnd.sample(range(8), 3 if rnd.random() < 0.2 else 1):
                pk[2 + c] ^= 1 << bit
    elif a in ("Header", "Filler"):
        flip2(rnd, pk, HDR_BYTES[kind])
        if rnd.random() < 0.3:          # a burst: one more (correctable) error in another protected byte
            other = [b for b in range(0, 10) if b not in HDR_BYTES[kind]]
            pk[rnd.choice(other)] ^= 1 << rnd.randrange(8)
    elif kind == "mrag":
        flip2(rnd, pk, (0, 1))
    elif kind == "desig":
        flip2(rnd, pk, (2,))
    elif kind == "lcb":                         # X/27/0 link control byte
        flip2(rnd, pk, (39,))
    elif kind == "link":                        # one of the six Hamming bytes of link k
        flip2(rnd, pk, range(3 + 6 * (f["k"] - 1), 9 + 6 * (f["k"] - 1)))
        if rnd.random() < 0.3:                  # plus one corrected error in another link
            k2 = rnd.choice([k for k in range(1, 7) if k != f["k"]])
            pk[3 + 6 * (k2 - 1) + rnd.randrange(6)] ^= 1 << rnd.randrange(8)
    elif kind == "parc":
        # a parity error in exactly this byte; where the enhancement data supply the character the fall-back character is sent
        # with even parity (EN 300 706 table 25): only the parity bit is wrong
        c = f["col"]
        if override_cols == "parity-bit":
            pk[2 + c] ^= 0x80
        else:
            for bit in rnd.sample(range(8), 3 if rnd.random() < 0.25 else 1):
                pk[2 + c] ^= 1 << bit
    elif kind == "trip":
        flip2(rnd, pk, (3 + 3 * (f["j"] - 1),), nbits=24)
        if rnd.random() < 0.3 and f["j"] > 1:      # one corrected error in an earlier triplet
            j2 = rnd.randrange(1, f["j"])
            bit = rnd.randrange(24)
            pk[3 + 3 * (j2 - 1) + bit // 8] ^= 1 << (bit % 8)
    elif kind == "par":
        k = f["k"]
        free = [c for c in range(40) if c not in override_cols]
        if k >= 40:
            cols = list(range(40))
        elif f["adj"]:
            starts = [c for c in range(0, 41 - k) if all((c + i) in free for i in range(k))]
            edge = [c for c in starts if c in (0, 40 - k)]
            c0 = rnd.choice(edge) if edge and rnd.random() < 0.3 else rnd.choice(starts)     # first / last bytes of the row more often
            cols = list(range(c0, c0 + k))
        else:
            cols = rnd.sample(free, k)
            edge = [c for c in (0, 39) if c in free and c not in cols]
            if edge and rnd.random() < 0.3:
                cols[0] = rnd.choice(edge)
        if f["adj"] and k == 2 and rnd.random() < 0.5:
            # a two bit burst over the byte boundary: last transmitted bit of one byte, first of the next
            pk[2 + cols[0]] ^= 0x80
            pk[2 + cols[1]] ^= 0x01
        else:
            for c in cols:
                for bit in rnd.sample(range(8), 3 if rnd.random() < 0.15 else 1):
                    pk[2 + c] ^= 1 << bit
    else:
        raise ValueError(kind)
    return pk


def beh_rnd(seed, beh):
    return random.Random(zlib.crc32(json.dumps(beh["steps"], sort_keys=True).encode()) ^ (seed * 7919))


def intended_packet(a, serial, lib, cmap):
    ctrl0 = ttx.C11_SERIAL if serial else 0
    if a["a"] == "Header":
        return ttx.header(a["pg"], a["sub"], ctrl0 | (ttx.C4_ERASE if a["erase"] else 0), national=a["nat"])
    if a["a"] == "Filler":
        return ttx.header(((a["m"] & 7) << 8) | 0xFF, 0x3F7F, ctrl0)
    if a["a"] == "Row":
        return ttx.row(a["m"], a["r"], lib[cmap[a["c"]] - 1])
    if a["a"] == "X26":
        return x26_packet(a["m"], a["trips"])
    return c02.flof_packet(a["m"], a["l"])


def content_map(rnd, beh, lib, tab):
    steps = beh["steps"]
    ndh = [k + 1 for k in range(len(lib) - 1) if not tab[(k + 1, 0)]["sized"] and not tab[(k + 1, 1)]["sized"]]
    has_x26 = any(st["act"]["a"] == "X26" for st in steps)
    uses24 = {st["act"]["c"] for st in steps if st["act"]["a"] == "Row" and st["act"]["r"] >= 23}
    cmap = {}
    for cid in (1, 2, 3):
        cmap[cid] = rnd.choice(ndh) if (has_x26 or cid in uses24 or rnd.random() < 0.6) else rnd.randrange(1, len(lib))
    if cmap[2] == cmap[1]:
        cmap[2] = next(k for k in ndh if k != cmap[1])
    return cmap


def compile_beh(seed, beh, lib, tab, raw):
    """-> (script lines, checks); checks: (kind, line index, expectation)"""
    rnd = beh_rnd(seed, beh)
    serial = beh["mode"] == "serial"
    steps = beh["steps"]
    blank_k = len(lib)
    cmap = content_map(rnd, beh, lib, tab)
    override = {}                     # row -> columns addressed by enhancement characters of any packet of this behaviour
    for st in steps:
        if st["act"]["a"] == "X26":
            row = 0
            for t in st["act"]["trips"]:
                if t["a"] >= 40:
                    if t["m"] in (1, 4):
                        row = 24 if t["a"] == 40 else t["a"] - 40
                else:
                    override.setdefault(row, set()).add(t["a"])
    has_x26 = bool(override)
    # positions whose character the enhancement data of a packet of this behaviour supply (computed by TLC: Out.ovr)
    supplied = {(r, c) for st in steps if st["act"]["a"] == "X26" for (r, c) in beh["ovr"][st["act"]["e"] - 1]}
    lines, checks = ["V"], []          # V: network / channel switch events are reported too (there must be none)
    pkidx = 0
    opened = {}                       # magazine -> (pg, sub, packet index of its header)
    intact = set()                    # keys of intact headers so far
    pending = set()                   # keys whose latest transmission the spec has not terminated (yet, or never: abandoned)
    for st in steps:
        a = st["act"]
        if a["a"] == "Row" and a["flt"]["f"] == "parc":
            ocols = "parity-bit" if (a["r"], a["flt"]["col"]) in supplied else ()
        else:
            ocols = override.get(a.get("r"), ()) if a["a"] == "Row" else ()
        pk = damage(rnd, intended_packet(a, serial, lib, cmap), a, ocols)
        lines.append("P " + ttx.hexpk(pk)); pkidx += 1
        for v in st["term"]:
            pending.discard((v["pg"], v["sub"]))
        if a["a"] == "Header" and hdr_ok(a["flt"]):
            intact.add((a["pg"], a["sub"]))
            pending.add((a["pg"], a["sub"]))
        checks.append(("ev", len(lines) - 1, set(intact)))
        for v in st["term"]:
            hdr = opened.get(v["pg"] >> 8)
            exp = dict(pg=v["pg"], sub=v["sub"], hdr=hdr[2] if hdr else None, at=pkidx)
            levels = (15, 1) if (has_x26 or v["n"]) else (15,)
            for lvl in levels:
                lines.append("F %x %x %d 3" % (v["pg"], v["sub"], lvl))
                grid = grid_strings(v, cmap, raw, blank_k, lvl == 15)
                checks.append(("page", len(lines) - 1, dict(exp, lvl=lvl, grid=grid, hrow=header_row(v, raw), count_ev=(lvl == 15))))
            lines.append("F %x 3f7f 1 1" % v["pg"])
            checks.append(("wild", len(lines) - 1, exp))
            lines.append("C %x %x" % (v["pg"], v["sub"]))
            checks.append(("cached", len(lines) - 1, None))
            lines.append("N %x %x" % (v["pg"], v["sub"]))
            checks.append(("nav", len(lines) - 1, dict(pg=v["pg"], sub=v["sub"], links=v["links"], row24=v["rows"][23] != [0])))
        m = (a["pg"] >> 8) if a["a"] == "Header" else a["m"]
        if a["a"] in ("Header", "Filler"):
            if a["flt"]["f"] == "page":
                opened.clear()
            elif a["a"] == "Header" and hdr_ok(a["flt"]):
                opened[m] = (a["pg"], a["sub"], pkidx)
            else:
                opened.pop(m, None)
    # final audit: the cache holds exactly the spec's versions (serial mode: the decoder may have stored pages in transmission earlier)
    lines.append("L")
    open_keys = {tuple(k) for k in beh["open"]}
    checks.append(("audit", len(lines) - 1, dict(keys={(v["pg"], v["sub"]) for v in beh["final"]}, serial=serial, intact=set(intact), open=open_keys)))
    for v in sorted(beh["final"], key=lambda v: (v["pg"], v["sub"])):
        if serial and (v["pg"], v["sub"]) in pending:
            continue                  # retransmitted and not terminated by its own magazine (or abandoned): in serial mode the
                                      # decoder may already hold the newer version (it may store earlier, never later)
        lines.append("F %x %x 15 3" % (v["pg"], v["sub"]))
        grid = grid_strings(v, cmap, raw, blank_k, True)
        checks.append(("page", len(lines) - 1, dict(pg=v["pg"], sub=v["sub"], lvl=15, grid=grid, hrow=header_row(v, raw), count_ev=False, final=True)))
        lines.append("N %x %x" % (v["pg"], v["sub"]))
        checks.append(("nav", len(lines) - 1, dict(pg=v["pg"], sub=v["sub"], links=v["links"], row24=v["rows"][23] != [0], final=True)))
    return lines, checks


def compare(lines, checks, got):
    """-> None or (key, detail)"""
    if len(got) < len(lines):
        return ("diverge:crash", "driver stopped after %d of %d commands" % (len(got), len(lines)))
    events, pk = [], 0
    row0 = {}
    for kind, i, e in checks:
        g = got[i]
        if kind == "ev":
            pk += 1
            if g.get("ev2"):
                return ("diverge:events:network", "packet %d raises the events %s: no 8/30 packet was sent, nothing may announce a network "
                        "or a channel switch" % (pk, g["ev2"]))
            for pg, sub in g["ev"]:
                events.append((pk, pg, sub))
                if (pg, sub) not in e:
                    return ("diverge:events:foreign", "packet %d: page event for %x/%x, no intact header with this number was sent; events %s" % (pk, pg, sub, events))
        elif kind == "cached":
            if not g["cached"]:
                return ("diverge:is_cached", "vbi_is_cached is false for a page the spec says is stored (%s)" % lines[i])
        elif kind == "wild":
            if not g["ok"]:
                return ("diverge:fetch:not-cached", "%s: page %x must be stored at this point" % (lines[i], e["pg"]))
            if g["pgno"] != e["pg"] or g["subno"] != e["sub"]:
                return ("diverge:fetch:wrong-version", "%s: spec %x/%x, fetched %x/%x" % (lines[i], e["pg"], e["sub"], g["pgno"], g["subno"]))
        elif kind == "nav":
            bad = compare_nav(e, g, lines[i])
            if bad:
                return bad
        elif kind == "audit":
            stored = {(p, s) for p, s in g["pages"]}
            missing = e["keys"] - stored
            if e["serial"]:
                extra = stored - e["keys"] - e["intact"]
            else:
                extra = stored - e["keys"]
            foreign = stored - e["intact"]
            if foreign:
                return ("diverge:foreign-page", "pages stored under numbers never transmitted: %s (transmitted: %s)"
                        % (["%x/%x" % k for k in sorted(foreign)], ["%x/%x" % k for k in sorted(e["intact"])]))
            if extra:
                return ("diverge:stored-abandoned", "the cache holds %s, the spec's cache only %s: a page that was abandoned (or whose header was "
                        "lost) has been stored" % (["%x/%x" % k for k in sorted(stored)], ["%x/%x" % k for k in sorted(e["keys"])]))
            if missing:
                return ("diverge:lost-page", "the spec's cache holds %s, the decoder's only %s" % (["%x/%x" % k for k in sorted(e["keys"])], ["%x/%x" % k for k in sorted(stored)]))
        else:
            ln = lines[i]
            where = "final " if e.get("final") else ""
            if not g["ok"]:
                return ("diverge:fetch:not-cached", "%s%s: page %x/%x must be stored at this point" % (where, ln, e["pg"], e["sub"]))
            if g["pgno"] != e["pg"] or g["subno"] != e["sub"]:
                return ("diverge:fetch:wrong-version", "%s%s: spec %x/%x, fetched %x/%x" % (where, ln, e["pg"], e["sub"], g["pgno"], g["subno"]))
            for r in range(1, 25):
                alts, gr = e["grid"][r - 1], g["rows"][r]
                diff = [row_matches(alt, gr) for alt in alts]
                if None in diff:
                    continue
                c = diff[0]
                ec, gc = dec(alts[0][0], c), dec(gr, c)
                what = ["char", "foreground", "background", "flash", "conceal", "size"][next(k for k in range(6) if ec[k] != gc[k])]
                return ("diverge:fetch%s:%s" % ("15" if e["lvl"] == 15 else "", what),
                        "%s%s row %d column %d: spec %s%s, fetched %s" % (where, ln, r, c, ec, " (or one of %d other allowed contents of the row)" % (len(alts) - 1) if len(alts) > 1 else "", gc))
            row0.setdefault((i if e.get("final") else e["at"], e["pg"], e["sub"]), {})[e["lvl"]] = g["rows"][0]
            for c in range(8, 40):
                gc = g["rows"][0][11 * c:11 * c + 11]
                if gc not in e["hrow"][c]:
                    ec, gd = dec(sorted(e["hrow"][c])[-1], 0), dec(gc, 0)
                    what = ["char", "foreground", "background", "flash", "conceal", "size"][next(k for k in range(6) if ec[k] != gd[k])]
                    return ("diverge:fetch%s:header-%s" % ("15" if e["lvl"] == 15 else "", what),
                            "%s%s header row column %d: transmitted %s%s, fetched %s" % (where, ln, c, ec,
                            " (received with a parity error: a blank is allowed too)" if len(e["hrow"][c]) > 1 else "", gd))
            if e.get("count_ev"):
                n = sum(1 for (k, pg, sub) in events if pg == e["pg"] and sub == e["sub"] and (e["hdr"] or 0) < k <= e["at"])
                if n != 1:
                    return ("diverge:events:%d" % n, "%s: %d page events for %x/%x between its header (packet %s) and its termination (packet %d); all events: %s"
                            % (ln, n, e["pg"], e["sub"], e["hdr"], e["at"], events))
    for k, d in row0.items():
        if 1 in d and 15 in d and d[1] != d[15]:
            return ("diverge:fetch15:header-row", "page %x/%x: the header row differs between the Level 1 and the Level 1.5 fetch (an enhancement character landed in row 0)" % (k[1], k[2]))
    return None


def compare_nav(e, g, ln):
    """FLOF links of the fetched page (nav_link 0..3: the coloured links, 5: the index link) against the spec: per link the SET of allowed
    link set ids (0 = no link).  With a stored row 24 the decoder sets only the links row 24 has a coloured text for."""
    where = "final " if e.get("final") else ""
    if not g.get("ok"):
        return ("diverge:fetch:not-cached", "%s%s: page %x/%x must be stored at this point" % (where, ln, e["pg"], e["sub"]))
    for k in (0, 1, 2, 3, 5):
        pg, sub = g["nav"][k]
        allowed = e["links"][k]
        ok = False
        for l in allowed:
            want = c02.LINKSETS[l][k] if l else None
            if want is None or c02.no_link(want[0]):
                ok = ok or c02.no_link(pg) or k == 5        # no index link: the decoder offers the initial page instead
            else:
                ok = ok or (pg, sub) == want or (e["row24"] and k < 4 and c02.no_link(pg))
        if not ok:
            return ("diverge:links", "%s%s: link %d is %x/%x; allowed: %s" % (where, ln, k, pg, sub, ", ".join(
                ("%x/%x (link set %d)" % (c02.LINKSETS[l][k] + (l,))) if l else "no link" for l in allowed)))
    return None


def fkey(f):
    if f["f"] == "par":
        return "par%d%s" % (f["k"], "a" if f["adj"] else "")
    if f["f"] == "parc":
        return "parc"
    if f["f"] == "link":
        return "link"
    if f["f"] == "trip":
        return "trip"
    return f["f"]           # incl. "htxt"


def faults_of(beh):
    return [(st["act"]["a"], st["act"]["flt"]) for st in beh["steps"] if st["act"]["flt"]["f"] != "ok"]


def fault_sig(beh):
    return "+".join(sorted({"%s.%s" % (a, fkey(f)) for a, f in faults_of(beh)})) or "none"


def shape(beh):
    """stratum of a behaviour: action kinds, faults (with triplet position), erase flags, magazines - not page numbers / contents"""
    out = []
    parc = any(f["f"] == "parc" for _, f in faults_of(beh))
    for st in beh["steps"]:
        a = st["act"]
        s = a["a"][0] + ("e" if a.get("erase") else "")
        if parc and a["a"] == "X26":
            s += str(a["e"])                # which packet (which triplet modes) the damaged column meets
        if a["a"] == "Flof":
            s += str(a["l"])
        if a["flt"]["f"] != "ok":
            s += ":" + fkey(a["flt"]) + (str(a["flt"]["j"]) if a["flt"]["f"] == "trip" else "") + \
                (str(a["flt"]["col"]) if a["flt"]["f"] == "parc" else "") + (str(a["flt"]["k"]) if a["flt"]["f"] == "link" else "") + \
                ("-".join(str(c) for c in sorted(a["flt"]["cols"])) if a["flt"]["f"] == "htxt" else "")
        m = (a["pg"] >> 8) if a["a"] == "Header" else a["m"]
        out.append(s + ("8" if m == 8 else ""))
    return beh["mode"][0] + " " + " ".join(out)


def stratified(behs, per_shape, cap, seed):
    rnd = random.Random(seed * 101 + 7)
    groups = {}
    for b in behs:
        groups.setdefault(shape(b), []).append(b)
    out = []
    for k in sorted(groups):
        g = groups[k]
        rnd.shuffle(g)
        out.append(g[:per_shape])
    # interleave the strata so that a cap keeps all of them represented as far as possible
    rnd.shuffle(out)
    flat = [b for i in range(per_shape) for g in out if i < len(g) for b in [g[i]]]
    return flat[:cap] if cap else flat


def run_faulty(ctx, drv, behs, lib, tab, raw, label):
    comp = [compile_beh(ctx.seed, b, lib, tab, raw) for b in behs]
    nchunk = 16
    chunks = [list(range(k, len(behs), nchunk)) for k in range(nchunk)]

    def job(idx):
        return (idx, core.run_seq_driver([drv], [comp[i][0] for i in idx], env=vbuild.san_env(), timeout=1500)) if idx else (idx, [])
    nbad = 0
    for idx, res in core.pmap(job, chunks, workers=8):
        for j, i in enumerate(idx):
            r = res[j]
            if r.get("skipped"):
                continue
            lines, checks = comp[i]
            beh = behs[i]
            ctx.count_case(lines, nontrivial=bool(faults_of(beh)))
            rp = dict(kind="faulty", script=lines, beh=beh, seed=ctx.seed)
            if r["stderr"] and r["crashed"]:
                core.report_sanitizers(ctx, r["stderr"], replay=rp, in_scope=False)
            bad = compare(lines, checks, r["lines"])
            if bad is not None and bad[0] == "diverge:crash" and r["stderr"]:
                bad = (bad[0], bad[1] + "\n" + r["stderr"].strip()[-500:])
            if bad is None:
                ctx.validated()
            else:
                nbad += 1
                ctx.violate("replay", bad[0] + ":" + fault_sig(beh),
                            bad[1] + "\nmode %s, packets: %s" % (beh["mode"], [brief_act(st["act"]) for st in beh["steps"]]), rp)
    return nbad


def brief_act(a):
    a = {k: v for k, v in a.items() if k != "trips"}
    if a["flt"]["f"] == "ok":
        a.pop("flt")
    return a


# ------------------------------------------------------------------------------------------------ twin pass
def rev8(b):
    return int("{:08b}".format(b)[::-1], 2)


def p830(designation, rnd):
    """packet 8/30 format 1 (designation 0/1) or 2 (2/3), EN 300 706 9.8"""
    pk = ttx.mrag(8, 30) + [ttx.ham8(designation)]
    pg, sub = 0x100, 0x3F7F
    pk += [ttx.ham8(pg & 15), ttx.ham8((pg >> 4) & 15), ttx.ham8(sub & 15), ttx.ham8((sub >> 4) & 7),
           ttx.ham8((sub >> 8) & 15), ttx.ham8((sub >> 12) & 3)]
    if designation < 2:
        ni = rnd.choice([0x4901, 0x3E00, 0x2C2F])
        pk += [rev8(ni >> 8), rev8(ni & 0xFF)]
        pk += [0x02 | 0x80 | 0x01]                                   # time offset +0.5 h
        mjd = [4, 5, 8, 0, 0]                                          # MJD 58000... each digit + 1
        pk += [(mjd[0] + 1), ((mjd[1] + 1) << 4) | (mjd[2] + 1), ((mjd[3] + 1) << 4) | (mjd[4] + 1)]
        pk += [0x13, 0x24, 0x35]                                       # UTC 12:23:24, digits + 1
        pk += [0, 0, 0, 0]
    else:
        for k in range(13):
            pk.append(ttx.ham8(rnd.randrange(16)))
    pk += [ttx.par8(ord(c)) for c in "ZVBI VERIF STATUS   "]
    assert len(pk) == 42, len(pk)
    return pk


def p28(mag, rnd):
    """X/28/0 format 1: page function LOP, coding 0, character sets, colour map entries 16..31, default colours"""
    bits = []

    def put(v, n):
        for i in range(n):
            bits.append((v >> i) & 1)
    put(0, 4); put(0, 3)
    put(0, 7); put(0, 7)            # default / second G0-G2 designation: Latin, no national option override
    put(0, 1); put(0, 1); put(0, 1); put(0, 4)
    for i in range(16):
        put(rnd.randrange(4096), 12)
    put(rnd.randrange(32), 5); put(rnd.randrange(32), 5); put(0, 1); put(rnd.randrange(8), 3)
    while len(bits) < 13 * 18:
        bits.append(0)
    pk = ttx.mrag(mag, 28) + [ttx.ham8(0)]
    for t in range(13):
        v = sum(bits[t * 18 + i] << i for i in range(18))
        pk += ttx.ham24(v)
    assert len(pk) == 42
    return pk


_INV = {ttx.ham8(i): i for i in range(16)}


def units_of(pk):
    """Hamming protected units of an intact packet: ([8/4 bytes], [first byte of 24/18 triplets], kind)"""
    a0, a1 = _INV[pk[0]], _INV[pk[1]]
    pno = ((a0 >> 3) & 1) | (a1 << 1)
    hb, trip = [0, 1], []
    if pno == 0:
        hb += list(range(2, 10))
    elif pno in (26, 28):
        hb += [2]
        trip = [3 + 3 * t for t in range(13)]
    elif pno == 27:
        hb += list(range(2, 40))
    elif pno == 30:
        hb += list(range(2, 9))
        if _INV[pk[2]] >= 2:
            hb += list(range(9, 22))
    return hb, trip, pno


def twin_pass(ctx, drv, bases, lib, tab, per_base, err2_per_base, htxt_per_base=0):
    """one bit error in a protected unit = the error-free run; two bit errors in the address / designation of a non-header packet =
    the run without the packet; a parity error in a header text byte = the error-free run (events, cache content, every other page)
    except for the fetched header row of that page"""
    rnd = random.Random(ctx.seed * 13 + 1)
    scripts, jobs = [], []         # jobs: (variant script index, twin script index, skip position in twin or None, description, beh)
    for beh in bases:
        brnd = beh_rnd(ctx.seed, beh)
        cmap = content_map(brnd, beh, lib, tab)
        serial = beh["mode"] == "serial"
        pks = [intended_packet(st["act"], serial, lib, cmap) for st in beh["steps"]]
        # X/28/0 behind the first header; 8/30 format 1 and 2 anywhere
        hdr = next((k for k, st in enumerate(beh["steps"]) if st["act"]["a"] == "Header"), None)
        if hdr is not None:
            pks.insert(hdr + 1, p28(beh["steps"][hdr]["act"]["pg"] >> 8, rnd))
        pks.insert(rnd.randrange(len(pks) + 1), p830(rnd.choice([0, 1]), rnd))
        pks.insert(rnd.randrange(len(pks) + 1), p830(rnd.choice([2, 3]), rnd))
        pages = sorted({st["act"]["pg"] for st in beh["steps"] if st["act"]["a"] == "Header"})
        tail = ["F %x 3f7f %d 2" % (pg, lvl) for pg in pages for lvl in (1, 15, 25)] + ["N %x 3f7f" % pg for pg in pages] + ["L"]
        clean = ["V"] + ["P " + ttx.hexpk(p) for p in pks] + tail
        ci = len(scripts); scripts.append(clean)
        units, err2, htxt = [], [], []
        for i, pk in enumerate(pks):
            hb, trip, pno = units_of(pk)
            if pno == 0:
                pg = (((_INV[pk[0]] & 7) or 8) << 8) | _INV[pk[2]] | (_INV[pk[3]] << 4)
                htxt += [(i, [(2 + c, bit)], pg) for c in range(8, 40) for bit in range(8)]
            for b in hb:
                for bit in range(8):
                    units.append((i, [(b, bit)]))
            for t0 in trip:
                for bit in range(24):
                    units.append((i, [(t0 + bit // 8, bit % 8)]))
            if pno != 0:
                # address bytes, designation, and the link control byte of X/27/0
                for b in ([0, 1] + ([2] if pno in (26, 27, 28, 30) else []) + ([39] if pno == 27 and _INV[pk[2]] == 0 else [])):
                    for b1 in range(8):
                        for b2 in range(b1 + 1, 8):
                            err2.append((i, [(b, b1), (b, b2)]))
        rnd.shuffle(units); rnd.shuffle(err2)
        for (i, flips) in units[:per_base]:
            pk = list(pks[i])
            for b, bit in flips:
                pk[b] ^= 1 << bit
            v = list(clean); v[1 + i] = "P " + ttx.hexpk(pk)
            scripts.append(v)
            jobs.append((len(scripts) - 1, ci, None, "one bit error: packet %d byte/bit %s" % (i + 1, flips), beh))
        rnd.shuffle(htxt)
        for (i, flips, pg) in htxt[:htxt_per_base]:
            pk = list(pks[i])
            for b, bit in flips:
                pk[b] ^= 1 << bit
            v = list(clean); v[1 + i] = "P " + ttx.hexpk(pk)
            scripts.append(v)
            jobs.append((len(scripts) - 1, ci, ("htxt", pg), "parity error in the header text: packet %d (header of %x) byte/bit %s" % (i + 1, pg, flips), beh))
        dropped = {}
        for (i, flips) in err2[:err2_per_base]:
            pk = list(pks[i])
            for b, bit in flips:
                pk[b] ^= 1 << bit
            v = list(clean); v[1 + i] = "P " + ttx.hexpk(pk)
            scripts.append(v)
            vi = len(scripts) - 1
            if i not in dropped:
                d = list(clean); del d[1 + i]
                scripts.append(d); dropped[i] = len(scripts) - 1
            jobs.append((vi, dropped[i], 1 + i, "two bit errors in the address/designation: packet %d byte/bits %s" % (i + 1, flips), beh))
    nchunk = 16
    chunks = [list(range(k, len(scripts), nchunk)) for k in range(nchunk)]

    def job(idx):
        return (idx, core.run_seq_driver([drv], [scripts[i] for i in idx], env=vbuild.san_env(), timeout=1500)) if idx else (idx, [])
    out = [None] * len(scripts)
    for idx, res in core.pmap(job, chunks, workers=8):
        for j, i in enumerate(idx):
            out[i] = res[j]
    for (vi, ti, skip, d, beh) in jobs:
        a, b = out[ti], out[vi]
        v = scripts[vi]
        ctx.count_case(v, nontrivial=True)
        if a is None or b is None or a.get("skipped") or b.get("skipped"):
            continue
        bl = list(b["lines"])
        vv = list(v)
        if isinstance(skip, tuple):
            # the page with the damaged header text itself is not compared (its header row shows a blank); everything else is: events
            # incl. network events, the other pages, the links, the cache content
            al = list(a["lines"])
            own = "F %x " % skip[1]
            keep = [k for k in range(len(vv)) if not vv[k].startswith(own)]
            if len(bl) == len(vv) == len(al) and [al[k] for k in keep] == [bl[k] for k in keep]:
                ctx.validated()
            else:
                n = min(len(al), len(bl), len(vv))
                k = next((i for i in keep if i < n and al[i] != bl[i]), n)
                what = vv[k].split()[0] if k < len(vv) else "end"
                ctx.violate("replay", "twin:htxt:%s" % {"P": "events", "F": "fetch", "N": "links", "L": "cache-content"}.get(what, what),
                            "%s changes the result of command %d (%s): %s instead of %s\npackets: %s"
                            % (d, k + 1, vv[k][:60] if k < len(vv) else "", str(bl[k])[:300] if k < len(bl) else None,
                               str(al[k])[:300] if k < len(al) else None, [brief_act(st["act"]) for st in beh["steps"]]),
                            dict(kind="twin", script=v, clean=scripts[ti], skip=list(skip)))
            continue
        if skip is not None and len(bl) > skip:
            # the damaged packet must have had no effect at all: no events of its own, everything else as without it
            own = bl[skip]
            del bl[skip]; del vv[skip]
            if own.get("ev") or own.get("ev2"):
                ctx.violate("replay", "twin:err2:events", "%s raises events %s\npackets: %s" % (d, own, [brief_act(st["act"]) for st in beh["steps"]]),
                            dict(kind="twin", script=v, clean=scripts[ti], skip=skip))
                continue
        if a["lines"] == bl and len(bl) == len(vv):
            ctx.validated()
        else:
            n = min(len(a["lines"]), len(bl))
            k = next((i for i in range(n) if a["lines"][i] != bl[i]), n)
            what = vv[k].split()[0] if k < len(vv) else "end"
            ctx.violate("replay", "twin:%s:%s" % ("err2" if skip is not None else "single-bit", {"P": "events", "F": "fetch", "N": "links", "L": "cache-content"}.get(what, what)),
                        "%s changes the result of command %d (%s): %s instead of %s\npackets: %s"
                        % (d, k + 1, vv[k][:60] if k < len(vv) else "", str(bl[k])[:200] if k < len(bl) else None,
                           str(a["lines"][k])[:200] if k < len(a["lines"]) else None, [brief_act(st["act"]) for st in beh["steps"]]),
                        dict(kind="twin", script=v, clean=scripts[ti], skip=skip))
    return len(jobs)


# ------------------------------------------------------------------------------------------------ run
QUICK_GEN = [  # (cfg, behaviours per stratum, cap)
    ("Gen_TtxFaults_retx8", 2, 600),
    ("Gen_TtxFaults_retx1", 1, 350),
    ("Gen_TtxFaults_mags", 1, 800),
    ("Gen_TtxFaults_x26", 1, 450),
    ("Gen_TtxFaults_modes", 40, 0),       # every column triplet mode x parity error in its column: all behaviours
    ("Gen_TtxFaults_flof", 40, 0),        # X/27/0 over stored links, every protected unit: all behaviours
    ("Gen_TtxFaults_htxt", 1, 500),       # parity errors in the header text, rolling header pages of one magazine
    ("Gen_TtxFaults_htxt8", 1, 250),      # ... with a second magazine (8)
]
THOROUGH_GEN = [
    ("Gen_TtxFaults_retx8", 40, 0),
    ("Gen_TtxFaults_retx1", 40, 0),
    ("Gen_TtxFaults_mags_t", 2, 0),
    ("Gen_TtxFaults_x26_t", 20, 0),
    ("Gen_TtxFaults_retxx", 20, 0),
    ("Gen_TtxFaults_modes", 1000, 0),
    ("Gen_TtxFaults_flof", 1000, 0),
    ("Gen_TtxFaults_htxt", 2, 0),
    ("Gen_TtxFaults_htxt8", 2, 0),
]


def run(ctx):
    quick = ctx.tier == "quick"
    ctx.cov["rule"] = ("cases = damaged transmissions (generated from TtxFaults: exhaustive scenario models, one behaviour per final state and fault, "
                       "sampled per stratum = sequence of packet kinds / fault descriptors / erase flags / magazine kind in the quick tier - the X/26 "
                       "mode and the FLOF link models are replayed completely -, and random "
                       "walks; damage on seeded concrete bits) and single-bit / address-fault variants of base transmissions (every bit of every "
                       "Hamming 8/4 byte and 24/18 triplet, sampled per base in the quick tier); distinct by packet bytes; non-trivial = contains a "
                       "damaged packet")
    ctx.assumptions += ["a header whose magazine/packet address bytes are uncorrectable is outside the statement's reach",
                        "a parity error at a position whose character the X/26 data supply hits the parity bit (the fall-back character "
                        "sent with even parity, EN 300 706 table 25); the statement excepts these positions, both outcomes are accepted",
                        "a page retransmitted without the erase flag repeats the enhancement data (X/26) of its stored version",
                        "a damaged parity byte has an odd number of bit errors (an even number is undetectable by any decoder)",
                        "consistent header text as transmitted (no channel switch); a damaged header text byte has an odd number of bit errors",
                        "header text is data, not address or control: a header with damaged text still terminates and opens pages"]
    drv = vbuild.build_driver("drv_ttx")
    lib, tab, raw = setup(ctx)

    def mc(args):
        return tlc.run(*args[0], **args[1])
    runs = [(("MC_TtxFaults", "MC_TtxFaults_q" if quick else "MC_TtxFaults_t"), dict(timeout=2400, workers=2 if quick else 6, heap="8g"))]
    for cfg, per, cap in (QUICK_GEN if quick else THOROUGH_GEN):
        runs.append((("Gen_TtxFaults", cfg), dict(timeout=2400, workers=2 if quick else 6, collect_tr=True, heap="4g")))
    runs.append((("Gen_TtxFaults", "Gen_TtxFaults_sim"), dict(timeout=2400, workers=1, collect_tr=True, heap="4g", simulate=12 if quick else 200,
                                                               depth=17, seed=ctx.seed, max_tr=400 if quick else 6000)))
    res = core.pmap(mc, runs, workers=4 if quick else 2)
    r = res[0]
    ctx.add_mc(r, "MC TtxFaults")
    if r.violation:
        ctx.violate("mc", "mc:%s:%s" % (r.violation["kind"], r.violation["name"]), r.violation["text"][:3000])
    if not quick:
        neg = tlc.run("MC_TtxFaults", "MC_TtxX26_neg", timeout=600, workers=1, heap="2g")
        ctx.add_mc(neg, "MC TtxX26 negative (drop only the damaged triplet)")
        if not neg.violation:
            ctx.violate("mc", "mc:negative-test:RuleTriplet", "NotMisplaced does not tell the two rules for a lost triplet apart")
        fl = tlc.run("MC_TtxFaults", "MC_TtxFaults_flof_t", timeout=2400, workers=8, heap="8g")
        ctx.add_mc(fl, "MC TtxFaults (X/27/0 over stored links, every protected unit)")
        if fl.violation:
            ctx.violate("mc", "mc:%s:%s" % (fl.violation["kind"], fl.violation["name"]), fl.violation["text"][:3000])
        old = tlc.run("MC_TtxAssembly", "MC_TtxAsmFaults_t", timeout=2400, workers=8, heap="8g")
        ctx.add_mc(old, "MC TtxAssembly with fault actions")
        if old.violation:
            ctx.violate("mc", "mc:%s:%s" % (old.violation["kind"], old.violation["name"]), old.violation["text"][:3000])
    behs, bases, hbases = [], [], []
    for (cfg, per, cap), g in zip(QUICK_GEN if quick else THOROUGH_GEN, res[1:-1]):
        ctx.add_mc(g, "GEN " + cfg)
        faulty = [t for t in g.tr if faults_of(t)]
        sel = stratified(faulty, per, cap, ctx.seed)
        ctx.notes.append("%s: %d behaviours, %d with faults in %d strata, %d replayed" % (cfg, g.n_tr, len(faulty), len({shape(b) for b in faulty}), len(sel)))
        behs += sel
        bases += [t for t in g.tr if not faults_of(t)]
        if "htxt" in cfg:       # transmissions of four and more pages with rolling headers: bases of the header text twins
            hbases += [t for t in sel if sum(1 for st in t["steps"] if st["act"]["a"] == "Header") >= 4]
    g = res[-1]
    ctx.add_mc(g, "GEN simulate")
    ctx.notes.append("random walks: %d" % len(g.tr))
    behs += g.tr
    nbad = run_faulty(ctx, drv, behs, lib, tab, raw, "Gen_TtxFaults")
    for b in behs[:2]:
        ctx.sample(dict(source="Gen_TtxFaults", mode=b["mode"], packets=[brief_act(st["act"]) for st in b["steps"]],
                        terminated=[[dict(pg=v["pg"], sub=v["sub"], rows=[c for c in v["rows"] if c], shown=v["shown"]) for v in st["term"]] for st in b["steps"]],
                        final=[[v["pg"], v["sub"]] for v in b["final"]]))
    rnd = random.Random(ctx.seed)
    walks = list(g.tr)
    rnd.shuffle(walks); rnd.shuffle(bases)
    # bases of the twin pass: random walks, and fault-free transmissions of a page whose FLOF links change (X/27/0 over stored links)
    relink = [b for b in bases if len({st["act"]["l"] for st in b["steps"] if st["act"]["a"] == "Flof"}) > 1]
    tb = walks[:8 if quick else 30] + relink[:2 if quick else 12]
    n = twin_pass(ctx, drv, tb, lib, tab, per_base=260 if quick else 100000, err2_per_base=40 if quick else 100000,
                  htxt_per_base=40 if quick else 100000)
    # header text twins: the intended (fault-free) transmissions of the header text models, several pages of a magazine stored under a
    # reference header (the walks hold too few headers for that); X/28, 8/30 inserted as above (an identified network: a channel
    # switch inferred from a damaged header would be announced by a NETWORK event)
    rnd.shuffle(hbases)
    n += twin_pass(ctx, drv, hbases[:6 if quick else 60], lib, tab, per_base=30 if quick else 100000, err2_per_base=0,
                   htxt_per_base=60 if quick else 100000)
    if tb:
        ctx.sample(dict(source="twin pass base", mode=tb[0]["mode"], packets=[brief_act(st["act"]) for st in tb[0]["steps"]]))
    ctx.notes.append("damaged transmissions replayed: %d, single-bit / address-fault variants replayed: %d" % (len(behs), n))
    ctx.cov["exhaustive"] = False


def replay(ctx, rp):
    drv = vbuild.build_driver("drv_ttx")
    r = rp["replay"]
    if r.get("kind") == "twin":
        clean, v, skip = r["clean"], r["script"], r.get("skip")
        res = core.run_seq_driver([drv], [clean, v], env=vbuild.san_env())
        a, b = res[0]["lines"], list(res[1]["lines"])
        if isinstance(skip, list):
            keep = [k for k in range(len(v)) if not v[k].startswith("F %x " % skip[1])]
            if len(a) != len(b) or [a[k] for k in keep if k < len(a)] != [b[k] for k in keep if k < len(b)]:
                ctx.violate("replay", rp["key"], "the run with the damaged header text still differs from its twin", r)
            return
        if skip is not None and len(b) > skip:
            own = b[skip]; del b[skip]
            if own.get("ev") or own.get("ev2"):
                ctx.violate("replay", rp["key"], "the damaged packet still raises events", r)
        if a != b:
            ctx.violate("replay", rp["key"], "the damaged run still differs from its twin", r)
    else:
        ctx.seed = r.get("seed", ctx.seed)
        lib, tab, raw = setup(ctx)
        run_faulty(ctx, drv, [r["beh"]], lib, tab, raw, "replay")
