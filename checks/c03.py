"""C03 - transmission errors in Teletext are corrected or contained, never shown as data.
spec/TtxAssembly.tla with FaultKinds: uncorrectable header page number (all pages in progress abandoned), uncorrectable header
  subcode/control (terminates, opens nothing), row with parity error and packets with uncorrectable address (change nothing);
  invariant OnlyTransmitted.  Single bit errors in Hamming protected bytes are the error-free behaviour by definition.
MC:  all interleavings with <= 2 damaged packets.
GEN -> REPLAY (checks/c02 machinery): damaged transmissions with the damage placed on concrete bits; every single bit of every
  Hamming 8/4 byte and 24/18 triplet of base transmissions is flipped and the result compared with the spec and with the
  error-free twin on the real decoder (all levels); the cache is audited for page numbers that were never transmitted."""
import json, os, random
from vlib import tlc, build, core, ttx
from checks import c02

MANIFEST = dict(
    level="model_checking",
    engine="tlc-mc+replay",
    technique="TLA+ spec TtxAssembly with fault actions checked exhaustively by TLC (incl. OnlyTransmitted); generated damaged transmissions "
              "replayed with the damage on concrete bits, every single bit of every Hamming protected unit of base transmissions flipped, "
              "fetched pages compared with the specification and with the error-free twin, cache audited for foreign page numbers",
    text="TLC explores all interleavings of two magazines with up to two damaged packets of four kinds and checks the stored pages against "
         "the reference (a damaged row or packet changes nothing, a damaged header page number abandons the pages in progress, a damaged "
         "header subcode only terminates) and that only transmitted page/subpage numbers are ever stored. On the real decoder: (1) every "
         "generated damaged transmission with the damage realised as two bit errors in a Hamming byte or one parity error in a text row, "
         "compared at every termination point; (2) for base transmissions incl. X/26 and X/27 packets every single bit of every Hamming "
         "8/4 byte and 24/18 triplet flipped: events, stored pages (Level 1, 1.5, 2.5 fetch) must equal the error-free run; (3) after every "
         "run the cache may hold only transmitted page numbers.",
    note="Bounded: <= 5 packets and <= 1-2 damaged packets per behaviour. A header whose magazine/packet address is uncorrectable is not "
         "covered (no decoder can recognise it as a header; the rows that follow are filed under the previous page). Burst errors and "
         "dropped packets are sampled only through the damaged-packet actions.",
)


def flip(pk, byte, bits):
    pk = list(pk)
    for b in bits:
        pk[byte] ^= 1 << b
    return pk


def x26_packet(mag, rnd):
    """X/26/0 with 13 triplets: set active position row 1, then characters, then termination marker"""
    trips = [(41, 4, 0)]
    for i in range(8):
        trips.append((rnd.randrange(40), rnd.choice([0x0F, 0x10, 0x09]), rnd.randrange(0x20, 0x7F)))
    while len(trips) < 13:
        trips.append((0x3F, 0x1F, 0x7F))
    pk = ttx.mrag(mag, 26) + [ttx.ham8(0)]
    for a, m, d in trips:
        pk += ttx.ham24(a | (m << 6) | (d << 11))
    assert len(pk) == 42
    return pk


def build(rnd, beh, lib, tab, with_x26=False):
    """like c02.compile_beh but returns per packet the bytes so that damage can be applied"""
    lines, checks = c02.compile_beh(rnd, beh, lib, tab)
    return lines, checks


def apply_damage(rnd, lines, beh):
    """realise the damaged packets of a generated behaviour on concrete bits; lines from c02.compile_beh"""
    out = list(lines)
    pidx = [i for i, l in enumerate(out) if l.startswith("P ")]
    for k, st in enumerate(beh["steps"]):
        a = st["act"]
        i = pidx[k]
        pk = list(bytes.fromhex(out[i][2:]))
        if a["a"] == "HeaderPageBad":
            pk = flip(pk, rnd.choice([2, 3]), rnd.sample(range(8), 2))
        elif a["a"] == "HeaderCtrlBad":
            pk = flip(pk, rnd.choice([4, 5, 6, 7, 8, 9]), rnd.sample(range(8), 2))
        elif a["a"] == "RowBad" and a["kind"] == "rpar":
            for _ in range(rnd.choice([1, 1, 3])):
                pk = flip(pk, rnd.randrange(2, 42), [rnd.randrange(8)])
            if all(bin(b).count("1") % 2 == 1 for b in pk[2:]):     # an even number of flips in one byte: make sure one byte is bad
                pk = flip(pk, 2, [0])
        elif a["a"] == "RowBad" and a["kind"] == "mrag":
            pk = flip(pk, rnd.choice([0, 1]), rnd.sample(range(8), 2))
        else:
            continue
        out[i] = "P " + ttx.hexpk(pk)
    return out


def compile_faulty(rnd, beh, lib, tab):
    # the damaged actions are compiled as their intended packets first
    b2 = dict(beh)
    steps = []
    for st in beh["steps"]:
        a = dict(st["act"])
        if a["a"] in ("HeaderPageBad", "HeaderCtrlBad"):
            a2 = dict(a="Header", pg=a["pg"], sub=1 if a["pg"] in (257, 2201) else 0, erase=False, nat=0)
        elif a["a"] == "RowBad":
            a2 = dict(a="Row", m=a["m"], r=a["r"], c=a["c"])
        else:
            a2 = a
        steps.append(dict(act=a2, term=st["term"]))
    b2["steps"] = steps
    lines, checks = c02.compile_beh(rnd, b2, lib, tab)
    return apply_damage(rnd, lines, beh), checks


def transmitted_keys(beh):
    s = set()
    for st in beh["steps"]:
        a = st["act"]
        if a["a"] == "Header":
            s.add((a["pg"], a["sub"]))
    return s


def run_faulty(ctx, drv, behs, lib, tab):
    rnd = random.Random(ctx.seed * 17 + 3)
    comp = [compile_faulty(rnd, b, lib, tab) for b in behs]
    chunks = [list(range(k, len(behs), 16)) for k in range(16)]

    def job(idx):
        return (idx, core.run_seq_driver([drv], [comp[i][0] + ["L"] for i in idx], env=build_env(), timeout=1200)) if idx else (idx, [])
    for idx, res in core.pmap(job, chunks):
        for j, i in enumerate(idx):
            r = res[j]
            if r.get("skipped"):
                continue
            lines, checks = comp[i]
            beh = behs[i]
            ctx.count_case(lines, nontrivial=any(st["act"]["a"] in ("HeaderPageBad", "HeaderCtrlBad", "RowBad") for st in beh["steps"]))
            rp = dict(kind="faulty", script=lines, beh=beh, seed=ctx.seed)
            bad = c02.compare(lines, checks, r["lines"])
            if bad is None and len(r["lines"]) > len(lines):
                stored = {(p, s) for p, s in r["lines"][len(lines)]["pages"]}
                foreign = stored - transmitted_keys(beh)
                # intended numbers of damaged headers are transmitted numbers too
                foreign = {k for k in foreign if k[0] not in (256, 257, 512, 399, 2201)}
                if foreign:
                    bad = ("diverge:foreign-page", "pages stored under numbers never transmitted: %s" % sorted(foreign))
            if bad is None:
                ctx.validated()
            else:
                ctx.violate("replay", bad[0] + ":" + "+".join(sorted({st["act"]["a"] for st in beh["steps"] if st["act"]["a"] not in ("Header", "Row", "Filler", "Flof")})),
                            bad[1] + "\nactions: %s" % [st["act"] for st in beh["steps"]], rp)


def build_env():
    from vlib import build as b
    return b.san_env()


def single_bit_pass(ctx, drv, bases, lib, tab, per_base):
    """every single bit of every Hamming protected unit: the run must equal the error-free twin"""
    rnd = random.Random(ctx.seed * 13 + 1)
    jobs = []      # (script, description)
    for beh in bases:
        lines, checks = c02.compile_beh(rnd, beh, lib, tab)
        # add an X/26 packet behind the first header of magazine 1 or 2 so that triplets are covered
        pidx = [i for i, l in enumerate(lines) if l.startswith("P ")]
        first_hdr = next((k for k, st in enumerate(beh["steps"]) if st["act"]["a"] == "Header"), None)
        if first_hdr is not None and beh["mode"] == "parallel":
            m = beh["steps"][first_hdr]["act"]["pg"] >> 8
            lines.insert(pidx[first_hdr] + 1, "P " + ttx.hexpk(x26_packet(m, rnd)))
            pidx = [i for i, l in enumerate(lines) if l.startswith("P ")]
        # level 1.5 and 2.5 fetches of every page at the end (differential)
        tail = []
        for pg in (0x100, 0x101, 0x200):
            for lvl in (1, 15, 25):
                tail.append("F %x 3f7f %d" % (pg, lvl))
        clean = lines + tail + ["L"]
        units = []
        for i in pidx:
            pk = list(bytes.fromhex(lines[i][2:]))
            mag_pk = (ttx_unham(pk[0]), ttx_unham(pk[1]))
            pno = ((mag_pk[0] >> 3) & 1) | (mag_pk[1] << 1)
            hbytes = [0, 1]
            trip = []
            if pno == 0:
                hbytes += list(range(2, 10))
            elif pno == 26:
                hbytes += [2]
                trip = [3 + 3 * t for t in range(13)]
            elif pno == 27:
                hbytes += list(range(2, 40))
            for b in hbytes:
                for bit in range(8):
                    units.append((i, [(b, bit)]))
            for t0 in trip:
                for bit in range(24):
                    units.append((i, [(t0 + bit // 8, bit % 8)]))
        rnd.shuffle(units)
        for (i, flips) in units[:per_base]:
            v = list(clean)
            pk = list(bytes.fromhex(v[i][2:]))
            for b, bit in flips:
                pk[b] ^= 1 << bit
            v[i] = "P " + ttx.hexpk(pk)
            jobs.append((v, clean, "packet %d byte/bit %s" % (pidx.index(i) + 1, flips), beh))
    cleans = {}
    scripts = []
    for v, clean, d, beh in jobs:
        key = json.dumps(clean)
        if key not in cleans:
            cleans[key] = len(scripts); scripts.append(clean)
    base_n = len(scripts)
    scripts += [j[0] for j in jobs]
    chunks = [list(range(k, len(scripts), 16)) for k in range(16)]

    def job(idx):
        return (idx, core.run_seq_driver([drv], [scripts[i] for i in idx], env=build_env(), timeout=1200)) if idx else (idx, [])
    out = [None] * len(scripts)
    for idx, res in core.pmap(job, chunks):
        for j, i in enumerate(idx):
            out[i] = res[j]
    for n, (v, clean, d, beh) in enumerate(jobs):
        a = out[cleans[json.dumps(clean)]]
        b = out[base_n + n]
        ctx.count_case(v, nontrivial=True)
        if a is None or b is None or a.get("skipped") or b.get("skipped"):
            continue
        if a["lines"] == b["lines"] and len(b["lines"]) == len(v):
            ctx.validated()
        else:
            k = next((i for i in range(min(len(a["lines"]), len(b["lines"]))) if a["lines"][i] != b["lines"][i]), min(len(a["lines"]), len(b["lines"])))
            what = v[k].split()[0] if k < len(v) else "end"
            ctx.violate("replay", "single-bit:%s" % {"P": "events", "F": "fetch", "C": "is_cached", "L": "cache-content"}.get(what, what),
                        "one corrected bit error (%s) changes the result of command %d (%s)\nactions: %s" % (d, k + 1, v[k][:60] if k < len(v) else "", [st["act"] for st in beh["steps"]]),
                        dict(kind="single-bit", script=v, clean=clean))
    return len(jobs)


_INV = {ttx.ham8(i): i for i in range(16)}


def ttx_unham(b):
    return _INV.get(b, 0)


def run(ctx):
    quick = ctx.tier == "quick"
    ctx.cov["rule"] = ("cases = damaged transmissions (generated from TtxAssembly with fault actions, damage on seeded concrete bits) and single-bit "
                       "variants of base transmissions (every bit of every Hamming 8/4 byte and 24/18 triplet, sampled per base in the quick tier); "
                       "distinct by packet bytes; non-trivial = contains a damaged packet")
    ctx.assumptions += ["a header whose magazine/packet address bytes are uncorrectable is outside the statement's reach"]
    from vlib import build as b
    drv = b.build_driver("drv_ttx")
    lib, tab = c02.setup(ctx)
    r = tlc.run("MC_TtxAssembly", "MC_TtxFaults_q" if quick else "MC_TtxFaults_t", timeout=2400, coverage=not quick, heap="16g")
    ctx.add_mc(r, "MC TtxFaults")
    if r.violation:
        ctx.violate("mc", "mc:%s:%s" % (r.violation["kind"], r.violation["name"]), r.violation["text"][:3000])
    g = tlc.run("Gen_TtxAssembly", "Gen_TtxFaults_q", timeout=2400, collect_tr=True, heap="16g", sample_tr=(40, ctx.seed) if quick else (6, ctx.seed))
    ctx.add_mc(g, "GEN TtxFaults")
    faulty = [t for t in g.tr if any(st["act"]["a"] in ("HeaderPageBad", "HeaderCtrlBad", "RowBad") for st in t["steps"])]
    run_faulty(ctx, drv, faulty, lib, tab)
    if faulty:
        ctx.sample(dict(source="Gen_TtxFaults", mode=faulty[0]["mode"], actions=[st["act"] for st in faulty[0]["steps"]]))
    clean = [t for t in g.tr if t not in faulty]
    rnd = random.Random(ctx.seed)
    rnd.shuffle(clean)
    n = single_bit_pass(ctx, drv, clean[:12 if quick else 150], lib, tab, per_base=250 if quick else 100000)
    ctx.notes.append("single-bit variants replayed: %d" % n)
    ctx.cov["exhaustive"] = False


def replay(ctx, rp):
    from vlib import build as b
    drv = b.build_driver("drv_ttx")
    r = rp["replay"]
    if r.get("kind") == "single-bit":
        res = core.run_seq_driver([drv], [r["clean"], r["script"]], env=build_env())
        if res[0]["lines"] != res[1]["lines"]:
            ctx.violate("replay", rp["key"], "the damaged run still differs from its error-free twin", r)
    else:
        lib, tab = c02.setup(ctx)
        ctx.seed = r.get("seed", ctx.seed)
        run_faulty(ctx, drv, [r["beh"]], lib, tab)
