"""C15 - IDL and PFC demultiplexers deliver the sent data in order and flag loss.
spec/IdlA.tla: services sending format A packets (all format types incl. RI/CI/DL bytes, address lengths, payloads with runs of
  0x00/0xFF and the dummy bytes of EN 300 708 6.5.7.1 marked by the sender), a channel with a fault alphabet at UNIT granularity
  (drop, CRC damage, every Hamming 8/4 protected byte hit once = corrected / twice = unreadable, on packets of the selected
  service and of adversarially chosen neighbour addresses / channels), reference receiver (payload of every intact packet of the
  selected address, DATA_LOST exactly on the first delivery after a loss, nothing from other addresses).
spec/Pfc.tla: sender that packs blocks (separator, structure header, data, fillers) into packets and pages for every alignment,
  foreign pages / streams carrying blocks of their own, the same unit fault alphabet (header: magazine/packet, page number,
  subcode S1-S4, control bytes; packet: block pointer, separators, fillers, structure header nibbles), reference receiver with the
  two policies the statement leaves open for unreadable bytes.
Unrelated Teletext traffic is part of both specifications (by construction, not random): IdlA mode "mix" = every packet X/0..X/29 of
  every magazine and packets 30/31 of every other channel, carrying the body of the next packet of the selected service, between two
  packets of the service; Pfc Noise = packets 26..31 of the page's own magazine and packets 1/25/26..31 of another magazine, each
  carrying a complete foreign block, behind every item at once and at every single position.  They change nothing.
GEN -> REPLAY on vbi_idl_demux_feed / vbi_pfc_demux_feed with real Hamming/CRC coded packets built by the check (lib/vlib/ttx.py);
  err1 / err2 are placed on concrete bits (all 8 single bit positions, the 28 bit pairs) of the unit the specification names."""
import json, os, random, itertools, collections, threading
from vlib import tlc, build, core, ttx

MANIFEST = dict(
    level="model_checking",
    engine="tlc-mc+replay",
    technique="TLA+ specs IdlA and Pfc (sender, channel with a unit-granular fault alphabet, reference receiver) checked exhaustively by "
              "TLC; every generated packet sequence is encoded with real Hamming 8/4 / CRC / block structure, the faults are placed on "
              "concrete bits, and replayed on vbi_idl_demux_feed and vbi_pfc_demux_feed, callback arguments compared after every packet",
    text="IDL format A: TLC explores all sequences of packets of the selected service (8 format types with RI/CI/DL bytes, address "
         "lengths 0/2/3/6, continuity counter incl. wrap-around) mixed with dropped and CRC-damaged packets, loss bursts, ordinary "
         "Teletext packets and packets of neighbour addresses and channels, and checks that DATA_LOST is raised exactly on the first "
         "delivery after a loss and that nothing of another address is delivered. Every Hamming 8/4 protected byte (channel, "
         "designation, format type, address length, each address nibble) of own and neighbour packets is hit with one bit (must be "
         "corrected) and two bits (packet never delivered, loss flagged). Payloads contain runs of 7..30 bytes 0x00/0xFF at every "
         "position; the specification marks the dummy bytes and proves that the receiver rule gives back the user data. PFC: TLC "
         "explores every alignment of block separators, structure headers, data and fillers relative to packet and page ends for "
         "scaled packets, dropped items, foreign pages and streams with their own blocks, one-bit and two-bit hits on every Hamming "
         "protected byte of headers (page number, subcode, control bytes) and packets (block pointer, separator, filler, structure "
         "header), and checks that the reference receiver returns the sent blocks and, after damage, only sent blocks and resumes. "
         "Unrelated Teletext packets are enumerated by the specifications: for IDL every packet X/0 ... X/29 of all eight magazines and "
         "the packets 30/31 of every other data channel (8/30, 8/31 ...), each looking like the next packet of the selected service "
         "behind its address bytes, between two packets of the service; for PFC the packets 26 ... 31 of the page's own magazine "
         "(X/26-X/28, M/29, M/30, M/31; pages in magazine 1 and in magazine 8, so that 8/30 and 8/31 occur) and packets of another "
         "magazine, each carrying a complete block of another service, at every position between header and last data packet and "
         "between pages. None of them may change a delivery or raise the loss flag. "
         "All behaviours are replayed on the real demultiplexers with real coding; single bit positions and bit pairs are enumerated.",
    note="Bounded: IDL <= 5 packets per behaviour in MC and 3 in replay, PFC <= 4 blocks with scaled packets in MC and <= 3 blocks in real "
         "39-byte packets in replay, one fault per PFC transmission. The IDL repeat indicator byte is present with value 0 only "
         "(repetitions are not modelled). EN 300 708 is not available offline: packets in which an RI/CI byte equal to 0x00/0xFF "
         "directly precedes user data starting with the same value are not sent (whether they form one run is left open); DL counts "
         "the dummy bytes. Where the statement leaves the reaction to an unreadable byte open (PFC control bytes, unused subcode "
         "bytes, bytes the decoder need not read) both a strict and a lenient reference outcome are accepted. Empty PFC blocks are "
         "accepted either way (pfc_demux.h documents sizes 1..2048).",
)

WORKERS = 8
FT_RI, FT_CI, FT_DL = 2, 4, 8
PAIRS = list(itertools.combinations(range(8), 2))       # the 28 two-bit errors of a byte

_T = [ttx.crc_idl_a([i]) for i in range(256)]
_HI = {t >> 8: i for i, t in enumerate(_T)}


def crc_tail(body, target):
    """two bytes which appended to body leave the CRC register at `target`"""
    c = ttx.crc_idl_a(body)
    i2 = _HI[target >> 8]
    t1 = (target & 0xFF) ^ (_T[i2] & 0xFF)
    i1 = _HI[t1]
    x = i1 ^ (c & 0xFF)
    c1 = (c >> 8) ^ _T[i1]
    y = i2 ^ (c1 & 0xFF)
    assert ttx.crc_idl_a(body + [x, y]) == target
    return [x, y]


def flip(pk, idx, bits):
    for b in bits:
        pk[idx] ^= 1 << b


class Placer:
    """concrete bit positions for the err1 / err2 faults of the specification: every behaviour gets `per` placements (quick 2,
    thorough all 8 single bits / 7 of the 28 pairs), the placements rotate per unit class so that all 8 single bits and all
    28 pairs are used in every class"""

    def __init__(self, quick, rnd):
        self.quick, self.rnd = quick, rnd
        self.count = collections.Counter()
        self.used = collections.defaultdict(set)

    def variants(self, cls, kind):
        space = [(b,) for b in range(8)] if kind == "err1" else PAIRS
        per = 2 if self.quick else 8 if kind == "err1" else 7
        c = self.count[(cls, kind)]
        self.count[(cls, kind)] += 1
        v = [space[(per * c + j) % len(space)] for j in range(per)]
        self.used[(cls, kind)].update(v)
        return v

    def one(self, cls, kind):
        space = [(b,) for b in range(8)] if kind == "err1" else PAIRS
        v = self.rnd.choice(space)
        self.used[(cls, kind)].add(v)
        return v

    def report(self):
        return {"%s:%s" % (c, k): len(v) for (c, k), v in sorted(self.used.items())}


# ------------------------------------------------------------------------------------------------ IDL format A
def idl_packet(rnd, perm, st):
    """one step of an IdlA behaviour -> (42 bytes as sent, index of the first CRC protected byte, indices of the CI/DL bytes)"""
    a = st["act"]
    it = a["it"]
    fmt, spalen = it["fmt"], it["spalen"]
    pkt = [ttx.ham8(it["dest"]["chan"]), ttx.ham8(15), ttx.ham8(fmt), ttx.ham8(spalen | (8 if it["dep"] else 0))]
    pkt += [ttx.ham8((it["dest"]["addr"] >> (4 * i)) & 15) for i in range(spalen)]
    if fmt & FT_RI:
        pkt.append(0)               # not repeated
    start = len(pkt)
    body, head = [], []
    if fmt & FT_CI:
        head.append(start + len(body)); body.append(a["ci"])
    wire = [0xAA if x == 300 else perm[x] for x in st["wire"]]
    if fmt & FT_DL:
        head.append(start + len(body)); body.append(len(wire))
    room = 40 - start - len(body)
    assert len(wire) <= room and (fmt & FT_DL or len(wire) == room), (len(wire), room, it)
    body += wire + [rnd.randrange(256) for _ in range(room - len(wire))]       # behind the data length: anything
    target = 0 if fmt & FT_CI else (a["ci"] | (a["ci"] << 8))
    pkt += body + crc_tail(body, target)
    assert len(pkt) == 42, len(pkt)
    return pkt, start, head


IDL_UNIT = dict(chan=0, desig=1, ft=2, ial=3)


def compile_idl(rnd, beh, placer):
    """-> list of (lines, [expected], reset, tag): one entry per concrete placement of the behaviour's unit fault"""
    perm = list(range(1, 255)); rnd.shuffle(perm); perm = [0] + perm + [255]
    # the unit fault that is enumerated (mode "unit": the second packet); other faults get one random placement
    enum_at, variants = None, [()]
    if beh["mode"] == "unit":
        f = beh["steps"][1]["act"]["it"]["flt"]
        if f["u"] in ("chan", "desig", "ft", "ial", "spa"):
            own = beh["steps"][1]["act"]["own"]
            enum_at, variants = 1, placer.variants("idl:%s:%s" % ("own" if own else "other", f["u"]), f["k"])
    res = []
    for var in variants:
        lines, exp = [], []
        for n, st in enumerate(beh["steps"]):
            a = st["act"]
            if a["a"] == "Burst":
                continue          # k packets of the selected service are lost: nothing arrives, the sender's counter went on
            if a["a"] == "Other":
                pkt = ttx.mrag(rnd.randrange(1, 9), rnd.randrange(0, 30)) + [ttx.par8(rnd.randrange(0x20, 0x7F)) for _ in range(40)]
                lines.append("F " + ttx.hexpk(pkt)); exp.append([])
                continue
            if a["a"] == "Mix":
                # an unrelated Teletext packet (magazine, packet number as the specification says) whose body is the packet the
                # selected service would send next
                pkt, _, _ = idl_packet(rnd, perm, st)
                pkt[0:2] = ttx.mrag(a["mag"], a["no"])
                lines.append("F " + ttx.hexpk(pkt)); exp.append([])
                continue
            it = a["it"]
            f = it["flt"]
            if f["u"] == "drop":
                continue
            pkt, start, head = idl_packet(rnd, perm, st)
            if f["u"] == "crc":
                # damage that really fails the check of this format (with the continuity indicator hidden in the
                # CRC any remainder with two equal bytes is a legal packet: 8 effective check bits)
                zone = head if (f["k"] == "head" and head) else [40, 41] if f["k"] == "check" else list(range(start + len(head), 40))
                while True:
                    q = list(pkt)
                    q[rnd.choice(zone)] ^= 1 << rnd.randrange(8)
                    rem = ttx.crc_idl_a(q[start:])
                    if (rem != 0) if it["fmt"] & FT_CI else ((rem & 0xFF) != (rem >> 8)):
                        pkt = q
                        break
            elif f["u"] != "none":
                idx = 4 + f["i"] if f["u"] == "spa" else IDL_UNIT[f["u"]]
                flip(pkt, idx, var if n == enum_at else placer.one("idl:cont:" + f["u"], f["k"]))
            lines.append("F " + ttx.hexpk(pkt))
            exp.append([dict(n=len(o["bytes"]), flags=(1 if o["lost"] else 0) | (8 if o["dep"] else 0), bytes=[perm[x] for x in o["bytes"]])
                        for o in st["out"]])
        res.append((lines, [exp], "R idl %x %d" % (beh["lst"]["chan"], beh["lst"]["addr"]), "idl:" + beh["mode"]))
    return res


# ------------------------------------------------------------------------------------------------ Page Format - Clear
PFC_PGNO, PFC_STREAM = 0x1DF, 5
PFC_PGNO_M8 = 0x8DF     # a page of magazine 8: packets 30 / 31 of its magazine are 8/30 (broadcast service data) and 8/31
PFC_HDR_UNIT = dict(mrag0=0, mrag1=1, pgu=2, pgt=3, s1=4, s2=5, s3=6, s4=7, c1=8, c2=9)


def pfc_unit_class(tr):
    f = tr["fault"]
    it = tr["items"][f["at"] - 1]
    if f["u"] == "el":
        x = it["data"][f["i"] - 1]
        return "pfc:P:" + ("bs" if x == 300 else "fill" if x == 301 else "sh")
    return "pfc:%s:%s" % (it["t"], f["u"])


def pfc_packets(rnd, tr, alts, bits, pgno=PFC_PGNO):
    """TLC transmission -> driver lines and the expected deliveries of every accepted policy (seeded byte substitution on
    data values); bits: the bit positions inverted in the unit the fault names"""
    perm = list(range(256)); rnd.shuffle(perm)
    mag = pgno >> 8
    om = (mag % 8) + 1

    def el(x):
        if x == 300: return ttx.ham8(0x0C)
        if x == 301: return ttx.ham8(0x03)
        if x >= 400: return ttx.ham8(x - 400)
        return perm[x]

    def hdr(m, pg, s1, npk, stream):
        return ttx.mrag(m, 0) + [ttx.ham8(pg & 15), ttx.ham8((pg >> 4) & 15), ttx.ham8(s1), ttx.ham8(npk & 7), ttx.ham8(stream),
                                 ttx.ham8((npk >> 3) & 3), ttx.ham8(rnd.randrange(16)), ttx.ham8(rnd.randrange(16))] + [ttx.par8(0x20)] * 32
    lines, src = [], []
    fault = tr["fault"]
    for n, it in enumerate(tr["items"]):
        if rnd.random() < 0.2:          # unrelated Teletext traffic: another magazine, a row of another page's magazine
            pn = rnd.randrange(0, 26)
            if pn == 0:   # a valid page header of another magazine
                junk = ttx.mrag(om, 0) + [ttx.ham8(rnd.randrange(10)), ttx.ham8(rnd.randrange(10))] + \
                    [ttx.ham8(rnd.randrange(16)) for _ in range(6)] + [ttx.par8(rnd.randrange(0x20, 0x7F)) for _ in range(32)]
            else:
                junk = ttx.mrag(om, pn) + [rnd.randrange(256) for _ in range(40)]
            lines.append("F " + ttx.hexpk(junk)); src.append(None)
        if fault["k"] == "drop" and fault["at"] == n + 1:
            continue
        if it["t"] == "H":
            pk = hdr(mag, pgno, it["ci"], it["n"], PFC_STREAM)
        elif it["t"] == "X":        # another page of our magazine (the page number after ours: the carry reaches the tens)
            pk = hdr(mag, (pgno + 1) & 0xFF, rnd.randrange(16), 1, PFC_STREAM)
        elif it["t"] == "S":        # our page with the next stream number
            pk = hdr(mag, pgno, rnd.randrange(16), 1, PFC_STREAM + 1)
        elif it["t"] == "M":        # another magazine, same page number and stream
            pk = hdr(om, pgno, rnd.randrange(16), rnd.randrange(1, 8), PFC_STREAM)
        elif it["t"] == "U":        # unrelated packet (Noise): packet 26..31 of our magazine / any packet of another magazine
            pk = ttx.mrag(mag if it["own"] else om, it["no"]) + [ttx.ham8(it["bp"])] + [el(x) for x in it["data"]]
        else:
            pk = ttx.mrag(mag, it["no"]) + [ttx.ham8(it["bp"])] + [el(x) for x in it["data"]]
        assert len(pk) == 42
        if fault["k"] in ("err1", "err2") and fault["at"] == n + 1:
            idx = 2 + fault["i"] if fault["u"] == "el" else 2 if fault["u"] == "bp" else PFC_HDR_UNIT[fault["u"]]
            assert len(bits) == (1 if fault["k"] == "err1" else 2)
            flip(pk, idx, bits)
        lines.append("F " + ttx.hexpk(pk)); src.append(n)
    exps = [[[] if n is None else [dict(app=o["app"], size=o["size"], bytes=[perm[x] for x in o["bytes"]], pgno=pgno) for o in outs[n]] for n in src]
            for outs in alts]
    return lines, exps


def compile_pfc(rnd, tr, placer):
    f = tr["fault"]
    alts = [a for n, a in enumerate(tr["alts"]) if a not in tr["alts"][:n]]      # deliveries per policy; mostly they agree
    variants = placer.variants(pfc_unit_class(tr), f["k"]) if f["k"] in ("err1", "err2") else [()]
    res = []
    # transmissions with unrelated packets are sent twice: on a page of magazine 1 and on a page of magazine 8
    for pgno in ((PFC_PGNO, PFC_PGNO_M8) if tr.get("nz", {}).get("c") else (PFC_PGNO,)):
        for bits in variants:
            lines, exps = pfc_packets(rnd, tr, alts, bits, pgno)
            res.append((lines, exps, "R pfc %x %d" % (pgno, PFC_STREAM), "pfc:noise" if pgno != PFC_PGNO or tr.get("nz", {}).get("c") else "pfc"))
    return res


def pfc_eq(e, g):
    # an empty block carries no bytes: its delivery is optional (pfc_demux.h documents sizes 1..2048)
    g = [y for y in g if y["size"] > 0]
    e = [x for x in e if x["size"] > 0]
    return len(e) == len(g) and all(x["app"] == y["app"] and x["size"] == y["size"] and x["bytes"] == y["bytes"]
                                    and y.get("pgno") == x.get("pgno", PFC_PGNO) and y.get("stream") == PFC_STREAM for x, y in zip(e, g))


def idl_eq(e, g):
    return len(e) == len(g) and all(x["n"] == y["n"] and x["flags"] == y["flags"] and x["bytes"] == y["bytes"] for x, y in zip(e, g))


# ------------------------------------------------------------------------------------------------ replay
def compare(exps, got, eq):
    """the real demultiplexer must follow ONE of the accepted reference outcomes from the first packet to the last.
    -> None or (packet index, expected of the outcomes still possible, got)"""
    alive = list(range(len(exps)))
    for n in range(len(exps[0])):
        if n >= len(got):
            return n, [exps[a][n] for a in alive], None
        nxt = [a for a in alive if eq(exps[a][n], got[n]["d"])]
        if not nxt:
            return n, [exps[a][n] for a in alive], got[n]["d"]
        alive = nxt
    return None


def replay_set(ctx, drv, comp, label, eq):
    chunks = [list(range(k, len(comp), WORKERS)) for k in range(WORKERS)]

    def job(idx):
        return (idx, core.run_seq_driver([drv], [[comp[i][2]] + comp[i][0] for i in idx], env=build.san_env(), own_reset=True)) if idx else (idx, [])
    for idx, res in core.pmap(job, chunks, workers=WORKERS):
        for j, i in enumerate(idx):
            r = res[j]
            lines, exps, reset, tag = comp[i]
            if r.get("skipped"):
                continue
            rp = dict(reset=reset, script=lines, expected=exps, kind=label)
            ctx.count_case(lines, nontrivial=any(e for e in exps[0]))
            nsan = core.report_sanitizers(ctx, r["stderr"], replay=rp, in_scope=bool(r["crashed"])) if r["stderr"] else 0
            bad = compare(exps, r["lines"], eq)
            if bad is None:
                ctx.validated()
            elif not (r["crashed"] and nsan):
                n, e, g = bad
                ctx.violate("replay", "diverge:%s:%s" % (label, classify(e[0], g)),
                            "%s, packet %d: the specification predicts %s, the real demultiplexer delivered %s" % (
                                tag, n + 1, " or ".join(str(x) for x in e), "nothing (driver stopped)" if g is None else g), rp)
    if comp:
        m = len(comp) // 2
        ctx.sample(dict(source=comp[m][3], reset=comp[m][2], packets=[l[:30] + "..." for l in comp[m][0][:6]], expected=comp[m][1][0][:6]))


def classify(e, g):
    if e is None or g is None:
        return "crash"
    if len(e) != len(g):
        return "count %d->%d" % (len(e), len(g))
    for x, y in zip(e, g):
        if "flags" in x and x["flags"] != y.get("flags"):
            return "flags %d->%d" % (x["flags"], y.get("flags") & 0xFF if isinstance(y.get("flags"), int) else -1)
        if x.get("bytes") != y.get("bytes"):
            return "bytes"
    return "other"


def mc(ctx, module, cfg, label, workers=WORKERS, **kw):
    r = tlc.run(module, cfg, workers=workers, **kw)
    ctx.add_mc(r, label)
    if r.violation:
        ctx.violate("mc", "mc:%s:%s" % (r.violation["kind"], r.violation["name"]), r.violation["text"][:3000])
    return r


def run(ctx):
    quick = ctx.tier == "quick"
    ctx.cov["rule"] = ("cases = packet sequences generated from the IdlA / Pfc models, encoded with real coding, every unit fault placed on "
                       "concrete bits, and replayed; distinct by the encoded packet bytes; non-trivial = at least one delivery is predicted")
    ctx.assumptions += ["IDL repeat indicator byte present with value 0 only (no repetitions)",
                        "an RI/CI byte 0x00/0xFF directly in front of user data starting with the same value is not sent (EN 300 708 6.5.7.1 "
                        "not available: one run or not is left open); DL counts dummy bytes",
                        "one fault per PFC transmission"]
    drv = build.build_driver("drv_idlpfc")
    rnd = random.Random(ctx.seed)
    placer = Placer(quick, rnd)
    half = WORKERS // 2
    # the exhaustive runs (properties of the models) go on beside the generator runs and the replay: 4 + 4 TLC workers
    side_err = []

    def side():
        try:
            mc(ctx, "Pfc", "MC_Pfc_q" if quick else "MC_Pfc_t", "MC_Pfc", workers=half, timeout=2400, heap="8g")
            if not quick:
                mc(ctx, "Pfc", "MC_Pfc_n", "MC_Pfc unrelated packets x faults", workers=half, timeout=2400, heap="8g")
                mc(ctx, "Pfc", "MC_Pfc_t4", "MC_Pfc 4 blocks", workers=half, timeout=2400, heap="8g")
                mc(ctx, "Pfc", "MC_Pfc_eq", "MC_Pfc Step = Leap", workers=half, timeout=2400, heap="8g")
            mc(ctx, "IdlA", "MC_IdlA_q" if quick else "MC_IdlA", "MC_IdlA", workers=half, timeout=2400, coverage=not quick, heap="8g")
        except BaseException as ex:
            side_err.append(ex)
    th = threading.Thread(target=side, daemon=True)
    th.start()
    try:
        # ---- IDL
        comp = []
        for cfg, label in ((("Gen_IdlA_q", "GEN IdlA"),) if quick else (("Gen_IdlA_c", "GEN IdlA continuity"), ("Gen_IdlA", "GEN IdlA units, payloads"))):
            g = mc(ctx, "Gen_IdlA", cfg, label, workers=half, timeout=2400, collect_tr=True, heap="8g")
            for b in g.tr:
                comp += compile_idl(rnd, b, placer)
        replay_set(ctx, drv, comp, "idl", idl_eq)
        # ---- PFC
        comp = []
        for cfg, label in ((("Gen_Pfc_q", "GEN Pfc alignments"), ("Gen_Pfc_uq", "GEN Pfc units"), ("Gen_Pfc_nq", "GEN Pfc unrelated packets")) if quick else
                           (("Gen_Pfc_t", "GEN Pfc alignments"), ("Gen_Pfc_ut", "GEN Pfc units"), ("Gen_Pfc_nt", "GEN Pfc unrelated packets"))):
            # thorough: TLC checks every transmission of the alignment model, every second one is replayed (a uniform sample;
            # the outcomes of all policies are inside one behaviour)
            g = mc(ctx, "Gen_Pfc", cfg, label, workers=half, timeout=2400, collect_tr=True, heap="8g",
                   sample_tr=(2, ctx.seed) if cfg == "Gen_Pfc_t" else None)
            for tr in g.tr:
                comp += compile_pfc(rnd, tr, placer)
        replay_set(ctx, drv, comp, "pfc", pfc_eq)
    finally:
        th.join()
    if side_err:
        raise side_err[0]
    ctx.cov["mc_runs"].sort(key=lambda r: (not r["run"].startswith("MC"), r["run"]))
    ctx.cov["checker_cmd"] = ctx.cov["mc_runs"][0]["cmd"]
    ctx.cov["unit_fault_placements"] = placer.report()
    ctx.cov["exhaustive"] = True


def replay(ctx, rp):
    drv = build.build_driver("drv_idlpfc")
    r = rp["replay"]
    res = core.run_seq_driver([drv], [[r["reset"]] + r["script"]], env=build.san_env(), own_reset=True)[0]
    if res["stderr"]:
        core.report_sanitizers(ctx, res["stderr"], replay=r, in_scope=True)
    eq = idl_eq if r.get("kind") == "idl" else pfc_eq
    exps = r["expected"]
    for n in range(len(exps[0])):
        g = res["lines"][n]["d"] if n < len(res["lines"]) else None
        print(" | ".join(str(e[n]) for e in exps), "<-spec | real->", g)
    bad = compare(exps, res["lines"], eq)
    if bad is not None and not ctx.violations:
        n, e, g = bad
        ctx.violate("replay", rp["key"], "packet %d: spec %s real %s" % (n + 1, e, g), r)
