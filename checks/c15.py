"""C15 - IDL and PFC demultiplexers deliver the sent data in order and flag loss.
spec/IdlA.tla: sender continuity counter, channel faults (drop, CRC damage, Hamming double error, foreign traffic), reference
  receiver (payload of every intact packet of the selected address, DATA_LOST exactly on the first delivery after a loss).
spec/Pfc.tla: sender that packs blocks (separator, structure header, data, fillers) into packets and pages for every alignment,
  channel faults, reference receiver.
GEN -> REPLAY on vbi_idl_demux_feed / vbi_pfc_demux_feed with real Hamming/CRC coded packets built by the check (lib/vlib/ttx.py)."""
import json, os, random
from vlib import tlc, build, core, ttx

MANIFEST = dict(
    level="model_checking",
    engine="tlc-mc+replay",
    technique="TLA+ specs IdlA and Pfc (sender, faulty channel, reference receiver) checked exhaustively by TLC; every generated packet "
              "sequence is encoded with real Hamming 8/4 / CRC / block structure and replayed on vbi_idl_demux_feed and vbi_pfc_demux_feed, "
              "callback arguments compared after every packet",
    text="IDL format A: TLC explores all sequences of packets of the selected address (4 header formats, address lengths 0/3/6, data "
         "lengths 0/1/30, continuity counter incl. wrap-around) mixed with dropped, CRC-damaged, Hamming-damaged and foreign packets and checks "
         "that DATA_LOST is raised exactly on the first delivery after a loss. PFC: TLC explores every alignment of block separators, "
         "structure headers, data and fillers relative to packet and page ends for scaled packets, with single packet drops and damaged "
         "block pointers, and checks that the reference receiver returns the sent blocks and, after damage, only sent blocks. All "
         "behaviours are replayed on the real demultiplexers with real coding (seeded payload bytes incl. 0x00/0xFF runs with dummy bytes).",
    note="Bounded: IDL <= 5 packets per behaviour, PFC <= 4 blocks with scaled packets in MC and real 39-byte packets in replay. IDL repeat "
         "indicator (RI) packets and the dummy-byte rule at the CI/DL boundary are not covered (the standard text is not available offline; "
         "dummy bytes are exercised only inside user data). Empty PFC blocks are accepted either way (pfc_demux.h documents sizes 1..2048).",
)

CHANNEL, ADDRESS = 8, 0x2A5          # packet 31 of magazine 8 ... any; address needs <= 3 nibbles for spalen 3
FT = {"ci": 4, "ci+dl": 12, "impl": 0, "impl+dl": 8}

_T = [ttx.crc_idl_a([i]) for i in range(256)]
_HI = {t >> 8: i for i, t in enumerate(_T)}


def crc_tail(body, target):
    """two bytes which appended to body leave the CRC register at `target`"""
    c = ttx.crc_idl_a(body)
    i2 = _HI[target >> 8]
    t1 = (target & 0xFF) ^ (_T[i2] & 0xFF)
    i1 = _HI[t1]
    x = i1 ^ (c & 0xFF)
    c1 = (c >> 8) ^ _T[i1]
    y = i2 ^ (c1 & 0xFF)
    assert ttx.crc_idl_a(body + [x, y]) == target
    return [x, y]


def idl_packet(rnd, act, address=ADDRESS, channel=CHANNEL):
    """-> (42 bytes, user data bytes)"""
    fmt, spalen, n = act["fmt"], act["spalen"], act["n"]
    has_ci, has_dl = fmt in ("ci", "ci+dl"), fmt in ("ci+dl", "impl+dl")
    cap = 36 - spalen - (1 if has_ci else 0) - (1 if has_dl else 0)
    addr = address & ((1 << (4 * spalen)) - 1) if spalen else 0
    pkt = [ttx.ham8(channel), ttx.ham8(15), ttx.ham8(FT[fmt]), ttx.ham8(spalen | (8 if act["dep"] else 0))]
    pkt += [ttx.ham8((addr >> (4 * i)) & 15) for i in range(spalen)]
    body = []
    if has_ci:
        body.append(act["ci"])
    # user data with dummy bytes after 8 equal 0x00 / 0xFF bytes (runs start behind an ordinary byte)
    want = min(n, cap) if has_dl else cap
    user, wire = [], []
    while len(user) < want and len(wire) < cap:
        room = cap - len(wire)
        if rnd.random() < 0.15 and room >= 11 and want - len(user) >= 9:
            v = rnd.choice([0x00, 0xFF])
            run = rnd.choice([8, 8, 9])
            seq = [rnd.randrange(1, 255)] + [v] * run
            w = list(seq[:9]) + [0xAA] + seq[9:]
            user += seq; wire += w
        else:
            b = rnd.randrange(1, 255)
            user.append(b); wire.append(b)
    if not has_dl:
        assert len(wire) == cap
    if has_dl:
        body.append(len(wire))
        wire = wire + [rnd.randrange(256) for _ in range(cap - len(wire))]
    body += wire
    target = 0 if has_ci else (act["ci"] | (act["ci"] << 8))
    pkt += body + crc_tail(body, target)
    assert len(pkt) == 42, len(pkt)
    return pkt, user


def damage2(b):
    return b ^ 0x05        # two bit errors in one Hamming 8/4 byte


def compile_idl(rnd, beh):
    lines, exp = [], []
    for st in beh:
        a = st["act"]
        if a["a"] == "Send":
            pkt, user = idl_packet(rnd, a)
            if a["how"] == "drop":
                continue
            if a["how"] == "crc":
                # damage that really fails the check of this format (with the continuity indicator hidden in the
                # CRC any remainder with two equal bytes is a legal packet: 8 effective check bits)
                while True:
                    q = list(pkt)
                    k = rnd.randrange(4 + a["spalen"], 42)
                    q[k] ^= 1 << rnd.randrange(8)
                    rem = ttx.crc_idl_a(q[4 + a["spalen"]:])
                    if (rem != 0) if a["fmt"] in ("ci", "ci+dl") else ((rem & 0xFF) != (rem >> 8)):
                        pkt = q
                        break
            if a["how"] == "ham":
                k = 3 if a["spalen"] == 0 or rnd.random() < 0.5 else 4 + rnd.randrange(a["spalen"])
                pkt[k] = damage2(pkt[k])
            lines.append("F " + "".join("%02x" % b for b in pkt))
            exp.append([dict(n=len(user), flags=(1 if o["lost"] else 0) | (8 if o["dep"] else 0), bytes=user) for o in st["out"]])
        elif a["a"] == "Burst":
            continue          # k packets of the selected address are lost: nothing arrives, the sender's counter went on
        else:
            k = a["kind"]
            if k == "addr":
                b = dict(a="Send", how="ok", n=5, fmt="ci+dl", spalen=rnd.choice([0, 3]), dep=False, ci=rnd.randrange(256))
                pkt, _ = idl_packet(rnd, b, address=ADDRESS ^ 0x111)      # no address nibbles = address 0
            elif k == "chan":
                b = dict(a="Send", how="ok", n=5, fmt="ci+dl", spalen=3, dep=False, ci=rnd.randrange(256))
                pkt, _ = idl_packet(rnd, b, channel=CHANNEL ^ 3)
            else:
                pkt = ttx.mrag(1, 5) + [ttx.par8(rnd.randrange(0x20, 0x7F)) for _ in range(40)]
            lines.append("F " + "".join("%02x" % b for b in pkt))
            exp.append([])
    return lines, exp



PFC_PGNO, PFC_STREAM = 0x1DF, 5


def pfc_packets(rnd, tr):
    """TLC transmission -> driver lines and expected deliveries (seeded byte substitution on data values)"""
    perm = list(range(256)); rnd.shuffle(perm)
    mag = PFC_PGNO >> 8

    def el(x):
        if x == 300: return ttx.ham8(0x0C)
        if x == 301: return ttx.ham8(0x03)
        if x >= 400: return ttx.ham8(x - 400)
        return perm[x]
    lines, exp = [], []
    fault = tr["fault"]
    for n, (it, out) in enumerate(zip(tr["items"], tr["outs"])):
        if rnd.random() < 0.2:          # unrelated Teletext traffic: another magazine, a row of another page's magazine
            om = (mag % 8) + 1
            pn = rnd.randrange(0, 26)
            if pn == 0:   # a valid page header of another magazine
                junk = ttx.mrag(om, 0) + [ttx.ham8(rnd.randrange(10)), ttx.ham8(rnd.randrange(10))] + \
                    [ttx.ham8(rnd.randrange(16)) for _ in range(6)] + [ttx.par8(rnd.randrange(0x20, 0x7F)) for _ in range(32)]
            else:
                junk = ttx.mrag(om, pn) + [rnd.randrange(256) for _ in range(40)]
            lines.append("F " + "".join("%02x" % b for b in junk)); exp.append([])
        if fault["k"] == "drop" and fault["at"] == n + 1:
            continue
        if it["t"] == "H":
            ci, np_ = it["ci"], it["n"]
            pk = ttx.mrag(mag, 0) + [ttx.ham8(PFC_PGNO & 15), ttx.ham8((PFC_PGNO >> 4) & 15), ttx.ham8(ci),
                                     ttx.ham8(np_ & 7), ttx.ham8(PFC_STREAM), ttx.ham8((np_ >> 3) & 3),
                                     ttx.ham8(0), ttx.ham8(0)] + [ttx.par8(0x20)] * 32
        elif it["t"] in ("X", "S", "M"):
            # headers that are not for us: another page of our magazine / our page with another stream / another magazine
            pg = (PFC_PGNO ^ 0x01) if it["t"] == "X" else PFC_PGNO
            m = (mag % 8) + 1 if it["t"] == "M" else mag
            st = PFC_STREAM ^ 1 if it["t"] == "S" else PFC_STREAM
            pk = ttx.mrag(m, 0) + [ttx.ham8(pg & 15), ttx.ham8((pg >> 4) & 15), ttx.ham8(rnd.randrange(16)),
                                   ttx.ham8(rnd.randrange(1, 8)), ttx.ham8(st), ttx.ham8(0),
                                   ttx.ham8(0), ttx.ham8(0)] + [ttx.par8(0x20)] * 32
        else:
            bp = ttx.ham8(it["bp"])
            if fault["k"] == "badbp" and fault["at"] == n + 1:
                bp ^= 0x05
            pk = ttx.mrag(mag, it["no"]) + [bp] + [el(x) for x in it["data"]]
        assert len(pk) == 42
        lines.append("F " + "".join("%02x" % b for b in pk))
        exp.append([dict(app=o["app"], size=o["size"], bytes=[perm[x] for x in o["bytes"]]) for o in out])
    return lines, exp


def pfc_eq(e, g):
    # an empty block carries no bytes: its delivery is optional (pfc_demux.h documents sizes 1..2048)
    g = [y for y in g if y["size"] > 0]
    e = [x for x in e if x["size"] > 0]
    return len(e) == len(g) and all(x["app"] == y["app"] and x["size"] == y["size"] and x["bytes"] == y["bytes"]
                                    and y.get("pgno") == PFC_PGNO and y.get("stream") == PFC_STREAM for x, y in zip(e, g))


def replay_set(ctx, drv, reset, comp, label, keyfn):
    chunks = [list(range(k, len(comp), 16)) for k in range(16)]

    def job(idx):
        return (idx, core.run_seq_driver([drv], [[reset] + comp[i][0] for i in idx], env=build.san_env(), own_reset=True)) if idx else (idx, [])
    for idx, res in core.pmap(job, chunks):
        for j, i in enumerate(idx):
            r = res[j]
            lines, exp = comp[i][0], comp[i][1]
            if r.get("skipped"):
                continue
            rp = dict(reset=reset, script=lines, expected=exp, kind=label)
            ctx.count_case(lines, nontrivial=any(e for e in exp))
            nsan = core.report_sanitizers(ctx, r["stderr"], replay=rp, in_scope=bool(r["crashed"])) if r["stderr"] else 0
            bad = None
            for n, e in enumerate(exp):
                if n >= len(r["lines"]):
                    bad = (n, "driver stopped"); break
                g = r["lines"][n]["d"]
                if not keyfn(e, g):
                    bad = (n, "spec predicts %s, real demultiplexer delivered %s" % (e, g)); break
            if bad is None:
                ctx.validated()
            elif not (r["crashed"] and nsan):
                n = bad[0]
                e = exp[n] if n < len(exp) else None
                g = r["lines"][n]["d"] if n < len(r["lines"]) else None
                ctx.violate("replay", "diverge:%s:%s" % (label, classify(e, g)), "packet %d: %s" % (n + 1, bad[1]), rp)
    if comp:
        m = len(comp) // 2
        ctx.sample(dict(source=label, packets=[l[:30] + "..." for l in comp[m][0][:6]], expected=comp[m][1][:6]))


def classify(e, g):
    if e is None or g is None:
        return "crash"
    if len(e) != len(g):
        return "count %d->%d" % (len(e), len(g))
    for x, y in zip(e, g):
        if "flags" in x and x["flags"] != y.get("flags"):
            return "flags %d->%d" % (x["flags"], y.get("flags") & 0xFF if isinstance(y.get("flags"), int) else -1)
        if x.get("bytes") != y.get("bytes"):
            return "bytes"
    return "other"


def idl_eq(e, g):
    return len(e) == len(g) and all(x["n"] == y["n"] and x["flags"] == y["flags"] and x["bytes"] == y["bytes"] for x, y in zip(e, g))


def run(ctx):
    quick = ctx.tier == "quick"
    ctx.cov["rule"] = ("cases = packet sequences generated from the IdlA / Pfc models, encoded with real coding and replayed; distinct by the "
                       "encoded packet bytes; non-trivial = at least one delivery is predicted")
    ctx.assumptions += ["IDL repeat indicator packets are out of scope", "dummy bytes occur only inside user data"]
    drv = build.build_driver("drv_idlpfc")
    rnd = random.Random(ctx.seed)
    r = tlc.run("IdlA", "MC_IdlA", timeout=900, coverage=not quick, heap="8g")
    ctx.add_mc(r, "MC_IdlA")
    if r.violation:
        ctx.violate("mc", "mc:%s:%s" % (r.violation["kind"], r.violation["name"]), r.violation["text"][:3000])
    g = tlc.run("Gen_IdlA", "Gen_IdlA_q" if quick else "Gen_IdlA", timeout=900, collect_tr=True, heap="12g", sample_tr=(8, ctx.seed) if quick else (3, ctx.seed))      # a uniform sample, not a BFS prefix
    ctx.add_mc(g, "GEN IdlA")
    behs = g.tr
    comp = [compile_idl(rnd, b) for b in behs]
    replay_set(ctx, drv, "R idl %x %d" % (CHANNEL, ADDRESS), comp, "idl", idl_eq)
    r = tlc.run("Pfc", "MC_Pfc_q" if quick else "MC_Pfc_t", timeout=2400, heap="16g")
    ctx.add_mc(r, "MC_Pfc")
    if r.violation:
        ctx.violate("mc", "mc:%s:%s" % (r.violation["kind"], r.violation["name"]), r.violation["text"][:3000])
    g = tlc.run("Gen_Pfc", "Gen_Pfc_q" if quick else "Gen_Pfc_t", timeout=2400, collect_tr=True, heap="16g", max_tr=None if quick else 300000)
    ctx.add_mc(g, "GEN Pfc")
    comp = [pfc_packets(rnd, t) for t in g.tr]
    replay_set(ctx, drv, "R pfc %x %d" % (PFC_PGNO, PFC_STREAM), comp, "pfc", pfc_eq)
    ctx.cov["exhaustive"] = True


def replay(ctx, rp):
    drv = build.build_driver("drv_idlpfc")
    r = rp["replay"]
    res = core.run_seq_driver([drv], [[r["reset"]] + r["script"]], env=build.san_env(), own_reset=True)[0]
    if res["stderr"]:
        core.report_sanitizers(ctx, res["stderr"], replay=r, in_scope=True)
    eq = idl_eq if r.get("kind") == "idl" else pfc_eq
    for n, e in enumerate(r["expected"]):
        g = res["lines"][n]["d"] if n < len(res["lines"]) else None
        print(e, "<-spec | real->", g)
        if (g is None or not eq(e, g)) and not ctx.violations:
            ctx.violate("replay", rp["key"], "packet %d: spec %s real %s" % (n + 1, e, g), r)

