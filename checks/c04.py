"""C04 - raw VBI decoding recovers every standard signal bit-exactly, on the right line, and only requested services.
spec/RawDecoder.tla: sampling parameters, the service table (transcribed, compared with the library's table at run time),
  admission of services (strictness, rate, line length, field/line knowledge), the job list with merged jobs, the pattern
  [row][way] with its learning/reordering, add/remove/set_sampling_par/resize/reset of BOTH interface generations, decode of
  an image row -> carried waveform | blank with the bit slicer abstracted to "job j succeeds iff the row carries j's waveform".
MC:  Complete (exactly one record per carried row of a decoded service), OnlyRequested, IdentifiedAs, LineNumbers, Ascending,
     BlankSilent, Bounded, RemovedEverywhere, JobsOK, SearchedOnOwnLines, NoRunOff, AddReturnsDecodable, LearningKeepsJobs on all
     histories (625 + 525); thorough: the model of the code as found (Fixed = FALSE) must still show the repaired defects.
GEN: shortest history to every explored transition (BFS) + random walks (tlc -generate), with the expected returned sets,
     records (row, id, line) and internal state (services, jobs, pattern, readjust) after every step; the admission arithmetic
     is evaluated by TLC for exactly the (seeded) sampling rates of the run.
REPLAY: harness/drv_rawsvc.c performs the calls on vbi_raw_decoder_* (libzvbi 0.2 interface) or vbi3_raw_decoder_*; every image
     is rendered by the library's reference transmitter (_vbi_raw_vbi_image / _vbi_raw_video_image) with seeded payloads
     (random, constant, long runs of equal bits) on a grid pixel format x storage x sampling rate x offset, decoded, and every
     transmitted line is also sliced by vbi_bit_slice and vbi3_bit_slicer_slice alone.  Compared after every step: returned
     set, service/job/pattern/readjust state, record count, ids, line numbers, payload (sent = decoded), bytes behind the
     payload and behind out[n] untouched."""
import os, json, random, re, math
from vlib import tlc, build, core

MANIFEST = dict(
    level="model_checking",
    engine="tlc-mc+replay",
    technique="TLA+ spec RawDecoder (service table, admission, job pattern with learning, both API generations, decode over images "
              "row -> carried waveform) checked exhaustively by TLC; generated API histories replayed on the real decoders with "
              "frames rendered by the library's reference transmitter on a grid of pixel formats, storage orders, sampling rates "
              "and offsets, compared step by step incl. payload bytes, plus both bit slicers line by line",
    text="TLC explores all histories (bounded depth) of add/remove/set_sampling_par|resize/reset/decode calls over geometries around "
         "the table's line-range edges (one field, unknown line numbers, interlaced, unknown/swapped field order, invalid), "
         "strictness 0-2, service sets with merged services (Teletext B 1.0/2.5, caption F1/F2, VPS/VPS F2), all frames carrying "
         "up to 2 standard waveforms, for 625 and 525 line tables, and checks: exactly one record per carried row of a decoded "
         "service, ids subset of the decoded set and naming the carried waveform, ITU-R line number when known else 0, ascending "
         "order, silence on blank rows, at most max_lines records, a removed service leaves every job and pattern slot, "
         "add_services returns exactly the admissible subset, learning only reorders. The generated histories are executed on "
         "both real interfaces with real waveforms; payload equality sent = decoded is checked on every record and for "
         "vbi_bit_slice / vbi3_bit_slicer_slice on every transmitted line.",
    note="The waveform/numeric clause (threshold, phase, interpolation) is decided by the replay on a sampled grid, not by TLC: "
         "rates 13.5, 14.32, 17.73, 27, 35.47 MHz + seeded random rates in between (+ 2.5-4.9 MHz, caption only), "
         "the 23 pixel formats of VBI_PIXFMT_SET_ALL, sequential/interlaced, offsets min/nominal/max/random inside the line; the continuous "
         "space between grid points is sampled, never exhausted. TLC decides the combinatorial clause for bounded histories "
         "(4 transitions quick / 6 thorough in MC, 10 in random walks), <= 5 rows per frame in MC, 17 in walks. The service table is transcribed and compared with the "
         "library's at run time. VBI_SLICED_2xCAPTION_525 has no reference transmitter (requested, never carried).",
)

BITVAL = {"A": 0x2000, "L10": 1, "L25": 2, "C625": 0x4000, "D625": 0x8000, "VPS": 4, "VPS2": 0x1000, "WSS": 0x400,
          "CC625_1": 8, "CC625_2": 0x10, "B525": 0x10000, "C525": 0x100, "D525": 0x20000, "CC525_1": 0x20, "CC525_2": 0x40,
          "CC2X": 0x80}
# what the transmitter is asked to send for a waveform: (service id, payload bits)
WAVE = {"ttx_a": (0x2000, 296), "ttx_b": (3, 336), "ttx_c625": (0x4000, 264), "ttx_d625": (0x8000, 272), "vps": (4, 104),
        "wss": (0x400, 14), "cc625": (0x18, 16), "ttx_b525": (0x10000, 272), "ttx_c525": (0x100, 264), "ttx_d525": (0x20000, 272),
        "cc525": (0x60, 16)}
BLANK_IDS = {0x20000000, 0x40000000}
FIXED_RATES = [(13500000, 720), (14318180, 764), (17734475, 946), (27000000, 1440), (35468950, 2048)]
YUV420 = 1
# the statement's envelope for slicing a line: 13.5 MHz upward for Teletext-class services, twice the clock rate upward for the others
def envelope(wave):
    return 13500000 if wave.startswith("ttx") else 10000000 if wave in ("vps", "wss") else 2100000


def span(wave):
    """where the reference transmitter (src/io-sim.c) puts the signal in the line: (start, end) in seconds"""
    ttx = {"ttx_a": (6203125.0, 37), "ttx_b": (6937500.0, 42), "ttx_c625": (5734375.0, 33), "ttx_d625": (5642787.0, 34),
           "ttx_b525": (5727272.0, 34), "ttx_c525": (5727272.0, 33), "ttx_d525": (5727272.0, 34)}
    if wave in ttx:
        br, n = ttx[wave]
        t1 = 12e-6 - 13 / br
        return t1, t1 + (n * 8 + 25) / br
    if wave == "vps":
        t1 = 12.5e-6 - .5 / 5e6
        return t1, t1 + 240 / 5e6
    if wave == "wss":
        t1 = 11e-6 - .5 / 5e6
        return t1, t1 + 138 / 5e6
    br = 500000.0 if wave == "cc625" else 30000 * 525 * 32 / 1001.0
    d = 1 / br
    # the last bit ends at t3 + 20 d; a 720 sample BT.601 line (53.3 us) cannot hold all of it: up to its centre + 1/4 bit
    return 10.5e-6 - .25 * d, 10.5e-6 + 6.5 * d - 120e-9 + 19.75 * d


def sval(bits):
    return sum(BITVAL[b] for b in bits)


def payload(rnd, wave, used=None):
    """`used`: constant patterns already on this frame (two rows with the same constant payload cannot be told apart)"""
    nbits = WAVE[wave][1]
    n = (nbits + 7) // 8
    k = rnd.randrange(8)
    if used is not None and k < 3:
        if k in used:
            k = 7
        used.add(k)
    if k == 0:
        b = [0] * n
    elif k == 1:
        b = [0xFF] * n
    elif k == 2:
        b = [rnd.choice([0x55, 0xAA])] * n
    elif k == 3:                      # long runs of equal bits
        run = rnd.randrange(1, max(2, n // 2 + 1))
        b = [(0xFF if (i // run) & 1 else 0) for i in range(n)]
    elif k == 4:                      # a single one / zero in a long run
        b = [rnd.choice([0, 0xFF])] * n
        b[rnd.randrange(n)] ^= 1 << rnd.randrange(8)
    else:
        b = [rnd.randrange(256) for _ in range(n)]
    if nbits & 7:
        b[-1] &= (1 << (nbits & 7)) - 1
    p = "".join("%02x" % x for x in b)
    while used is not None and (wave, p) in used:         # e.g. two caption rows: the only "long run" of 16 bits is 00ff
        b = [rnd.randrange(256) for _ in range(n)]
        if nbits & 7:
            b[-1] &= (1 << (nbits & 7)) - 1
        p = "".join("%02x" % x for x in b)
    if used is not None:
        used.add((wave, p))
    return p


def offsets(rnd, rate, spl, waves, mode):
    """sampling offset (in samples) that keeps every signal of the behaviour inside the line"""
    if not waves:
        waves = ["cc625"]
    lo = max(span(w)[1] for w in waves) - spl / rate
    hi = min(span(w)[0] for w in waves)
    lo_s, hi_s = max(0, int(math.ceil(lo * rate))), int(math.floor(hi * rate))
    if lo_s > hi_s:
        return None
    nom = min(max(int(9.7e-6 * rate), lo_s), hi_s)
    return dict(nom=nom, min=lo_s, max=hi_s, rnd=rnd.randint(lo_s, hi_s))[mode]


def geom_args(g):
    return "%d %d %d %d %d %d" % (g["start"][0], g["count"][0], g["start"][1], g["count"][1], int(g["il"]), int(g["sync"]))


def concretise(beh, fmt, bpp, mode, seed):
    """behaviour -> (driver script, expectation per answer line) or None when no offset keeps the signals inside the line"""
    rnd = random.Random(seed)
    h0 = beh[0]
    rate, spl = h0["act"]["rate"]["rate"], h0["act"]["rate"]["spl"]
    waves = sorted({w for st in beh for w in st["img"] if w != "blank"})
    off = offsets(rnd, rate, spl, waves, mode)
    if off is None:
        return None
    api = h0["act"]["api"]
    ug = h0["ug"]
    lines = ["N %s %d %d %d %d %s" % (api, fmt, rate, spl * bpp, ug["std"], geom_args(ug))]
    exp = [dict(kind="new", st=h0)]
    for prev, st in zip(beh, beh[1:]):
        a = st["act"]
        if a["a"] == "add":
            lines.append("A %x %d" % (sval(a["set"]), a["strict"]))
            exp.append(dict(kind="set", st=st))
        elif a["a"] == "remove":
            lines.append("M %x" % sval(a["set"]))
            exp.append(dict(kind="set", st=st))
        elif a["a"] == "resize":
            lines.append("Z %s %d" % (geom_args(a["g"]), a["strict"]))
            exp.append(dict(kind="set", st=st))
        elif a["a"] == "reset":
            lines.append("X")
            exp.append(dict(kind="set", st=st))
        else:
            g = st["dg"] if st["dg"]["std"] else st["ug"]
            sent = {}
            ent = []
            used = set()
            for i, w in enumerate(st["img"]):
                if w == "blank":
                    continue
                p = payload(rnd, w, used)
                sent[i] = (w, p, st["lines"][i])
                ent.append("%d:%x:%s" % (st["lines"][i], WAVE[w][0], p))
            lines.append("F %d %d %d %d %d %d %s" % (off, 1 if g["swap"] else 0, a["maxl"], g["tstart"][0], g["tstart"][1],
                                                    len(ent), " ".join(ent)))
            exp.append(dict(kind="decode", st=st, sent=sent, rate=rate, off=off, prev=prev))
    return lines, exp


def same_payload(wave, sent, got):
    nbits = WAVE[wave][1]
    n = (nbits + 7) // 8
    if got is None or len(got) < 2 * n:
        return False
    a, b = bytes.fromhex(sent[:2 * n]), bytes.fromhex(got[:2 * n])
    if nbits & 7:
        m = (1 << (nbits & 7)) - 1
        return a[:-1] == b[:-1] and (a[-1] & m) == b[-1]          # the unused most significant bits are zero
    return a == b


ID_WAVE = {0x2000: "ttx_a", 1: "ttx_b", 2: "ttx_b", 0x4000: "ttx_c625", 0x8000: "ttx_d625", 4: "vps", 0x1000: "vps", 0x400: "wss",
           8: "cc625", 0x10: "cc625", 0x10000: "ttx_b525", 0x100: "ttx_c525", 0x20000: "ttx_d525", 0x20: "cc525", 0x40: "cc525", 0x80: "cc2x"}


def wave_of_id(i):
    return ID_WAVE.get(i & -i, "?") if i else "none"


def lead_class(e, w):
    """the caption 525 slicer has no run-in test: a line that starts long before the run-in is a case of its own"""
    if w == "cc525" and span(w)[0] - e["off"] / float(e["rate"]) > 2.0e-6:
        return ":lead>2us"
    return ""


def align(e, recs, gr):
    """records of the specification against the real ones: which line was missed, invented or given another service"""
    st = e["st"]
    carried = {ln: w for (w, p, ln) in e["sent"].values()}
    if all(r["line"] for r in recs) and all(x["line"] for x in gr):
        want = {r["line"]: r for r in recs}
        have = {x["line"]: x for x in gr}
        for ln in sorted(set(want) | set(have)):
            if ln not in have:
                return ("diverge:decode:missed:%s" % carried.get(ln, "blank"),
                        "line %d carries %s of a decoded service, no record (spec expects lines %s, real %s)" %
                        (ln, carried.get(ln, "blank"), sorted(want), sorted(have)))
            if ln not in want:
                return ("diverge:decode:extra:%s-as-%s" % (carried.get(ln, "blank"), wave_of_id(have[ln]["id"])),
                        "line %d carries %s, spec expects no record (decoded services %s), real decoder returned id 0x%x data %s" %
                        (ln, carried.get(ln, "blank"), sorted(st["svc"]), have[ln]["id"], have[ln]["data"]))
            if wave_of_id(have[ln]["id"]) != carried.get(ln):
                return ("diverge:decode:misidentified:%s-as-%s" % (carried.get(ln, "blank"), wave_of_id(have[ln]["id"])),
                        "line %d carries %s, real decoder returned id 0x%x data %s (spec: id %s)" %
                        (ln, carried.get(ln, "blank"), have[ln]["id"], have[ln]["data"], sorted(want[ln]["ids"])))
        return None
    # no line numbers: the records come in row order; attribute every real record to a carried row, by its payload first
    want = {r["row"] for r in recs}
    rows = sorted(e["sent"])

    def is_record_of(x, row):
        w, p, ln = e["sent"][row]
        return wave_of_id(x["id"]) == w and same_payload(w, p, x["data"])
    # pass 1: records that are exactly what a row carries; pass 2: the others go between their neighbours
    pos, ptr = [None] * len(gr), 0
    for i, x in enumerate(gr):
        j = next((j for j in range(ptr, len(rows)) if is_record_of(x, rows[j])), None)
        if j is not None:
            pos[i], ptr = j, j + 1
    got = {rows[j]: gr[i] for i, j in enumerate(pos) if j is not None}
    def window(i):
        lo = max([pos[k] for k in range(i) if pos[k] is not None], default=-1) + 1
        hi = min([pos[k] for k in range(i + 1, len(gr)) if pos[k] is not None], default=len(rows))
        return [j for j in range(lo, hi) if rows[j] not in got]
    # the driver sliced every row on its own with the record's service: rows that give exactly this record (org), then rows
    # that this service's slicer accepts at all (acc); a record with a single candidate between its neighbours is settled
    def candidates(x, field, win):
        if field == "org":
            return [j for j in win if rows[j] in x.get("org", [])]
        # rows the record's service accepts, closest bytes first: only a clear winner counts (less than half of the bytes differ)
        acc = sorted((d, r) for r, d in x.get("acc", []) if r in [rows[j] for j in win])
        half = len(x["data"]) // 4
        if acc and acc[0][0] <= half and (len(acc) == 1 or acc[1][0] > half):
            return [rows.index(acc[0][1])]
        return []
    for field in ("org", "acc"):
        changed = True
        while changed:
            changed = False
            for i, x in enumerate(gr):
                if pos[i] is None:
                    c = candidates(x, field, window(i))
                    if len(c) == 1:
                        pos[i], got[rows[c[0]]], changed = c[0], x, True
    pv = e["prev"]
    for i, x in enumerate(gr):
        if pos[i] is not None:
            continue
        win = window(i)
        # a record can only stem from a row whose pattern held a job with this id when the frame arrived
        able = [j for j in win if any(v > 0 and sval(pv["jobs"][v - 1]) == x["id"] for v in (pv["pat"][rows[j]] if pv["pat"] else []))] or win
        wx = wave_of_id(x["id"])
        j = next((j for j in able if rows[j] in want and e["sent"][rows[j]][0] == wx), None)        # its own row, payload damaged
        if j is None:
            j = next((j for j in able if rows[j] in want), None)                                     # another service's row
        if j is None:
            j = next((j for j in able if rows[j] not in want), None)                                 # a row nothing is expected on
        if j is None:
            return ("diverge:decode:extra:?-as-%s" % wave_of_id(x["id"]), "spec expects %s, real decoder returned %s" %
                    ([e["sent"][r["row"]][0] for r in recs], [wave_of_id(y["id"]) for y in gr]))
        pos[i] = j
        got[rows[j]] = x
    for row in rows:
        w = e["sent"][row][0]
        if row in want and row not in got:
            return ("diverge:decode:missed:%s" % w, "row %d carries %s of a decoded service, no record (real: %s)" %
                    (row, w, [wave_of_id(x["id"]) for x in gr]))
        if row in got and row not in want:
            return ("diverge:decode:extra:%s-as-%s" % (w, wave_of_id(got[row]["id"])),
                    "row %d carries %s, spec expects no record there (decoded services %s), real decoder returned %s" %
                    (row, w, sorted(st["svc"]), [(wave_of_id(x["id"]), x["data"][:8]) for x in gr]))
        if row in got and wave_of_id(got[row]["id"]) != w:
            return ("diverge:decode:misidentified:%s-as-%s" % (w, wave_of_id(got[row]["id"])),
                    "row %d carries %s, real decoder returned id 0x%x data %s" % (row, w, got[row]["id"], got[row]["data"]))
    return None


def state_diff(st, g):
    """spec state vs. what the driver printed of struct _vbi3_raw_decoder"""
    if g is None:
        return "no decoder"
    if g["svc"] != sval(st["svc"]):
        return "services: spec %s (0x%x), real 0x%x" % (sorted(st["svc"]), sval(st["svc"]), g["svc"])
    if g["jobs"] != [sval(j) for j in st["jobs"]]:
        return "jobs: spec %s, real %s" % ([hex(sval(j)) for j in st["jobs"]], [hex(x) for x in g["jobs"]])
    if (g["pat"] or []) != (st["pat"] or []):
        bad = [i for i, (x, y) in enumerate(zip(g["pat"] or [], st["pat"] or [])) if x != y]
        return "pattern rows %s: spec %s, real %s" % (bad, [st["pat"][i] for i in bad[:3]], [g["pat"][i] for i in bad[:3]]) if bad \
            else "pattern size: spec %d rows, real %d" % (len(st["pat"] or []), len(g["pat"] or []))
    if g["rj"] != st["rj"]:
        return "readjust: spec %d, real %d" % (st["rj"], g["rj"])
    d = st["dg"]
    want = [d["std"], d["start"][0], d["count"][0], d["start"][1], d["count"][1], int(d["il"]), int(d["sync"])]
    if g["sp"] != want:
        return "sampling parameters: spec %s, real %s" % (want, g["sp"])
    return None


def compare(exp, got):
    """-> None or (step index, key, explanation)"""
    if len(got) < len(exp):
        return (len(got), "diverge:crash", "driver stopped after %d of %d answers" % (len(got), len(exp)))
    for n, (e, g) in enumerate(zip(exp, got)):
        st = e["st"]
        act = st["act"]["a"]
        if "err" in g or "genfail" in g:
            return (n, "diverge:%s:driver" % act, "driver answered %s" % g)
        if e["kind"] == "new":
            if not g.get("ok"):
                return (n, "diverge:new:refused", "valid sampling parameters refused")
        elif e["kind"] == "set":
            if g.get("set") != sval(st["ret"]["set"]):
                return (n, "diverge:%s:returned-set" % act, "spec returns %s (0x%x), real 0x%x" %
                        (sorted(st["ret"]["set"]), sval(st["ret"]["set"]), g.get("set", -1)))
        else:
            recs = st["ret"]["recs"]
            gr = g.get("rec", [])
            bad = align(e, recs, gr)
            if bad:
                return (n,) + bad
            if g.get("n") != len(gr):
                return (n, "diverge:decode:count", "returned %s, %d records fit the array" % (g.get("n"), len(gr)))
            for k, (r, x) in enumerate(zip(recs, gr)):
                w, p, ln = e["sent"][r["row"]]
                if x["id"] != sval(r["ids"]):
                    return (n, "diverge:decode:id", "record %d: spec id %s (0x%x), real 0x%x" % (k, sorted(r["ids"]), sval(r["ids"]), x["id"]))
                if x["line"] != r["line"]:
                    return (n, "diverge:decode:line", "record %d: spec line %d, real %d" % (k, r["line"], x["line"]))
                if not same_payload(w, p, x["data"]):
                    return (n, "diverge:decode:payload:%s%s" % (w, lead_class(e, w)), "record %d line %d %s: sent %s, decoded %s" % (k, ln, w, p, x["data"]))
                if not x["tail"]:
                    return (n, "diverge:decode:wrote-behind-payload", "record %d: bytes behind the payload changed" % k)
            if not g.get("rest"):
                return (n, "diverge:decode:wrote-behind-out[n]", "records behind out[%d] changed" % len(recs))
            bs = {b["line"]: b for b in g.get("bs", [])}
            for i, (w, p, ln) in e["sent"].items():
                b = bs.get(ln)
                if b is None:
                    return (n, "diverge:slice:missing", "no bit slicer result for line %d" % ln)
                for which in ("old", "new") if e["rate"] >= envelope(w) else ():
                    if not same_payload(w, p, b[which]):
                        return (n, "diverge:slice:%s:%s%s" % (which, w, lead_class(e, w)), "line %d %s through %s alone: sent %s, sliced %s" %
                                (ln, w, "vbi_bit_slice" if which == "old" else "vbi3_bit_slicer_slice", p, b[which]))
        d = state_diff(st, g.get("st"))
        if d:
            return (n, "diverge:%s:state:%s" % (act, d.split(":")[0].split(" ")[0]), d)
    return None


def check_table(ctx, spec_tab, lib):
    """the transcribed table of the specification against _vbi_service_table"""
    libs = [s for s in lib["services"] if s["id"] not in BLANK_IDS]
    if lib["ways"] != 8 or lib["max_jobs"] != 8:
        ctx.violate("table", "table:ways", "library has %d ways, %d jobs; the model is checked with 8, 8" % (lib["ways"], lib["max_jobs"]))
    if len(libs) != len(spec_tab):
        ctx.violate("table", "table:length", "spec has %d entries, library %d" % (len(spec_tab), len(libs)))
        return
    for e, s in zip(spec_tab, libs):
        want = dict(id=sval(e["ids"]), std=e["std"], first=e["first"], last=e["last"], cri_rate=e["cri_rate"], bit_rate=e["bit_rate"],
                    cri_bits=e["cri_bits"], frc_bits=e["frc_bits"], payload=e["payload"],
                    flags=(1 if e["linenum"] else 0) | (2 if e["fieldnum"] else 0))
        got = {k: s[k] for k in want}
        if want != got:
            k = next(k for k in want if want[k] != got[k])
            ctx.violate("table", "table:%s:%s" % (e["name"], k), "service table entry %s: spec (standards/documented table) %s, library %s" %
                        (e["name"], want, got))


def rates_for(ctx, quick):
    """(rate, samples per line) of this run: the fixed grid + seeded random rates; even number of samples (YUYV)"""
    rnd = random.Random(ctx.seed * 7919 + (0 if quick else 1))

    def spl_of(rate):
        return (int(rate * rnd.uniform(53.4e-6, 56.5e-6)) + 1) & ~1
    out = list(FIXED_RATES)
    for _ in range(2 if quick else 8):
        r = rnd.randrange(13500000, 35468950)
        out.append((r, min(spl_of(r), 2046)))
    for _ in range(1 if quick else 3):               # caption only
        r = rnd.randrange(2500000, 4900000)
        out.append((r, spl_of(r)))
    # (between 5 and 13.5 MHz the library admits services below the rates the statement covers: not used)
    return out


IN_SCOPE_FILES = ("raw_decoder.c", "decoder.c", "bit_slicer.c", "sampling_par.c")


def sanitizers(ctx, stderr, rp):
    """io-sim.c is the transmitter (out of scope); memory errors in the decoder are violations of the
    'nothing is written beyond' clause, undefined-behaviour reports are noted (they belong to C01/C05)"""
    n = 0
    for kind, fn, where in core.sanitizer_reports(stderr):
        if where.startswith("io-sim.c"):
            continue
        if kind.startswith("asan:") and any(where.startswith(f) for f in IN_SCOPE_FILES):
            i = stderr.find("ERROR: AddressSanitizer")
            ctx.violate("sanitizer", "%s:%s" % (kind, fn), stderr[max(0, i):i + 2500], rp)
            n += 1
        else:
            note = "sanitizer report outside this property's statement (see C01/C05): %s:%s at %s" % (kind, fn, where)
            if note not in ctx.notes and len(ctx.notes) < 12:
                ctx.notes.append(note)
    return n


def run_set(ctx, drv, behs, formats, label, variants, seed0):
    """replay every behaviour under `variants` (format, offset mode, payload seed) combinations"""
    rnd = random.Random(seed0)
    modes = ["nom", "min", "max", "rnd"]
    jobs = []
    for bi, b in enumerate(behs):
        for v in range(variants):
            f = formats[(bi + v * 7 + seed0) % len(formats)] if (v or bi % 3) else next(x for x in formats if x["fmt"] == YUV420)
            mode = modes[(bi + v) % 4]
            sd = rnd.randrange(1 << 30)
            c = concretise(b, f["fmt"], f["bpp"], mode, sd)
            if c is None:
                continue
            jobs.append(dict(beh=bi, fmt=f["fmt"], bpp=f["bpp"], mode=mode, seed=sd, script=c[0], exp=c[1]))
    nproc = 8
    chunks = [list(range(k, len(jobs), nproc)) for k in range(nproc)]

    def work(idx):
        return (idx, core.run_seq_driver([drv], [jobs[i]["script"] for i in idx], env=build.san_env(), timeout=1500)) if idx else (idx, [])
    for idx, res in core.pmap(work, chunks, workers=nproc):
        for j, i in enumerate(idx):
            r, jb = res[j], jobs[i]
            if r.get("skipped"):
                continue
            b = behs[jb["beh"]]
            rp = dict(beh=b, fmt=jb["fmt"], bpp=jb["bpp"], mode=jb["mode"], seed=jb["seed"])
            ncar = sum(1 for st in b for w in st["img"] if w != "blank")
            ctx.count_case(jb["script"], nontrivial=ncar > 0)
            nsan = sanitizers(ctx, r["stderr"], rp) if r["stderr"] else 0
            bad = compare(jb["exp"], r["lines"])
            if bad is None:
                ctx.validated()
            elif not (r["crashed"] and nsan):
                n, key, why = bad
                acts = [st["act"]["a"] for st in b]
                ctx.violate("replay", key, "step %d (%s) of %s, api %s, rate %d Hz x %d samples, pixel format %d, offset %s: %s\n  script: %s" %
                            (n, acts[n] if n < len(acts) else "?", acts, b[0]["act"]["api"], b[0]["act"]["rate"]["rate"],
                             b[0]["act"]["rate"]["spl"], jb["fmt"], jb["mode"], why, jb["script"][:n + 1][-3:]), rp)
    if jobs:
        withrec = [j for j in jobs if any(e["kind"] == "decode" and e["st"]["ret"]["recs"] for e in j["exp"])] or jobs
        m = withrec[len(withrec) // 2]
        ctx.sample(dict(source=label, script=m["script"],
                        expected=[dict(ret=e["st"]["ret"], services=sorted(e["st"]["svc"]), pattern=e["st"]["pat"]) for e in m["exp"]][:6]))
    return len(jobs)


def gen(ctx, cfg, env, label, **kw):
    g = tlc.run("Gen_RawDecoder", cfg, timeout=1500, collect_tr=True, heap="8g", workers=8, env=env, **kw)
    if g.violation:
        raise tlc.ToolFailure("GEN run reported " + str(g.violation))
    ctx.add_mc(g, "GEN " + label)
    return g


def spec_table(out):
    m = re.search(r'^<<"TAB", "(.*)">>$', out, re.M)
    if not m:
        raise tlc.ToolFailure("GEN did not print the service table")
    return json.loads(m.group(1).replace('\\"', '"').replace("\\\\", "\\"))


def run(ctx):
    quick = ctx.tier == "quick"
    ctx.cov["rule"] = ("cases = API histories generated from the RawDecoder model (BFS transition cover + random walks) x (pixel format, "
                       "offset, payload seed), each replayed on the real decoder with frames from the reference transmitter; distinct by "
                       "driver script; non-trivial = at least one frame carries a signal. The waveform clause is decided on the sampled "
                       "grid of rates/formats/offsets only (continuous space, never exhaustive)")
    ctx.assumptions += ["the reference transmitter src/io-sim.c renders the nominal waveforms of the standards (it is the transmitter; "
                        "sanitizer reports inside io-sim.c are ignored)",
                        "bit slicer abstraction in the model: a job succeeds on a row iff the row carries its waveform; the replay "
                        "confirms or refutes it on every generated frame",
                        "sampling configurations within 100 ns of an admission limit are not used (integer ns arithmetic in the model)"]
    drv = build.build_driver("drv_rawsvc")
    lib = core.run_seq_driver([drv], [["T"]], env=build.san_env())[0]["lines"][0]
    formats = lib["formats"]
    # ---- exhaustive model checking
    for cfg, to in ([("MC_RawDecoder_q", 900), ("MC_RawDecoder_nq", 900)] if quick else
                    [("MC_RawDecoder_t", 3000), ("MC_RawDecoder_rates", 2400), ("MC_RawDecoder_n", 2400), ("MC_RawDecoder_all", 2400)]):
        r = tlc.run("MC_RawDecoder", cfg, timeout=to, coverage=False, heap="8g", workers=8)
        ctx.add_mc(r, cfg)
        if r.violation:
            ctx.violate("mc", "mc:%s:%s" % (r.violation["kind"], r.violation["name"]), r.violation["text"][:3000])
    if not quick:
        # the model of the code as found (Fixed = FALSE) must still show the three repaired defects
        for cfg, want in (("MC_RawDecoder_orig_marker", "ACompleteP"), ("MC_RawDecoder_orig_sibling", "ACompleteP"),
                          ("MC_RawDecoder_orig_lines", "SearchedOnOwnLines")):
            r = tlc.run("MC_RawDecoder", cfg, timeout=900, heap="4g", workers=8)
            if not r.violation or r.violation["name"] != want:
                raise tlc.ToolFailure("%s no longer violates %s: %s" % (cfg, want, r.violation))
            ctx.notes.append("as-found model %s: %s violated as expected (defect repaired in /repo)" % (cfg, want))
    # ---- behaviours; the sampling rates of this run go to TLC
    rates = rates_for(ctx, quick)
    rfile = os.path.join(ctx.scratch, "rates.json")
    json.dump([list(x) for x in rates], open(rfile, "w"))
    bfs_rates = os.path.join(ctx.scratch, "rates-bfs.json")
    rr = random.Random(ctx.seed)
    nfix = len(FIXED_RATES)
    sub = [rates[0], rr.choice(rates[1:nfix]), rates[nfix], rates[-1]]
    if not quick:
        sub += [r for r in rates[1:nfix] if r not in sub][:2] + [rates[nfix + 1], rates[nfix + 2]]
    json.dump([list(x) for x in sub], open(bfs_rates, "w"))
    tab_checked = False
    total = 0
    plan = [("Gen_RawDecoder_q", bfs_rates, None, 1 if quick else 2), ("Gen_RawDecoder_nq", bfs_rates, None, 1 if quick else 2),
            ("Gen_RawDecoder_sim", rfile, 30 if quick else 400, 2 if quick else 6),
            ("Gen_RawDecoder_nsim", rfile, 15 if quick else 250, 2 if quick else 6)]
    for cfg, rf, walks, variants in plan:
        kw = dict(simulate=walks, depth=11, seed=ctx.seed, extra=["-generate"]) if walks else dict(seed=ctx.seed)
        g = gen(ctx, cfg, {"C04_RATES": rf}, cfg, **kw)
        if not tab_checked:
            check_table(ctx, spec_table(g.out), lib)
            tab_checked = True
        behs = g.tr
        if quick and not walks and len(behs) > 2500:
            behs = [b for i, b in enumerate(behs) if i % ((len(behs) + 2499) // 2500) == ctx.seed % ((len(behs) + 2499) // 2500)]
        total += run_set(ctx, drv, behs, formats, cfg, variants, ctx.seed * 31 + len(cfg))
    ctx.cov["exhaustive"] = False
    ctx.cov["grid"] = dict(rates=[list(x) for x in rates], formats=len(formats), replays=total)


def replay(ctx, rp):
    drv = build.build_driver("drv_rawsvc")
    r = rp["replay"]
    c = concretise(r["beh"], r["fmt"], r["bpp"], r["mode"], r["seed"])
    res = core.run_seq_driver([drv], [c[0]], env=build.san_env())[0]
    for l, g in zip(c[0], res["lines"]):
        print(l[:200], "->", json.dumps(g)[:600])
    if res["stderr"]:
        sanitizers(ctx, res["stderr"], r)
    bad = compare(c[1], res["lines"])
    if bad and not ctx.violations:
        ctx.violate("replay", bad[1], bad[2], r)


def selftest(ctx):
    """corrupt one field of generated behaviours (returned set, record line, record id, pattern slot, an expected record dropped)
    and confirm that the comparison rejects each"""
    import copy
    drv = build.build_driver("drv_rawsvc")
    lib = core.run_seq_driver([drv], [["T"]], env=build.san_env())[0]["lines"][0]
    rfile = os.path.join(ctx.scratch, "rates.json")
    json.dump([[13500000, 720], [27000000, 1440]], open(rfile, "w"))
    g = gen(ctx, "Gen_RawDecoder_sim", {"C04_RATES": rfile}, "selftest", simulate=10, depth=11, seed=ctx.seed, extra=["-generate"])
    behs = [b for b in g.tr if any(st["ret"].get("recs") for st in b) and any(st["act"]["a"] == "add" and st["ret"]["set"] for st in b)]
    fmt = next(f for f in lib["formats"] if f["fmt"] == YUV420)
    ok = True

    def verdict(b):
        c = concretise(b, fmt["fmt"], fmt["bpp"], "nom", 7)
        r = core.run_seq_driver([drv], [c[0]], env=build.san_env())[0]
        return compare(c[1], r["lines"])
    clean = [b for b in behs if verdict(b) is None][:3]
    if not clean:
        print("selftest: no clean behaviour with records"); return 2
    for b in clean:
        for name in ("returned-set", "line", "id", "pattern", "dropped-record"):
            m = copy.deepcopy(b)
            st = next(s for s in m if s["ret"].get("recs"))
            ad = next(s for s in m if s["act"]["a"] == "add" and s["ret"]["set"])
            if name == "returned-set":
                ad["ret"]["set"] = ad["ret"]["set"][1:]
            elif name == "line":
                st["ret"]["recs"][0]["line"] += 1
            elif name == "id":
                st["ret"]["recs"][0]["ids"] = ["WSS"] if st["ret"]["recs"][0]["ids"] != ["WSS"] else ["VPS"]
            elif name == "pattern":
                ad["pat"][[i for i, r in enumerate(ad["pat"]) if r[0] > 0][0]][0] += 1
            else:
                st["ret"]["recs"] = st["ret"]["recs"][1:]
            v = verdict(m)
            print("selftest: corrupted %-15s -> %s" % (name, v[1] if v else "ACCEPTED"))
            ok = ok and v is not None
    return 0 if ok else 1
