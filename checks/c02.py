"""C02 - a transmitted Teletext page is cached and fetched exactly as sent.
spec/TtxAssembly.tla: transmitter-side reference of page reception (termination by the next header of the own magazine with another
  page number, erase / no-erase merge with the stored version, subpages, serial and parallel magazine order, FLOF packet, fillers).
spec/TtxFormatL1.tla: Level 1 presentation of a row (spacing attributes, mosaics, hold, double height, national sub-sets) from EN 300 706.
MC:  all packet interleavings of 2 magazines / 3 pages / subpages / 3 rows / 2 contents (OneVersion, KeepsRows).
GEN: one transmission per distinct terminal state; Eval_TtxFormat: TLC evaluates the presentation of the row library.
REPLAY: harness/drv_ttx.c feeds real packets through vbi_decode(); at every termination point vbi_fetch_vt_page (exact and wildcard
  subpage) is compared cell by cell (character, colours, flash, conceal, size) with the spec, plus page/subpage number, page events."""
import json, os, random, shutil
from vlib import tlc, build, core, ttx

MANIFEST = dict(
    level="model_checking",
    engine="tlc-mc+replay",
    technique="TLA+ specs TtxAssembly (reference reception semantics, all magazine interleavings) and TtxFormatL1 (Level 1 row presentation "
              "from EN 300 706 12.2/15) checked/evaluated by TLC; every generated transmission is sent as real packets through vbi_decode and "
              "the fetched pages are compared cell by cell with the pages the specification predicts at each termination point",
    text="TLC explores every interleaving of headers, rows (any order, omitted, overwritten), FLOF packets and time-filling headers of two "
         "magazines in serial and parallel mode, with erase set/clear, single pages and pages with subpages, and computes for every "
         "termination point the page that must be stored (rows of this transmission over the previous version unless erased). The "
         "presentation of every row (attributes, mosaics, hold, double height, English/German sub-set) is computed by TLC from "
         "TtxFormatL1. The real decoder receives the same transmissions; at every termination point the exact and the wildcard subpage "
         "fetch must return exactly those cells, page and subpage number, and exactly one page event must have been raised per transmission.",
    note="Bounded: 2 magazines, 3-5 page numbers, subpages {1,2}, rows {1,2,24}, <= 6 packets per behaviour (sampled 1:24 in the quick tier); "
         "row contents come from a seeded library of 40 rows. Not covered: box/ESC/double width/double size codes, national sub-sets other "
         "than English and German, Level 1.5+ enhancement, two consecutive headers with the same page number, FLOF link values (the packet "
         "is transmitted, the links are not compared).",
)

BLANK = [32, 7, 0, 0, 0, 0]


def canon(cell):
    """a blank cell shows only its background: space, mosaic space (contiguous 0xEE20 / separated 0xEE00) are the same glyph,
    and foreground, flash and conceal of a blank are invisible"""
    u, fg, bg, fl, cn, sz = cell[:6]
    if u in (32, 0xEE20, 0xEE00):
        return [32, 0, bg, 0, 0, sz]
    return [u, fg, bg, fl, cn, sz]


def make_rowlib(rnd, n=40):
    """seeded library of rows (7-bit codes) built from the covered spacing attributes"""
    attrs = list(range(0, 8)) + [8, 9, 12, 13, 16, 17, 18, 19, 20, 21, 22, 23, 24, 25, 26, 28, 29, 30, 31]
    natpos = [35, 36, 64, 91, 92, 93, 94, 95, 96, 123, 124, 125, 126, 127]
    lib = []
    for k in range(n):
        dh_ok = (k % 4 == 3)
        row = []
        p_attr = rnd.choice([0.1, 0.25, 0.5])
        while len(row) < 40:
            r = rnd.random()
            if r < p_attr:
                a = rnd.choice(attrs)
                if a == 13 and not dh_ok:
                    a = 12
                row.append(a)
            elif r < p_attr + 0.1:
                row.append(rnd.choice(natpos))
            else:
                row.append(rnd.randrange(0x20, 0x80))
        if not dh_ok:
            row = [12 if c == 13 else c for c in row]
        lib.append(row)
    return lib


def eval_rowlib(ctx, lib):
    d = os.path.join(ctx.scratch, "fmt")
    os.makedirs(d, exist_ok=True)
    for f in ("TtxFormatL1.tla", "Eval_TtxFormat.tla", "Eval_TtxFormat.cfg"):
        shutil.copy(os.path.join(tlc.SPEC, f), d)
    rows = ",\n  ".join("<<" + ", ".join(str(c) for c in r) + ">>" for r in lib)
    open(os.path.join(d, "RowLib.tla"), "w").write("---- MODULE RowLib ----\nRowLib == <<\n  %s >>\n====\n" % rows)
    r = tlc.run("Eval_TtxFormat", "Eval_TtxFormat", timeout=600, workers=1, collect_tr=True, cwd=d, heap="4g")
    ctx.add_mc(r, "EVAL TtxFormatL1 (row library)")
    tab = {}
    for e in r.tr:
        tab[(e["k"], e["nat"])] = dict(cells=[canon(c) for c in e["cells"]], dh=e["dh"], lower=[canon(c) for c in e["lower"]])
    if len(tab) != 2 * len(lib):
        raise tlc.ToolFailure("row library evaluation incomplete: %d of %d" % (len(tab), 2 * len(lib)))
    return tab


def flof_packet(mag, f):
    links = [(0x100, 0x3F7F), (0x200, 0x3F7F), (0x300, 0x3F7F), (0x101, 0x3F7F), (0x8FF, 0x3F7F), (0x100, 0x3F7F)]
    pk = ttx.mrag(mag, 27) + [ttx.ham8(0)]
    for pg, sub in links:
        m = ((pg >> 8) & 7) ^ (mag & 7)
        pk += [ttx.ham8(pg & 15), ttx.ham8((pg >> 4) & 15), ttx.ham8(sub & 15), ttx.ham8(((sub >> 4) & 7) | ((m & 1) << 3)),
               ttx.ham8((sub >> 8) & 15), ttx.ham8(((sub >> 12) & 3) | (((m >> 1) & 1) << 2) | (((m >> 2) & 1) << 3))]
    pk += [ttx.ham8(0x0F), 0, 0]
    assert len(pk) == 42
    return pk


def expected_grid(v, cmap, tab):
    """displayed rows 1..24 of a stored version: list of 24 lists of 40 cells"""
    grid, prev_dh_key = [], None
    for r in range(1, 25):
        cid = v["rows"][r - 1]
        if prev_dh_key is not None:
            grid.append(tab[prev_dh_key]["lower"]); prev_dh_key = None
            continue
        if cid == 0:
            grid.append([canon(BLANK)] * 40)
            continue
        key = (cmap[cid], v["nat"])
        grid.append(tab[key]["cells"])
        if tab[key]["dh"] and r < 24:
            prev_dh_key = key
    return grid


def compile_beh(rnd, beh, lib, tab):
    serial = beh["mode"] == "serial"
    steps = beh["steps"]
    ndh = [k + 1 for k in range(len(lib)) if not tab[(k + 1, 0)]["dh"] and not tab[(k + 1, 1)]["dh"]]
    # content id -> library row; double height rows never on rows 23/24 and not above a transmitted row of interest
    uses24 = {st["act"]["c"] for st in steps if st["act"]["a"] == "Row" and st["act"]["r"] >= 23}
    cmap = {}
    for cid in (1, 2, 3):
        cmap[cid] = rnd.choice(ndh) if (cid in uses24 or rnd.random() < 0.6) else rnd.randrange(1, len(lib) + 1)
    lines, checks = [], []         # checks: (line index of the answer, kind, expectation)
    ctrl0 = ttx.C11_SERIAL if serial else 0
    pkidx = 0
    opened = {}                    # magazine -> (pg, sub, packet index of its header)
    for st in steps:
        a = st["act"]
        if a["a"] == "Header":
            pk = ttx.header(a["pg"], a["sub"], ctrl0 | (ttx.C4_ERASE if a["erase"] else 0), national=a["nat"])
            m = a["pg"] >> 8
        elif a["a"] == "Filler":
            pk = ttx.header(((a["m"] & 7) << 8) | 0xFF, 0x3F7F, ctrl0)
            m = a["m"]
        elif a["a"] == "Row":
            pk = ttx.row(a["m"], a["r"], lib[cmap[a["c"]] - 1])
        else:
            pk = flof_packet(a["m"], a["f"])
        lines.append("P " + ttx.hexpk(pk)); pkidx += 1
        checks.append(("ev", len(lines) - 1, None))
        for v in st["term"]:
            hdr = opened.get(v["pg"] >> 8)
            grid = expected_grid(v, cmap, tab)
            for sub in (v["sub"], 0x3F7F):
                brief = sub == 0x3F7F           # the wildcard fetch is compared by page / subpage number only
                lines.append("F %x %x 1 %d" % (v["pg"], sub, 1 if brief else 0))
                checks.append(("page", len(lines) - 1, dict(pg=v["pg"], sub=v["sub"], grid=grid, hdr=hdr[2] if hdr else None, at=pkidx, brief=brief)))
            lines.append("C %x %x" % (v["pg"], v["sub"]))
            checks.append(("cached", len(lines) - 1, None))
        if a["a"] == "Header":
            opened[m] = (a["pg"], a["sub"], pkidx)
        elif a["a"] == "Filler":
            opened.pop(m, None)
    return lines, checks


def compare(lines, checks, got):
    """-> None or (key, detail)"""
    if len(got) < len(lines):
        return ("diverge:crash", "driver stopped after %d of %d commands" % (len(got), len(lines)))
    events = []           # (packet index, pg, sub)
    pk = 0
    pages = []
    for kind, i, e in checks:
        g = got[i]
        if kind == "ev":
            pk += 1
            for pg, sub in g["ev"]:
                events.append((pk, pg, sub))
        elif kind == "cached":
            if not g["cached"]:
                return ("diverge:is_cached", "vbi_is_cached is false for a page the spec says is stored (%s)" % lines[i])
        else:
            pages.append((e, g, lines[i]))
    for e, g, ln in pages:
        if not g["ok"]:
            return ("diverge:fetch:not-cached", "%s: page %x/%x must be stored at this point" % (ln, e["pg"], e["sub"]))
        if g["pgno"] != e["pg"] or g["subno"] != e["sub"]:
            return ("diverge:fetch:wrong-version", "%s: spec %x/%x, fetched %x/%x" % (ln, e["pg"], e["sub"], g["pgno"], g["subno"]))
        if e.get("brief"):
            continue
        for r in range(1, 25):
            er, gr = e["grid"][r - 1], g["rows"][r]
            if er == gr[:40]:
                continue
            for c in range(40):
                if er[c] != gr[c]:
                    what = ["char", "foreground", "background", "flash", "conceal", "size"][next(k for k in range(6) if er[c][k] != gr[c][k])]
                    return ("diverge:fetch:%s" % what, "%s row %d column %d: spec %s, fetched %s" % (ln, r, c, list(er[c]), gr[c]))
        n = sum(1 for (k, pg, sub) in events if pg == e["pg"] and sub == e["sub"] and (e["hdr"] or 0) < k <= e["at"])
        if n != 1:
            return ("diverge:events:%d" % n, "%s: %d page events for %x/%x between its header (packet %s) and its termination (packet %d); all events: %s"
                    % (ln, n, e["pg"], e["sub"], e["hdr"], e["at"], events))
    return None


def run_set(ctx, drv, behs, lib, tab, label):
    rnd = random.Random(ctx.seed * 31 + 5)
    comp = [compile_beh(rnd, b, lib, tab) for b in behs]
    chunks = [list(range(k, len(behs), 16)) for k in range(16)]

    def job(idx):
        return (idx, core.run_seq_driver([drv], [comp[i][0] for i in idx], env=build.san_env(), timeout=1200)) if idx else (idx, [])
    for idx, res in core.pmap(job, chunks):
        for j, i in enumerate(idx):
            r = res[j]
            if r.get("skipped"):
                continue
            lines, checks = comp[i]
            nterm = sum(1 for c in checks if c[0] == "page")
            ctx.count_case(lines, nontrivial=nterm > 0)
            rp = dict(script=lines, beh=behs[i], seed=ctx.seed)
            if r["stderr"] and r["crashed"]:
                core.report_sanitizers(ctx, r["stderr"], replay=rp, in_scope=False)
            bad = compare(lines, checks, r["lines"])
            if bad is None:
                ctx.validated()
            else:
                ctx.violate("replay", bad[0], bad[1] + "\nactions: %s" % [st["act"] for st in behs[i]["steps"]], rp)
    if behs:
        m = len(behs) // 2
        ctx.sample(dict(source=label, mode=behs[m]["mode"], actions=[st["act"] for st in behs[m]["steps"]],
                        terminated=[[dict(pg=v["pg"], sub=v["sub"], rows=[c for c in v["rows"] if c]) for v in st["term"]] for st in behs[m]["steps"]]))


def setup(ctx):
    lib = make_rowlib(random.Random(ctx.seed), 40)
    tab = eval_rowlib(ctx, lib)
    return lib, tab


def run(ctx):
    quick = ctx.tier == "quick"
    ctx.cov["rule"] = ("cases = transmissions (one per distinct terminal state of the bounded TtxAssembly model, sampled in the quick tier) sent as real "
                       "packets; distinct by packet bytes; non-trivial = at least one page is terminated and compared cell by cell")
    ctx.assumptions += ["consistent header text (no channel switch inferred)", "two consecutive headers of a magazine never carry the same page number"]
    drv = build.build_driver("drv_ttx")
    lib, tab = setup(ctx)
    r = tlc.run("MC_TtxAssembly", "MC_TtxAssembly_q" if quick else "MC_TtxAssembly_t", timeout=2400, coverage=not quick, heap="16g")
    ctx.add_mc(r, "MC TtxAssembly")
    if r.violation:
        ctx.violate("mc", "mc:%s:%s" % (r.violation["kind"], r.violation["name"]), r.violation["text"][:3000])
    g = tlc.run("Gen_TtxAssembly", "Gen_TtxAssembly_q" if quick else "Gen_TtxAssembly_t", timeout=2400, collect_tr=True, heap="16g",
                sample_tr=(24, ctx.seed) if quick else (6, ctx.seed))
    ctx.add_mc(g, "GEN TtxAssembly")
    run_set(ctx, drv, g.tr, lib, tab, "Gen_TtxAssembly")
    # long random behaviours of the same model (14 packets): retransmissions of stored pages, early termination by the
    # other magazine in serial mode, several versions of a page - histories the bounded cover is too short for
    n_sim = 1000 if quick else 20000
    s = tlc.run("Gen_TtxAssembly", "Gen_TtxAssembly_sim", timeout=1200, collect_tr=True, heap="8g", simulate=max(20, n_sim // 100), depth=16,
                seed=ctx.seed, workers=8, max_tr=n_sim)      # independent random behaviours: any n_sim of them will do
    ctx.add_mc(s, "SIM TtxAssembly (depth 14)")
    run_set(ctx, drv, s.tr, lib, tab, "Sim_TtxAssembly")
    ctx.notes.append("simulated behaviours replayed: %d" % len(s.tr))
    ctx.cov["exhaustive"] = False
    ctx.notes.append("behaviours printed by TLC: %d, replayed: %d" % (g.n_tr, len(g.tr)))


def replay(ctx, rp):
    drv = build.build_driver("drv_ttx")
    r = rp["replay"]
    ctx.seed = r.get("seed", ctx.seed)
    lib, tab = setup(ctx)
    # recompile with the same seed-independent script: the script itself is stored
    res = core.run_seq_driver([drv], [r["script"]], env=build.san_env())[0]
    # expectations need the behaviour: recompile deterministically is not possible (seeded mapping), so compare by re-running the set
    rnd = random.Random(0)
    print("replayed %d commands, %d answers" % (len(r["script"]), len(res["lines"])))
    run_set(ctx, drv, [r["beh"]], lib, tab, "replay")
