"""C02 - a transmitted Teletext page is cached and fetched exactly as sent.
spec/TtxAssembly.tla: transmitter-side reference of page reception (termination by the next header of the own magazine with another
  page number, erase / no-erase merge with the stored version, subpages, serial and parallel magazine order, FLOF packet, fillers).
spec/TtxFormatL1.tla: Level 1 presentation of a row (spacing attributes, mosaics, hold, double height, national sub-sets) from EN 300 706.
MC:  all packet interleavings of 2 magazines / 3 pages / subpages / 3 rows / 2 contents (OneVersion, KeepsRows).
GEN: one transmission per distinct terminal state; Eval_TtxFormat: TLC evaluates the presentation of the row library.
REPLAY: harness/drv_ttx.c feeds real packets through vbi_decode(); at every termination point vbi_fetch_vt_page (exact and wildcard
  subpage) is compared cell by cell (character, colours, flash, conceal, size) with the spec, plus page/subpage number, page events.
spec/TtxFlof.tla (third round): the links of X/27/0 (magazine of a link = magazine of the page XOR relative bits, FF = no page) for every
  magazine 1..8 of the linking page, and which row 24 a fetch with 24 / 25 rows, navigation on / off displays; Eval_TtxFlof prints both.
spec/Gen_TtxRetx.tla: transition cover of retransmissions of a stored page (erase set / clear, with / without row 24 and links)."""
import json, os, random, shutil
from vlib import tlc, build, core, ttx

MANIFEST = dict(
    level="model_checking",
    engine="tlc-mc+replay",
    technique="TLA+ specs TtxAssembly (reference reception semantics, all magazine interleavings) and TtxFormatL1 (Level 1 row presentation "
              "from EN 300 706 12.2/15: all 32 spacing attributes) and TtxFlof (X/27/0 links relative to the magazine of the page, row 24 "
              "per fetch variant) checked/evaluated by TLC; every generated transmission is sent as real "
              "packets through vbi_decode and the fetched pages (cells, FLOF links; 24 / 25 display rows, navigation on / off) are compared "
              "with the pages the specification predicts at each termination point",
    text="TLC explores every interleaving of headers, rows (any order, omitted, overwritten), FLOF packets and time-filling headers of two "
         "magazines in serial and parallel mode, with erase set/clear, single pages and pages with subpages, and computes for every "
         "termination point the page that must be stored (rows and links of this transmission over the previous version unless erased). The "
         "presentation of every row - character through the English/German sub-set, colours, flash, conceal, contiguous/separated and "
         "held mosaics, normal/double height/double width/double size incl. the covered position and the row below, boxing - is computed "
         "by TLC from TtxFormatL1 for a row library that pairs every one of the 32 spacing attributes with hold mosaics on/off in mosaics "
         "and alphanumerics mode behind a mosaic character (Set-At shows in the attribute's cell, Set-After in the next; the held character "
         "is reset by a change of mode or size). The real decoder receives the same transmissions; at every termination point the exact "
         "and the wildcard subpage fetch must return exactly those cells, page and subpage number and the transmitted FLOF links "
         "(nav_link), and exactly one page event must have been raised per transmission. The model's two magazines are sent as every "
         "ordered pair of real magazines 1..8; TLC (TtxFlof) computes for every magazine of the linking page the links as transmitted "
         "(relative magazine bits 0..7 in every link position, page FF = no link, subcode 3F7F) and the links the fetch must offer. A "
         "transition cover of retransmissions (Gen_TtxRetx) sends a stored page again with erase set / clear and with all, some or none "
         "of its rows and links; every terminated version is fetched with 25 and 24 display rows, navigation off and on: rows 1-23 must "
         "be the same, a row 24 the version holds (also one kept from an earlier transmission) must be displayed as transmitted.",
    note="Bounded: 2 magazines, 3-5 page numbers, subpages {1,2}, rows {1,2,24}, <= 6 packets per behaviour of the exhaustive cover (every "
         "20th behaviour replayed; quick: 5 packets, rows {1,24}, every 96th) and 14 packets per random transmission; row contents come from a library of "
         "128 systematic + 40 seeded rows. Not covered: national sub-sets other than English and German, a second G0 set (ESC without "
         "X/28), Level 1.5+ enhancement, two consecutive headers with the same page number, double height/size on rows 23/24 or without "
         "a cell to govern, double width characters in column 39 (EN 300 706 12.2 leaves these open), pages with newsflash/subtitle flags, "
         "the content of a row 24 the decoder generates itself when none was transmitted and navigation is on (TtxFlof: GeneratedRow24), "
         "links to hexadecimal page numbers, X/27/0 with link control 'row 24 not displayed'.",
)

QUICK_SAMPLE = 96          # quick tier: every 96th behaviour of the bounded cover (196 544, 5 packets) is replayed
QUICK_RETX = 2             # quick tier: every 2nd transmission of the retransmission cover (3 728) is replayed
THOROUGH_SAMPLE = 20       # thorough tier: every 20th behaviour of the bounded cover (2 497 312, 6 packets)
BLANK = [32, 7, 0, 0, 0, 0, 0]
FIELDS = ["char", "foreground", "background", "flash", "conceal", "size", "boxed"]
# fetch variants besides the plain one (Level 1, 25 rows, navigation off): (level, display rows, navigation)
VARIANTS = [(15, 25, 1), (1, 24, 0), (15, 24, 1)]


def canon(cell):
    """a blank cell shows only its background: space, mosaic space (contiguous 0xEE20 / separated 0xEE00) are the same glyph,
    and foreground, flash and conceal of a blank are invisible (six fields: the projection C03 compares)"""
    u, fg, bg, fl, cn, sz = cell[:6]
    if u in (32, 0xEE20, 0xEE00):
        return [32, 0, bg, 0, 0, sz]
    return [u, fg, bg, fl, cn, sz]


def canon7(cell):
    """canon() plus boxed (0 / 1)"""
    return canon(cell) + [cell[6] if len(cell) > 6 else 0]


BLANK40 = [canon7([32, 7, 0, 0, 0, 0, 0])] * 40


# libzvbi's representation of the opacity of a Level 1 page without newsflash / subtitle / inhibit flags (format.h): a cell
# outside a box is VBI_OPAQUE (3), inside a box VBI_SEMI_TRANSPARENT (2)
OPACITY_BOXED = {3: 0, 2: 1}

MOSAICS = list(range(0x21, 0x40)) + list(range(0x60, 0x80))       # mosaic characters with at least one element set
LETTERS = list(range(0x41, 0x5B)) + list(range(0x61, 0x7B))
NATPOS = [35, 36, 64, 91, 92, 93, 94, 95, 96, 123, 124, 125, 126, 127]
NEUTRAL = [0x09, 0x19, 0x1B]            # steady, contiguous mosaics, ESC: displayed like every attribute, (almost) no effect
SIZES = (0x0D, 0x0E, 0x0F)


def finish_row(row, rnd, fill_attrs, p_attr=0.2):
    """random text / mosaics / attributes up to column 37, then normal size and a letter: the transmitter returns to normal
    size before the end of the row"""
    while len(row) < 38:
        r = rnd.random()
        if r < p_attr:
            row.append(rnd.choice(fill_attrs))
        elif r < p_attr + 0.08:
            row.append(rnd.choice(NATPOS))
        elif r < p_attr + 0.4:
            row.append(rnd.choice(MOSAICS))
        else:
            row.append(rnd.randrange(0x20, 0x80))
    return row[:38] + [0x0C, rnd.choice(LETTERS)]


def systematic_row(rnd, a, hold, mosaic):
    """the spacing attribute a paired with hold mosaics on / off, in mosaics / alphanumerics mode behind a mosaic character:
    a followed by a neutral attribute (is the held character still there?), by a character, by itself; then the same with the
    other hold state (12.2: Set-At shows in the attribute's own cell, Set-After in the next)"""
    mc = lambda: 0x10 + rnd.randrange(1, 8)
    row = [mc(), rnd.choice(MOSAICS), rnd.choice(MOSAICS)]
    if not mosaic:
        row += [rnd.randrange(1, 8), rnd.choice(LETTERS)]
    ch = (lambda: rnd.choice(MOSAICS)) if mosaic else (lambda: rnd.choice(LETTERS))
    if hold:
        row.append(0x1E)
    row += [a, rnd.choice(NEUTRAL), ch(), a, a, rnd.choice(NEUTRAL), ch(), rnd.choice(LETTERS)]
    row += [0x1F if hold else 0x1E, 0x0C, mc(), rnd.choice(MOSAICS), a, rnd.choice(NEUTRAL), rnd.choice(range(32)), rnd.choice(MOSAICS),
            a, rnd.choice(MOSAICS), rnd.choice(NEUTRAL)]
    fill = [x for x in range(32) if x not in SIZES] + ([a] * 4 if a in SIZES else [])
    return finish_row(row, rnd, fill)


def make_rowlib(rnd, n=40):
    """library of rows (7-bit codes): (1) every spacing attribute 0x00..0x1F x hold mosaics on / off x mosaics / alphanumerics
    mode behind a mosaic character (128 rows), (2) n seeded random rows over all 32 attributes"""
    lib = []
    for a in range(32):
        for hold in (True, False):
            for mosaic in (True, False):
                lib.append(systematic_row(rnd, a, hold, mosaic))
    for k in range(n):
        tall_ok = (k % 4 == 3)
        attrs = [x for x in range(32) if tall_ok or x not in (0x0D, 0x0F)]
        row = []
        p_attr = rnd.choice([0.1, 0.25, 0.5])
        while len(row) < 40:
            r = rnd.random()
            if r < p_attr:
                row.append(rnd.choice(attrs))
            elif r < p_attr + 0.1:
                row.append(rnd.choice(NATPOS))
            else:
                row.append(rnd.randrange(0x20, 0x80))
        if any(c in (0x0E, 0x0F) for c in row):
            row[38:40] = [0x0C, rnd.choice(LETTERS)]
        lib.append(row)
    return lib


def eval_rowlib(ctx, lib, extra=()):
    """TLC evaluates TtxFormatL1 over the candidate rows; rows 12.2 leaves open (Eval_TtxFormat: amb) are dropped.
    -> (lib, tab, raw): rows kept (+ extra rows, e.g. a blank one), canonical seven-field cells / TLC's cells keyed (k, nat), k = 1.."""
    cand = list(lib) + [list(r) for r in extra]
    d = os.path.join(ctx.scratch, "fmt")
    os.makedirs(d, exist_ok=True)
    for f in ("TtxFormatL1.tla", "Eval_TtxFormat.tla", "Eval_TtxFormat.cfg"):
        shutil.copy(os.path.join(tlc.SPEC, f), d)
    rows = ",\n  ".join("<<" + ", ".join(str(c) for c in r) + ">>" for r in cand)
    open(os.path.join(d, "RowLib.tla"), "w").write("---- MODULE RowLib ----\nRowLib == <<\n  %s >>\n====\n" % rows)
    r = tlc.run("Eval_TtxFormat", "Eval_TtxFormat", timeout=600, workers=1, collect_tr=True, cwd=d, heap="4g")
    ctx.add_mc(r, "EVAL TtxFormatL1 (row library)")
    ent = {(e["k"], e["nat"]): e for e in r.tr}
    if len(ent) != 2 * len(cand):
        raise tlc.ToolFailure("row library evaluation incomplete: %d of %d" % (len(ent), 2 * len(cand)))
    keep = [k for k in range(1, len(cand) + 1) if not (ent[(k, 0)]["amb"] or ent[(k, 1)]["amb"])]
    out, tab, raw = [], {}, {}
    for new, k in enumerate(keep, 1):
        out.append(cand[k - 1])
        for nat in (0, 1):
            e = ent[(k, nat)]
            tab[(new, nat)] = dict(cells=[canon7(c) for c in e["cells"]], dh=e["dh"], sized=e["sized"], lower=[canon7(c) for c in e["lower"]])
            raw[(new, nat)] = dict(cells=[list(c) for c in e["cells"]], dh=e["dh"], sized=e["sized"], lower=[list(c) for c in e["lower"]])
    ctx.notes.append("row library: %d rows evaluated by TLC, %d kept (%d with a double height / size attribute that governs no cell dropped)"
                     % (len(cand), len(out), len(cand) - len(out)))
    return out, tab, raw


class RowPicker:
    """content id -> library row: cycles through the library so that every row is transmitted; rows with double height / double
    size characters (the row below is not displayed) only where the caller allows them"""
    def __init__(self, rnd, lib, tab):
        self.rnd = rnd
        self.flat = [k + 1 for k in range(len(lib)) if not tab[(k + 1, 0)]["dh"] and not tab[(k + 1, 1)]["dh"]]
        self.tall = [k + 1 for k in range(len(lib)) if (k + 1) not in set(self.flat)]
        rnd.shuffle(self.flat); rnd.shuffle(self.tall)
        self.i = self.j = 0
        self.used = set()

    def pick(self, tall_ok):
        if tall_ok and self.tall and self.rnd.random() < 0.4:
            self.j += 1
            k = self.tall[self.j % len(self.tall)]
        else:
            self.i += 1
            k = self.flat[self.i % len(self.flat)]
        self.used.add(k)
        return k


# link sets of X/27/0: six links (page number, subcode) per set id; 0x8FF = no link (EN 300 706 9.6.1)
LINKSETS = {1: [(0x100, 0x3F7F), (0x200, 0x3F7F), (0x300, 0x3F7F), (0x101, 0x3F7F), (0x8FF, 0x3F7F), (0x100, 0x3F7F)],
            2: [(0x111, 0x0001), (0x222, 0x3F7F), (0x333, 0x0002), (0x444, 0x3F7F), (0x555, 0x3F7F), (0x777, 0x0003)]}


def flof_packet(mag, f):
    """X/27/0: designation 0, six links (EN 300 706 9.6.1: page units / tens, S1, S2 + M1, S3, S4 + M2 M3; the magazine bits are
    relative to the packet's magazine), link control byte 0xF (row 24 displayed), CRC not transmitted (0)"""
    links = LINKSETS[f]
    pk = ttx.mrag(mag, 27) + [ttx.ham8(0)]
    for pg, sub in links:
        m = ((pg >> 8) & 7) ^ (mag & 7)
        pk += [ttx.ham8(pg & 15), ttx.ham8((pg >> 4) & 15), ttx.ham8(sub & 15), ttx.ham8(((sub >> 4) & 7) | ((m & 1) << 3)),
               ttx.ham8((sub >> 8) & 15), ttx.ham8(((sub >> 12) & 3) | (((m >> 1) & 1) << 2) | (((m >> 2) & 1) << 3))]
    pk += [ttx.ham8(0x0F), 0, 0]
    assert len(pk) == 42
    return pk


def eval_flof(ctx):
    """TLC evaluates TtxFlof: -> dict(links={(M, f, v): dict(raw=[[units, tens, rel, sub] x 6], want=[(pgno, subcode) x 6])},
    r24={(own, flof, nrows, nav): "absent" | "own" | "blank" | "open"})"""
    r = tlc.run("Eval_TtxFlof", "Eval_TtxFlof", timeout=300, workers=1, collect_tr=True, heap="1g")
    ctx.add_mc(r, "EVAL TtxFlof (links of every magazine, row 24 rule)")
    links = {(e["M"], e["f"], e["v"]): dict(raw=[list(x) for x in e["raw"]], want=[tuple(x) for x in e["want"]]) for e in r.tr if "M" in e}
    r24 = {(e["own"], e["flof"], e["nrows"], e["nav"]): e["row24"] for e in r.tr if "row24" in e}
    if len(links) != 8 * 2 * 8 or len(r24) != 16:
        raise tlc.ToolFailure("TtxFlof evaluation incomplete: %d link sets, %d row 24 entries" % (len(links), len(r24)))
    return dict(links=links, r24=r24)


def flof_packet_raw(mag, raw):
    """X/27/0 from the link fields the spec prints (TtxFlof!RawLink: units, tens, relative magazine bits, subcode): designation 0,
    six links (EN 300 706 9.6.1: page units / tens, S1, S2 + M1, S3, S4 + M2 M3), link control 0xF (row 24 displayed), CRC 0"""
    pk = ttx.mrag(mag, 27) + [ttx.ham8(0)]
    for units, tens, m, sub in raw:
        pk += [ttx.ham8(units), ttx.ham8(tens), ttx.ham8(sub & 15), ttx.ham8(((sub >> 4) & 7) | ((m & 1) << 3)),
               ttx.ham8((sub >> 8) & 15), ttx.ham8(((sub >> 12) & 3) | (((m >> 1) & 1) << 2) | (((m >> 2) & 1) << 3))]
    pk += [ttx.ham8(0x0F), 0, 0]
    assert len(pk) == 42
    return pk


class Concretiser:
    """the model's magazines 1, 2 are names (TtxAssembly uses a magazine only through MagOf): per transmission they become two
    different real magazines 1..8, and a variant 0..7 of the link sets is chosen (TtxFlof!LinkSet); cycles through all
    8 x 7 x 8 combinations"""
    def __init__(self, rnd):
        self.i = rnd.randrange(448)
        self.seen = set()

    def pick(self):
        i = self.i = self.i + 1
        m1 = i % 8 + 1
        m2 = (m1 - 1 + (i // 8) % 7 + 1) % 8 + 1
        v = (i + i // 8 + i // 56) % 8
        self.seen.add((m1, v)); self.seen.add((m2, v))
        return dict(mm={1: m1, 2: m2}, v=v)


def rowhex(cells):
    """canonical seven-field cells -> the compact form of the driver's G answer (opacity: boxed 2, else 3)"""
    return "".join("%04x%02x%02x%x%x%x%x" % (u, fg, bg, fl, cn, sz, 2 if bx else 3) for (u, fg, bg, fl, cn, sz, bx) in cells)


_HEX = {}


def rowhex_of(cells):
    h = _HEX.get(id(cells))
    if h is None or h[0] is not cells:
        h = _HEX[id(cells)] = (cells, rowhex(cells))
    return h[1]


def unhex(s, c):
    x = s[12 * c:12 * c + 12]
    return [int(x[0:4], 16), int(x[4:6], 16), int(x[6:8], 16), int(x[8], 16), int(x[9], 16), int(x[10], 16), OPACITY_BOXED.get(int(x[11], 16), 10 + int(x[11], 16))]


def expected_grid(v, cmap, tab):
    """displayed rows 1..24 of a stored version: list of 24 lists of 40 cells"""
    grid, prev_dh_key = [], None
    for r in range(1, 25):
        cid = v["rows"][r - 1]
        if prev_dh_key is not None:
            grid.append(tab[prev_dh_key]["lower"]); prev_dh_key = None
            continue
        if cid == 0:
            grid.append(BLANK40)
            continue
        key = (cmap[cid], v["nat"])
        grid.append(tab[key]["cells"])
        if tab[key]["dh"] and r < 24:
            prev_dh_key = key
    return grid


def nav_of(g):
    return [tuple(x) for x in g["nav"]]


def no_link(pgno):
    """no page: 0 / -1 (never set) or page number FF (EN 300 706: a link to page FF is no link)"""
    return pgno <= 0 or (pgno & 0xFF) == 0xFF


def compile_beh(rnd, beh, lib, tab, picker, cmap=None, flof=None, conc=None):
    """-> (script, checks, cmap); cmap: content id -> library row (given when a recorded case is replayed);
    flof: eval_flof() tables; conc: Concretiser.pick() (real magazines of the model's magazines, link set variant)"""
    serial = beh["mode"] == "serial"
    steps = beh["steps"]
    mm, fv = conc["mm"], conc["v"]
    cpg = lambda pg: (mm[pg >> 8] << 8) | (pg & 0xFF)
    if cmap is None:
        # double height / size rows never on rows 23/24
        uses24 = {st["act"]["c"] for st in steps if st["act"]["a"] == "Row" and st["act"]["r"] >= 23}
        cmap = {cid: picker.pick(cid not in uses24) for cid in (1, 2, 3)}
    lines, checks = [], []         # checks: (line index of the answer, kind, expectation)
    ctrl0 = ttx.C11_SERIAL if serial else 0
    pkidx = 0
    opened = {}                    # magazine -> (pg, sub, packet index of its header)
    for st in steps:
        a = st["act"]
        if a["a"] == "Header":
            pk = ttx.header(cpg(a["pg"]), a["sub"], ctrl0 | (ttx.C4_ERASE if a["erase"] else 0), national=a["nat"])
            m = a["pg"] >> 8
        elif a["a"] == "Filler":
            pk = ttx.header(((mm[a["m"]] & 7) << 8) | 0xFF, 0x3F7F, ctrl0)
            m = a["m"]
        elif a["a"] == "Row":
            pk = ttx.row(mm[a["m"]], a["r"], lib[cmap[a["c"]] - 1])
        else:
            pk = flof_packet_raw(mm[a["m"]], flof["links"][(mm[a["m"]], a["f"], fv)]["raw"])
        lines.append("P " + ttx.hexpk(pk)); pkidx += 1
        checks.append(("ev", len(lines) - 1, None))
        for v in st["term"]:
            hdr = opened.get(v["pg"] >> 8)
            grid = expected_grid(v, cmap, tab)
            pg = cpg(v["pg"])
            for sub in (v["sub"], 0x3F7F):
                brief = sub == 0x3F7F           # the wildcard fetch is compared by page / subpage number only
                lines.append("F %x %x 1 %d" % (pg, sub, 1 if brief else 4))
                checks.append(("page", len(lines) - 1, dict(pg=pg, sub=v["sub"], grid=grid, hdr=hdr[2] if hdr else None, at=pkidx, brief=brief)))
            lines.append("C %x %x" % (pg, v["sub"]))
            checks.append(("cached", len(lines) - 1, None))
            own24 = v["rows"][23] != 0
            want = flof["links"][(pg >> 8, v["flof"], fv)]["want"] if v["flof"] else None
            for level, nrows, nav in VARIANTS:
                # the other fetch variants: rows 1..23 as in the plain fetch, row 24 as TtxFlof!Row24 says, the links with navigation
                lines.append("G %x %x %d %d %d" % (pg, v["sub"], level, nrows, nav))
                checks.append(("var", len(lines) - 1, dict(pg=pg, sub=v["sub"], grid=grid, nrows=nrows, nav=nav, flof=v["flof"], fv=fv, want=want, row24=own24,
                                                           r24=flof["r24"][(own24, v["flof"] != 0, nrows, bool(nav))])))
        if a["a"] == "Header":
            opened[m] = (a["pg"], a["sub"], pkidx)
        elif a["a"] == "Filler":
            opened.pop(m, None)
    return lines, checks, cmap


def compare_nav(e, g, ln):
    """the FLOF links of the fetched page (vbi_page.nav_link 0..3 = the four coloured links, 5 = the index link) against the link
    set the spec says the version holds; with a transmitted row 24 only the links row 24 has a coloured text for are set"""
    if not g.get("ok"):
        return ("diverge:fetch:not-cached", "%s: page %x/%x must be stored at this point" % (ln, e["pg"], e["sub"]))
    nav = nav_of(g)
    for k in (0, 1, 2, 3, 5):
        pg, sub = nav[k]
        want = e["want"][k] if e["flof"] else None
        if want is not None and want[0] == 0:
            want = None
        if k == 5 and want is None:
            continue                                # without an index link the decoder offers the initial page of 8/30
        if want is None:
            if not no_link(pg):
                return ("diverge:links:unsent", "%s: link %d is %x/%x, the page was transmitted %s" % (ln, k, pg, sub, "without this link" if e["flof"] else "without X/27"))
        elif (pg, sub) != want:
            if e["row24"] and k < 4 and no_link(pg):
                continue
            return ("diverge:links:wrong", "%s: link %d is %x/%x, transmitted (link set %d variant %d): %x/%x" % (ln, k, pg, sub, e["flof"], e["fv"], want[0], want[1]))
    return None


def compare_var(e, g, ln):
    """a fetch variant (24 / 25 display rows, navigation on / off): rows 1..23 as the plain fetch, row 24 by TtxFlof!Row24"""
    if not g.get("ok"):
        return ("diverge:fetch:not-cached", "%s: page %x/%x must be stored at this point" % (ln, e["pg"], e["sub"]))
    if g["pgno"] != e["pg"] or g["subno"] != e["sub"]:
        return ("diverge:fetch:wrong-version", "%s: spec %x/%x, fetched %x/%x" % (ln, e["pg"], e["sub"], g["pgno"], g["subno"]))
    if g["nrows"] != e["nrows"]:
        return ("diverge:fetch:nrows", "%s: %d rows asked, %d returned" % (ln, e["nrows"], g["nrows"]))
    last = 24 if e["r24"] in ("own", "blank") else 23
    for r in range(1, last + 1):
        er = BLANK40 if (r == 24 and e["r24"] == "blank") else e["grid"][r - 1]
        eh, gh = rowhex_of(er), g["rows"][r][:480]
        if eh != gh:
            c = next(c for c in range(40) if eh[12 * c:12 * c + 12] != gh[12 * c:12 * c + 12])
            ec, gc = unhex(eh, c), unhex(gh, c)
            what = FIELDS[next(k for k in range(7) if ec[k] != gc[k])]
            return ("diverge:fetch:%s" % what, "%s (%d display rows, navigation %s) row %d column %d: spec %s%s, fetched %s"
                    % (ln, e["nrows"], "on" if e["nav"] else "off", r, c, ec, " (the row 24 this version holds, TtxFlof!Row24 = own)" if r == 24 else "", gc))
    if e["nav"] and e["nrows"] == 25:
        return compare_nav(e, g, ln)
    return None


def compare(lines, checks, got):
    """-> None or (key, detail)"""
    if len(got) < len(lines):
        return ("diverge:crash", "driver stopped after %d of %d commands" % (len(got), len(lines)))
    events = []           # (packet index, pg, sub)
    pk = 0
    pages = []
    for kind, i, e in checks:
        g = got[i]
        if kind == "ev":
            pk += 1
            for pg, sub in g["ev"]:
                events.append((pk, pg, sub))
        elif kind == "cached":
            if not g["cached"]:
                return ("diverge:is_cached", "vbi_is_cached is false for a page the spec says is stored (%s)" % lines[i])
        elif kind == "var":
            pages.append((e, g, lines[i], True))
        else:
            pages.append((e, g, lines[i], False))
    for e, g, ln, nav in pages:
        if nav:
            bad = compare_var(e, g, ln)
            if bad:
                return bad
            continue
        if not g["ok"]:
            return ("diverge:fetch:not-cached", "%s: page %x/%x must be stored at this point" % (ln, e["pg"], e["sub"]))
        if g["pgno"] != e["pg"] or g["subno"] != e["sub"]:
            return ("diverge:fetch:wrong-version", "%s: spec %x/%x, fetched %x/%x" % (ln, e["pg"], e["sub"], g["pgno"], g["subno"]))
        if e.get("brief"):
            continue
        for r in range(1, 25):
            er, gr = e["grid"][r - 1], g["rows"][r]
            for c in range(40):
                gc = gr[c][:6] + [OPACITY_BOXED.get(gr[c][6], 10 + gr[c][6])]
                if er[c] != gc:
                    what = FIELDS[next(k for k in range(7) if er[c][k] != gc[k])]
                    return ("diverge:fetch:%s" % what, "%s row %d column %d: spec %s, fetched %s" % (ln, r, c, list(er[c]), gc))
        n = sum(1 for (k, pg, sub) in events if pg == e["pg"] and sub == e["sub"] and (e["hdr"] or 0) < k <= e["at"])
        if n != 1:
            return ("diverge:events:%d" % n, "%s: %d page events for %x/%x between its header (packet %s) and its termination (packet %d); all events: %s"
                    % (ln, n, e["pg"], e["sub"], e["hdr"], e["at"], events))
    return None


def run_set(ctx, drv, behs, lib, tab, label, picker=None, cmaps=None, batch=4000, flof=None, concs=None):
    """replay in batches: the answers of a batch (every cell of every fetched page) are dropped before the next one runs"""
    rnd = random.Random(ctx.seed * 31 + 5)
    picker = picker or RowPicker(rnd, lib, tab)
    if not hasattr(picker, "conc"):
        picker.conc = Concretiser(rnd)
    for b0 in range(0, len(behs), batch):
        run_batch(ctx, drv, behs[b0:b0 + batch], lib, tab, rnd, picker, cmaps[b0:b0 + batch] if cmaps else None, flof,
                  concs[b0:b0 + batch] if concs else None)
    if behs:
        m = len(behs) // 2
        ctx.sample(dict(source=label, mode=behs[m]["mode"], actions=[st["act"] for st in behs[m]["steps"]],
                        terminated=[[dict(pg=v["pg"], sub=v["sub"], rows=[c for c in v["rows"] if c]) for v in st["term"]] for st in behs[m]["steps"]]))
    return picker


def run_batch(ctx, drv, behs, lib, tab, rnd, picker, cmaps, flof, concs):
    concs = concs or [picker.conc.pick() for b in behs]
    comp = [compile_beh(rnd, b, lib, tab, picker, cmaps[i] if cmaps else None, flof, concs[i]) for i, b in enumerate(behs)]
    chunks = [list(range(k, len(behs), 16)) for k in range(16)]

    def job(idx):
        return (idx, core.run_seq_driver([drv], [comp[i][0] for i in idx], env=build.san_env(), timeout=1200)) if idx else (idx, [])
    for idx, res in core.pmap(job, chunks, workers=8):
        for j, i in enumerate(idx):
            r = res[j]
            if r.get("skipped"):
                continue
            lines, checks, cmap = comp[i]
            nterm = sum(1 for c in checks if c[0] == "page")
            ctx.count_case(lines, nontrivial=nterm > 0)
            rp = dict(script=lines, beh=behs[i], seed=ctx.seed, cmap={str(k): v for k, v in cmap.items()},
                      conc=dict(mm={str(k): v for k, v in concs[i]["mm"].items()}, v=concs[i]["v"]),
                      rows={str(v): lib[v - 1] for v in sorted(set(cmap.values()))})
            if r["stderr"] and r["crashed"]:
                core.report_sanitizers(ctx, r["stderr"], replay=rp, in_scope=False)
            bad = compare(lines, checks, r["lines"])
            if bad is None:
                ctx.validated()
            else:
                ctx.violate("replay", bad[0], bad[1] + "\nactions: %s" % [st["act"] for st in behs[i]["steps"]], rp)


def setup(ctx):
    lib, tab, raw = eval_rowlib(ctx, make_rowlib(random.Random(ctx.seed), 40))
    return lib, tab


def run(ctx):
    quick = ctx.tier == "quick"
    ctx.cov["rule"] = ("cases = transmissions (one per distinct terminal state of the bounded TtxAssembly model, sampled in the quick tier, and random "
                       "long transmissions, plus the transition cover of retransmissions of a stored page) sent as real packets in every pair of "
                       "magazines 1..8 with every variant of the link sets, rows from a library that pairs every spacing attribute with hold mosaics on / off; "
                       "distinct by packet bytes; non-trivial = at least one page is terminated and compared cell by cell")
    ctx.assumptions += ["consistent header text (no channel switch inferred)", "two consecutive headers of a magazine never carry the same page number",
                        "double height / double size are not transmitted on rows 23 and 24, the size returns to normal before column 39, and a "
                        "double height / double size attribute governs at least one cell (EN 300 706 12.2 leaves the other cases open)",
                        "GeneratedRow24: with navigation on and no row 24 transmitted for the stored version the decoder may generate row 24 itself; its content is not compared",
                        "X/27/0 is sent with link control 0xF (row 24 displayed), links name decimal page numbers or FF"]
    drv = build.build_driver("drv_ttx")
    n_sim = 1500 if quick else 20000

    def job(k):
        if k == "lib":
            return setup(ctx)
        if k == "flof":
            return eval_flof(ctx)
        if k == "retx":
            # transition cover of retransmissions (one magazine, one page, rows {1, 24}, both link sets): every way a stored
            # page is sent again and terminated, by a shortest transmission
            return tlc.run("Gen_TtxRetx", "Gen_TtxRetx_q" if quick else "Gen_TtxRetx_t", timeout=1200, collect_tr=True, heap="4g", workers=1)
        if k == "mc":
            return tlc.run("MC_TtxAssembly", "MC_TtxAssembly_q" if quick else "MC_TtxAssembly_t", timeout=2400, coverage=not quick, heap="8g", workers=3)
        if k == "gen":
            return tlc.run("Gen_TtxAssembly", "Gen_TtxAssembly_q" if quick else "Gen_TtxAssembly_t", timeout=2400, collect_tr=True, heap="8g", workers=3,
                           sample_tr=(QUICK_SAMPLE, ctx.seed) if quick else (THOROUGH_SAMPLE, ctx.seed))
        # long random behaviours of the same model (14 packets): retransmissions of stored pages, early termination by the
        # other magazine in serial mode, several versions of a page with different FLOF links - histories the bounded cover is too short for
        return tlc.run("Gen_TtxAssembly", "Gen_TtxAssembly_sim", timeout=1200, collect_tr=True, heap="4g", simulate=max(20, n_sim // 20), depth=16,
                       seed=ctx.seed, workers=2, max_tr=n_sim)      # TLC prints every successor of the last but one state of a walk: about 20
                                                                    # transmissions per walk that differ in the last packet; any n_sim will do
    (lib, tab), flof, x, r, g, s = core.pmap(job, ["lib", "flof", "retx", "mc", "gen", "sim"], workers=6)
    ctx.add_mc(r, "MC TtxAssembly")
    if r.violation:
        ctx.violate("mc", "mc:%s:%s" % (r.violation["kind"], r.violation["name"]), r.violation["text"][:3000])
    ctx.add_mc(g, "GEN TtxAssembly")
    picker = run_set(ctx, drv, g.tr, lib, tab, "Gen_TtxAssembly", flof=flof)
    ctx.add_mc(x, "GEN TtxRetx (transition cover of retransmissions)")
    xs = x.tr[ctx.seed % QUICK_RETX::QUICK_RETX] if quick else x.tr
    run_set(ctx, drv, xs, lib, tab, "Gen_TtxRetx", picker=picker, flof=flof)
    ctx.notes.append("retransmissions of a stored page: %d printed by TLC, %d replayed" % (len(x.tr), len(xs)))
    ctx.add_mc(s, "SIM TtxAssembly (depth 14)")
    run_set(ctx, drv, s.tr, lib, tab, "Sim_TtxAssembly", picker=picker, flof=flof)
    ctx.notes.append("simulated behaviours replayed: %d" % len(s.tr))
    ctx.notes.append("(magazine of the linking page, link set variant) pairs transmitted: %d of 64" % len(picker.conc.seen))
    if len(picker.conc.seen) < 64:
        raise tlc.ToolFailure("only %d of the 64 (magazine, link set variant) pairs were transmitted" % len(picker.conc.seen))
    ctx.notes.append("library rows assigned to content ids: %d of %d" % (len(picker.used), len(lib)))
    if len(picker.used) < len(lib):
        raise tlc.ToolFailure("only %d of the %d library rows were transmitted: the replayed sample is too small" % (len(picker.used), len(lib)))
    ctx.cov["exhaustive"] = False
    ctx.notes.append("behaviours printed by TLC: %d, replayed: %d" % (g.n_tr, len(g.tr)))


def replay(ctx, rp):
    drv = build.build_driver("drv_ttx")
    r = rp["replay"]
    ctx.seed = r.get("seed", ctx.seed)
    lib, tab = setup(ctx)
    cmap = {int(k): v for k, v in r["cmap"].items()} if r.get("cmap") else None
    if cmap and any(lib[v - 1] != r["rows"][str(v)] for v in cmap.values()):
        raise tlc.ToolFailure("the row library of this tree differs from the recorded one")
    conc = dict(mm={int(k): v for k, v in r["conc"]["mm"].items()}, v=r["conc"]["v"]) if r.get("conc") else dict(mm={1: 1, 2: 2}, v=0)
    run_set(ctx, drv, [r["beh"]], lib, tab, "replay", cmaps=[cmap] if cmap else None, flof=eval_flof(ctx), concs=[conc])
