"""C12 - VPS, PDC and 8/30 codecs are exact inverses; bad input is rejected untouched.
spec/Codecs.tla: the four codings as bit stream field tables written from EN 300 231 / TR 101 231 / EN 300 468 / EN 300 706
  (pure operators: overlay encoders, decoders, Hamming 8/4 receiver, BCD date and time, time offset code).
MC (spec/MC_Codecs.tla): Inverse, Frame, ReEncode, Rejects, ErrorTolerant, Independent decided by TLC on the spec over the full
  value ranges (all 4 096 VPS CNIs x 6 backgrounds, all 2^20 PILs through VPS / descriptor / 8-30-2, PCS x PTY, LCI/LUF/MI/PRF,
  all 16 bit CNIs of format 1 and 2, MJD 0..99 999, all 86 400 + 1 440 leap second times, 64 offset codes, every single and
  double bit error of a Hamming byte, every background bit flipped once).
RECORD+TV: harness/drv_codecs.c calls the ten public functions (3 encoders, 7 decoders) on the enumerated inputs and logs
  inputs, return values, output buffers / structures and the canary state of refused outputs; spec/Trace_Codecs.tla accepts a
  log line iff the real result equals the specification's for that input.  The 8/30 packets are built by the transmitter in
  this file and themselves validated against the spec's encoder (Meant)."""
import json, os, random, re
from vlib import tlc, build, core, ttx

MANIFEST = dict(
    level="model_checking",
    engine="tlc-mc+trace-validation",
    technique="TLA+ spec Codecs (VPS, DVB PDC descriptor, packet 8/30 format 1 and 2 as bit stream field tables from the standards, "
              "Hamming 8/4 receiver, BCD MJD/UTC, offset code); TLC decides inverse / frame / re-encode / rejection / error tolerance / "
              "bit independence on the spec over the full field ranges; the ten real functions are bound by trace validation of "
              "recorded calls over the same ranges (thorough) or all boundary values plus seeded samples (quick)",
    text="TLC checks on the specification that decoding an encoded value returns it for every VPS CNI (0xDC3 decoding to 0xDC1/0xDC2 by "
         "the distinction bit), every 20 bit PIL, PCS, PTY, LCI, LUF, MI, PRF, 16 bit CNI, MJD, time of day and offset code, that "
         "encoders change only the bits of the fields they write (six backgrounds, every background bit flipped once), that re-encoding "
         "a decoded packet reproduces it, that out-of-range values, bad BCD digits, impossible times, wrong descriptor tag/length and "
         "doubly damaged Hamming bytes are refused, and that one bit error per Hamming byte changes nothing. Every recorded call of "
         "vbi_encode/decode_vps_cni, _vps_pdc, _dvb_pdc_descriptor and vbi_decode_teletext_8301_cni, _8301_local_time, _8302_cni, "
         "_8302_pdc is validated against the spec: return value, every output byte / field, re-encoding of the decoded values, and "
         "that refused calls leave the output object untouched.",
    note="Thorough enumerates the full per-field ranges on the real functions (about 3.6 million recorded calls); quick uses every "
         "boundary value, per-field sweeps and seeded samples. The 2^104 VPS backgrounds are covered by six backgrounds, random "
         "backgrounds and single-bit flips of each. A seconds value of 60 (leap second) is treated as BCD valid. "
         "vbi_decode_teletext_8302_cni may refuse or deliver when only bytes without CNI bits are uncorrectable (the spec fixes "
         "the delivered value, refusal on damaged CNI bytes and acceptance of a fully correctable packet). time_t is compared as "
         "(days, second of day).",
)

CHUNK = 32768
I32 = 2 ** 31


def hexs(b):
    return "".join("%02x" % x for x in b)


def rev8(x):
    return sum(((x >> i) & 1) << (7 - i) for i in range(8))


# ---------------------------------------------------------------- transmitter for packet 8/30 (EN 300 706 9.8.1 / 9.8.2, EN 300 231 8.2.1)
def enc_8301(bg, v):
    """NI msb first, offset code in bits 2..7 of byte 15, MJD / UTC digits + 1; other bits are the background's"""
    p = list(bg)
    dg = lambda x, k: (x // k) % 10 + 1
    p[9], p[10] = rev8(v["cni"] >> 8), rev8(v["cni"] & 255)
    p[11] = (p[11] & 0x81) | (v["lto"] << 1)
    p[12] = (p[12] & 0xF0) | dg(v["mjd"], 10000)
    p[13] = dg(v["mjd"], 1000) << 4 | dg(v["mjd"], 100)
    p[14] = dg(v["mjd"], 10) << 4 | dg(v["mjd"], 1)
    p[15] = dg(v["h"], 10) << 4 | dg(v["h"], 1)
    p[16] = dg(v["m"], 10) << 4 | dg(v["m"], 1)
    p[17] = dg(v["s"], 10) << 4 | dg(v["s"], 1)
    return p


def enc_8302(bg, v):
    """13 Hamming 8/4 bytes; the 52 data bits in transmission order, every value msb first"""
    c, pil = v["cni"], v["pil"]
    fields = [(v["lci"], 2), (v["luf"], 1), (v["prf"], 1), (v["pcs"], 2), (v["mi"], 1), (0, 1), (c >> 12, 4), ((c >> 6) & 3, 2),
              (pil, 20), ((c >> 10) & 3, 2), ((c >> 8) & 3, 2), (c & 63, 6), (v["pty"], 8)]
    bits = []
    for val, w in fields:
        bits += [(val >> (w - 1 - j)) & 1 for j in range(w)]
    p = list(bg)
    for k in range(13):
        p[9 + k] = ttx.ham8(sum(bits[4 * k + j] << j for j in range(4)))
    return p


def flip(p, bits):
    p = list(p)
    for i in bits:
        p[i // 8] ^= 1 << (i % 8)
    return p


def pil_of(day, month, hour, minute):
    return day << 15 | month << 11 | hour << 6 | minute


# ---------------------------------------------------------------- the inputs
class Gen:
    def __init__(self, seed, thorough):
        self.r = random.Random(seed)
        self.t = thorough
        self.cmds = []
        r2 = random.Random(4242)
        self.bgs = {n: [[0] * n, [255] * n, [170] * n] + [[r2.randrange(256) for _ in range(n)] for _ in range(3)] for n in (5, 13, 42)}

    def n(self, quick, thorough):
        return thorough if self.t else quick

    def rb(self, n):
        return [self.r.randrange(256) for _ in range(n)]

    def bg(self, n, k=None):
        if k is None:
            k = self.r.randrange(9)
        return self.bgs[n][k] if k < 6 else self.rb(n)

    def bits16(self):
        s = {0, 1, 2, 0xFF, 0x100, 0xFFF, 0x1000, 0x7FFF, 0x8000, 0xFFFF, 0xAAAA, 0x5555, 0xDC1, 0xDC2, 0xDC3, 0x1DC3, 0xFDC3}
        s |= {1 << k for k in range(16)} | {0xFFFF ^ (1 << k) for k in range(16)}
        return sorted(s)

    def pils(self):
        """per-field sweeps, service codes, unreal dates"""
        s = set()
        for others in ((0, 0, 0, 0), (31, 15, 31, 63), (17, 6, 21, 35)):
            for d in range(32): s.add(pil_of(d, others[1], others[2], others[3]))
            for m in range(16): s.add(pil_of(others[0], m, others[2], others[3]))
            for h in range(32): s.add(pil_of(others[0], others[1], h, others[3]))
            for mi in range(64): s.add(pil_of(others[0], others[1], others[2], mi))
        s |= {pil_of(0, 15, h, 63) for h in (28, 29, 30, 31)} | {pil_of(31, 2, 25, 63), pil_of(14, 0, 25, 63), pil_of(29, 2, 12, 0)}
        s |= {1 << k for k in range(20)} | {0xFFFFF ^ (1 << k) for k in range(20)}
        return sorted(s)

    def pid(self, **kw):
        r = self.r
        p = dict(cni=r.randrange(4096), pil=r.randrange(1 << 20), pcs=r.randrange(4), pty=r.randrange(256), luf=r.randrange(2),
                 mi=r.randrange(2), prf=r.randrange(2), ch=r.randrange(8))
        p.update(kw)
        return p

    # --- VPS / descriptor
    def P(self, bg, p):
        self.cmds.append("P %s %d %d %d %d %d %d %d %d" % (hexs(bg), p["cni"], p["pil"], p["pcs"], p["pty"], p["luf"], p["mi"], p["prf"], p["ch"]))

    def vps(self):
        r, add = self.r, self.cmds.append
        cnis = range(4096) if self.t else sorted({c for c in self.bits16() if c < 4096} | set(range(0xDC0, 0xDC5)) | {0x3FF, 0x400, 0x7FF, 0x800})
        for c in cnis:
            for k in range(6):
                add("C %s %d" % (hexs(self.bg(13, k)), c))
        for _ in range(self.n(4000, 20000)):
            add("C %s %d" % (hexs(self.rb(13)), r.randrange(4096)))
        for c in (4096, 4097, 8191, 65535, 65536, I32 - 1, -1, -4096, -I32, 0xDC3 + 4096):
            for k in range(7):
                add("C %s %d" % (hexs(self.bg(13, k)), c))
        # PDC: the PIL range
        for pil in (range(1 << 20) if self.t else self.pils()):
            for k in ((pil % 9,) if self.t else (0, 1, 6)):
                self.P(self.bg(13, k), self.pid(pil=pil))
                add("D %s %d" % (hexs(self.bg(5, k)), pil))
        for _ in range(self.n(12000, 50000)):
            self.P(self.bg(13), self.pid())
            add("D %s %d" % (hexs(self.bg(5)), r.randrange(1 << 20)))
        for x in range(1024):
            for k in (range(6) if self.t else (x % 7,)):
                self.P(self.bg(13, k), self.pid(pcs=x >> 8, pty=x & 255))
        for c in (cnis if self.t else (0xDC1, 0xDC2, 0xDC3, 0xDC4, 0, 0xFFF)):
            for k in range(6):
                self.P(self.bg(13, k), self.pid(cni=c))
        bad = dict(cni=(4096, 65535, -1, I32 - 1, 0x1DC3), pil=(1 << 20, (1 << 20) + 5, -1, I32 - 1, -I32), pcs=(4, 5, -1, I32 - 1, 256),
                   pty=(256, 257, -1, 65536, I32 - 1))
        for f, vals in bad.items():
            for v in vals:
                for k in (0, 1, 3, 6):
                    self.P(self.bg(13, k), self.pid(**{f: v}))
        for _ in range(200):
            self.P(self.bg(13), self.pid(cni=r.choice(bad["cni"]), pty=r.choice(bad["pty"] + (7,)), pcs=r.choice(bad["pcs"] + (1,))))
        for v in bad["pil"]:
            for k in (0, 1, 3, 6):
                add("D %s %d" % (hexs(self.bg(5, k)), v))
        # arbitrary buffers through the decode / re-encode chain
        for _ in range(self.n(3000, 30000)):
            b = self.rb(13)
            add("c " + hexs(b)); add("p " + hexs(b))
        for _ in range(200):                    # raw code 0xDC3 with either distinction bit
            b = self.rb(13)
            b[8] |= 0xC0; b[10] |= 3; b[11] = 0x43
            add("c " + hexs(b)); add("p " + hexs(b))
        # every background bit flipped once: encoders and decoders
        for k in range(8):
            base = self.bg(13, k)
            p = self.pid()
            for i in range(104):
                b = flip(base, [i])
                add("c " + hexs(b)); add("p " + hexs(b))
                self.P(b, p)
                add("C %s %d" % (hexs(b), p["cni"]))
        for k in range(8):
            base = self.bg(5, k)
            pil = r.randrange(1 << 20)
            for i in range(40):
                add("D %s %d" % (hexs(flip(base, [i])), pil))
        # descriptor: tag, length, reserved bits, garbage
        for t in range(256):
            add("d %s" % hexs([t, 3] + self.rb(3)))
            add("d %s" % hexs([0x69, t] + self.rb(3)))
        for x in range(16):
            add("d %s" % hexs([0x69, 3, x << 4 | r.randrange(16)] + self.rb(2)))
        for _ in range(self.n(2000, 20000)):
            add("d " + hexs(self.rb(5)))
            add("d " + hexs([0x69, 3] + self.rb(3)))

    # --- packet 8/30 format 1
    def v1(self, **kw):
        r = self.r
        v = dict(cni=r.randrange(65536), lto=r.randrange(64), mjd=r.randrange(100000), h=r.randrange(24), m=r.randrange(60), s=r.randrange(60))
        v.update(kw)
        return v

    def T1(self, v, bg=None):
        self.cmds.append("1 %s %s" % (hexs(enc_8301(self.bg(42) if bg is None else bg, v)), json.dumps(v, separators=(",", ":"))))

    def f1(self):
        r, add = self.r, self.cmds.append
        for c in (range(65536) if self.t else self.bits16()):
            self.T1(self.v1(cni=c))
        mjds = range(100000) if self.t else sorted({0, 9, 10, 99, 100, 999, 1000, 9999, 10000, 40586, 40587, 40588, 99999, 59999, 60000}
                                                   | {d * 10 ** k + r.randrange(10 ** k) for k in range(5) for d in range(10)}
                                                   | {d * 10 ** k for k in range(5) for d in range(10)})
        for m in mjds:
            self.T1(self.v1(mjd=m))
        if self.t:
            for sod in range(86400):
                self.T1(self.v1(h=sod // 3600, m=sod // 60 % 60, s=sod % 60))
        else:
            for h in range(24): self.T1(self.v1(h=h)); self.T1(self.v1(h=h, m=59, s=59)); self.T1(self.v1(h=h, m=0, s=0))
            for m in range(60): self.T1(self.v1(m=m)); self.T1(self.v1(h=23, m=m, s=59))
            for s in range(60): self.T1(self.v1(s=s)); self.T1(self.v1(h=23, m=59, s=s))
        for hm in range(0, 1440, 1 if self.t else 7):                       # leap second positions
            self.T1(self.v1(h=hm // 60, m=hm % 60, s=60))
        self.T1(self.v1(mjd=99999, h=23, m=59, s=60)); self.T1(self.v1(mjd=0, h=0, m=0, s=0)); self.T1(self.v1(mjd=40587, h=0, m=0, s=0))
        self.T1(self.v1(mjd=40586, h=23, m=59, s=59)); self.T1(self.v1(mjd=40586, h=23, m=59, s=60))
        for lto in range(64):
            for k in range(6):
                self.T1(self.v1(lto=lto), self.bg(42, k))
        for _ in range(self.n(6000, 40000)):
            self.T1(self.v1())
        # bad digits, impossible times (no "v": these are not encodings of a value)
        digit_at = [(12, 0), (13, 4), (13, 0), (14, 4), (14, 0), (15, 4), (15, 0), (16, 4), (16, 0), (17, 4), (17, 0)]

        def setnib(p, pos, val):
            by, sh = digit_at[pos]
            p[by] = (p[by] & ~(15 << sh) & 255) | (val << sh)
        for pos in range(11):
            for badv in (0, 11, 12, 13, 14, 15):
                for _ in range(self.n(4, 12)):
                    p = enc_8301(self.bg(42), self.v1())
                    setnib(p, pos, badv)
                    add("1 " + hexs(p))
        for fld in range(3):
            for two in range(100):
                for _ in range(self.n(2, 6)):
                    p = enc_8301(self.bg(42), self.v1())
                    setnib(p, 5 + 2 * fld, two // 10 + 1); setnib(p, 6 + 2 * fld, two % 10 + 1)
                    add("1 " + hexs(p))
        for _ in range(self.n(3000, 30000)):
            add("1 " + hexs(self.rb(42)))
        for k in range(3):
            base = enc_8301(self.bg(42, k + 3), self.v1())
            for i in range(336):
                add("1 " + hexs(flip(base, [i])))

    # --- packet 8/30 format 2
    def v2(self, **kw):
        r = self.r
        v = dict(lci=r.randrange(4), luf=r.randrange(2), prf=r.randrange(2), pcs=r.randrange(4), mi=r.randrange(2), cni=r.randrange(65536),
                 pil=r.randrange(1 << 20), pty=r.randrange(256))
        v.update(kw)
        return v

    def T2(self, v, flips=(), bg=None):
        p = flip(enc_8302(self.bg(42) if bg is None else bg, v), flips)
        o = dict(v); o["flips"] = list(flips)
        self.cmds.append("2 %s %s" % (hexs(p), json.dumps(o, separators=(",", ":"))))

    def f2(self):
        r, add = self.r, self.cmds.append
        for pil in (range(1 << 20) if self.t else self.pils()):
            self.T2(self.v2(pil=pil))
        for c in (range(65536) if self.t else self.bits16()):
            self.T2(self.v2(cni=c))
        for x in range(1024):
            self.T2(self.v2(pcs=x >> 8, pty=x & 255))
        for x in range(128):
            for k in range(6):
                self.T2(self.v2(lci=x & 3, luf=x >> 2 & 1, mi=x >> 3 & 1, prf=x >> 4 & 1, pcs=x >> 5), bg=self.bg(42, k))
        for _ in range(self.n(10000, 50000)):
            self.T2(self.v2())
        # bit errors inside bytes 13..25 (buffer bits 72..175)
        for _ in range(self.n(30, 300)):
            v, bg = self.v2(), self.bg(42)
            for i in range(104):
                self.T2(v, (72 + i,), bg)
        for _ in range(self.n(5, 40)):
            v, bg = self.v2(), self.bg(42)
            for by in range(13):
                for i in range(8):
                    for j in range(i + 1, 8):
                        self.T2(v, (72 + by * 8 + i, 72 + by * 8 + j), bg)
        for _ in range(self.n(3000, 30000)):          # one error in each of k different bytes
            k = r.randrange(2, 14)
            self.T2(self.v2(), tuple(72 + by * 8 + r.randrange(8) for by in r.sample(range(13), k)))
        for _ in range(self.n(3000, 30000)):          # 2..4 errors anywhere in the field
            self.T2(self.v2(), tuple(r.sample(range(72, 176), r.randrange(2, 5))))
        for _ in range(self.n(3000, 30000)):
            add("2 " + hexs(self.rb(42)))
        for k in range(3):
            v, bg = self.v2(), self.bg(42, k + 3)
            base = enc_8302(bg, v)
            for i in list(range(72)) + list(range(176, 336)):
                add("2 " + hexs(flip(base, [i])))

    def all(self):
        self.vps(); self.f1(); self.f2()
        return self.cmds


# ---------------------------------------------------------------- record + validate
def record(drv, cmds, path):
    rc, so, se, to = core.run_driver([drv], "R\n" + "\n".join(cmds) + "\n", timeout=1200, env=build.san_env())
    lines = [ln for ln in so.split("\n") if ln.startswith("{") and not ln.startswith('{"reset"')]
    with open(path, "w") as f:
        f.write("\n".join(lines) + ("\n" if lines else ""))
    return lines, se, (rc != 0 or to)


def first_diff(rec, why):
    exp = why.get("expect", {})
    for k in ("ok", "out", "dok", "dsame", "back", "rok", "re", "cok", "cni", "tok", "tsame", "days", "secs", "east", "pok", "psame", "pid"):
        if k in exp and rec.get(k) != exp[k]:
            if isinstance(exp[k], dict) and isinstance(rec.get(k), dict):
                return k + "." + next((f for f in sorted(exp[k]) if rec[k].get(f) != exp[k][f]), "?")
            return k
    return "?"


def verdict(rec, why):
    """(key, text) for a rejected record"""
    f = rec.get("f")
    if not why.get("matches", True):
        d = first_diff(rec, why)
        exp = why.get("expect", {})
        k0 = d.split(".")[0]
        return ("diverge:%s:%s" % (f, d), "field %s: spec %s, real %s" % (d, json.dumps(exp.get(k0)), json.dumps(rec.get(k0))))
    if not why.get("cni8302", True):
        return ("diverge:t2:cni-rule", "vbi_decode_teletext_8302_cni: cok=%s cni=%s csame=%s not allowed by the spec" % (rec.get("cok"), rec.get("cni"), rec.get("csame")))
    if not why.get("direct", True):
        return ("property:%s:%s" % (f, "tolerant" if f == "t2" else "reencode"), "the recorded values violate the property directly")
    return ("rejected:%s" % f, "rejected")


def validate_chunk(ctx, drv, cmds, tag, max_findings=4, heap="1g"):
    """returns (n validated, list of (key, detail, replay), TlcResult list)"""
    path = os.path.join(ctx.scratch, "codecs-%s.ndjson" % tag)
    lines, se, died = record(drv, cmds, path)
    if died or len(lines) != len(cmds):
        if core.sanitizer_reports(se):
            return 0, [("sanitizer", se, dict(cmd=cmds[min(len(lines), len(cmds) - 1)]))], []
        raise tlc.ToolFailure("codec driver stopped after %d of %d commands: %s" % (len(lines), len(cmds), se[-1500:]))
    found, runs, base, nval = [], [], 0, 0
    while True:
        ok, r = tlc.validate_trace("Trace_Codecs", "Trace_Codecs", path, timeout=1500, heap=heap, explain=False)
        runs.append(r)
        if ok:
            nval += len(lines) - base
            break
        at = r.reject_at
        if at is None:
            raise tlc.ToolFailure("trace validation failed without a rejected line:\n" + r.out[-2000:])
        m = re.search(r'"TV-WHY", "(.*)">>', r.out)
        why = json.loads(tlc._unescape(m.group(1))) if m else {}
        rec = json.loads(lines[base + at - 1])
        cmd = cmds[base + at - 1]
        if not why.get("meant", True):
            raise tlc.ToolFailure("the transmitter of the check built a packet that is not the spec's encoding: %s" % cmd)
        key, text = verdict(rec, why)
        found.append((key, "%s\ncommand: %s\nrecord: %s" % (text, cmd, lines[base + at - 1][:1200]), dict(cmd=cmd)))
        nval += at - 1
        base += at
        if base >= len(lines) or len(found) >= max_findings:
            break
        with open(path, "w") as f:
            f.write("\n".join(lines[base:]) + "\n")
    os.remove(path)
    return nval, found, runs


def run(ctx):
    quick = ctx.tier == "quick"
    ctx.cov["rule"] = ("cases = recorded calls of the real codec functions (one encoder call with the decode / re-encode chain, or one packet "
                       "through both decoders of its format), validated line by line against Codecs.tla; distinct by command line")
    ctx.assumptions += ["seconds = 60 (leap second) is accepted as the first second of the next minute",
                        "vbi_decode_teletext_8302_cni may either refuse or deliver when only bytes without CNI bits are uncorrectable",
                        "time_t is 64 bit on this platform: every MJD 0..99999 is representable"]
    drv = build.build_driver("drv_codecs")
    cfg = "MC_Codecs_q" if quick else "MC_Codecs_t"
    r = tlc.run("MC_Codecs", cfg, timeout=1500, heap="12g", coverage=False)
    ctx.add_mc(r, cfg)
    if r.violation:
        m = re.search(r'"CLAUSE-VIOLATED", "(\w+)", "(\w+)", (-?\d+), (-?\d+)', r.out)
        key = "mc:%s:%s" % (m.group(1), m.group(2)) if m else "mc:%s:%s" % (r.violation["kind"], r.violation["name"])
        ctx.violate("mc", key, (m.group(0) + "\n" if m else "") + r.violation["text"][:3000])
    cmds = Gen(ctx.seed, not quick).all()
    # equal shares of every kind of call per chunk; a JVM per chunk, small heaps (fresh pages are expensive here)
    nch = 16 if quick else max(16, (len(cmds) + CHUNK - 1) // CHUNK)
    chunks = [cmds[i::nch] for i in range(nch)]
    res = core.pmap(lambda a: validate_chunk(ctx, drv, a[1], str(a[0]), heap="1g" if quick else "2g"), list(enumerate(chunks)))
    for (nval, found, runs), ch in zip(res, chunks):
        for rr in runs:
            ctx.cov["states"] += rr.distinct
            ctx.cov["transitions"] += rr.generated
        ctx.validated(nval)
        for key, detail, rp in found:
            if key == "sanitizer":
                core.report_sanitizers(ctx, detail, replay=rp, in_scope=False)
                ctx.violate("replay", "diverge:crash", detail[-2500:], rp)
            else:
                ctx.violate("tv", key, detail, rp)
    if res and res[0][2]:
        ctx.cov["mc_runs"].append(dict(run="TV (first of %d chunks)" % len(chunks), distinct=res[0][2][0].distinct, generated=res[0][2][0].generated,
                                       depth=res[0][2][0].depth, wall_s=round(res[0][2][0].wall, 1), cmd=res[0][2][0].cmd))
    for c in cmds:
        ctx.count_case(c, nontrivial=True)
    for c in (cmds[0], cmds[len(cmds) // 2], cmds[-1]):
        ctx.sample(dict(source="recorded call", command=c))
    ctx.cov["exhaustive"] = not quick


def replay(ctx, rp):
    drv = build.build_driver("drv_codecs")
    cmd = rp["replay"]["cmd"]
    nval, found, runs = validate_chunk(ctx, drv, [cmd], "replay")
    print(cmd)
    for key, detail, r in found:
        print(detail)
        ctx.violate("tv", key, detail, r)
