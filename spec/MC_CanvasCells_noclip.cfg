CONSTANTS Pages <- SmallPages Formats = {"RGBA32_LE", "PAL8", "YUV420"} Strides = {"exact", "plus5"} MaxDraws = 1 Clip = "none"
SPECIFICATION Spec
PROPERTIES Frame
CHECK_DEADLOCK FALSE
