CONSTANTS Clients = {1, 2} Services = {"a", "b", "x"} Supported = {"a", "b"} Base = 2 S = 1 MaxFrames = 3 Threaded = FALSE LevelsUsed = {0, 1, 3} Discards = {FALSE} Faulty = {}
SPECIFICATION Spec
INVARIANTS TypeOK RefCount CursorOK QueueOrder Buffers Delivery InOrder DeviceOpen CanCapture
PROPERTIES Filtered LossOnlyWhenFull OnlyBlockedLose
CHECK_DEADLOCK FALSE
