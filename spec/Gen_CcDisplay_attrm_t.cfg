\* background / foreground attribute codes and mid-row codes: a mid-row code leaves the background alone (thorough tier only)
CONSTANTS Chans = {3} Rows = {13} Chars = {65, 32} MaxPairs = 5
  Indents = {0} Depths = {2} Tabs = {1}
  Kinds = {"RDC", "PAC", "MID", "BAO", "BT", "FA", "TEXT"}
  Beyond = {}
  Mix <- NoMix Bursts <- NoBurst
SPECIFICATION GSpec
VIEW gview2
CONSTRAINT Started
ACTION_CONSTRAINT TDump
CHECK_DEADLOCK FALSE
