------------------------- MODULE Gen_ServiceDecoder -------------------------
(* Histories for the service driver (C01): random walks (tlc -simulate) through the full alphabet and the transition
   cover of the small model.  Every step carries the action with its arguments; frame ends and fetches carry the
   state the reference predicts (cached page keys as lower / upper bound, countdown) when it claims to know it.

   Random walks: TLC picks uniformly among the successor states, which would favour the actions with many parameter
   values.  The walk therefore first chooses a KIND of action (weights below), then an action of that kind.  The
   chooser is not part of ServiceDecoder: it selects among the disjuncts of Next, nothing else. *)
EXTENDS MC_ServiceDecoder, Json
VARIABLES hist, sel
gvars == <<vars, hist, sel>>
gview == mcview
RECURSIVE SetToSeq(_)
SetToSeq(S) == IF S = {} THEN <<>> ELSE LET x == CHOOSE y \in S : TRUE IN <<x>> \o SetToSeq(S \ {x})
Exp == IF lastAct'.a = "EndFrame"
       THEN [sure |-> sure', cdk |-> cdk', cd |-> chswcd', must |-> SetToSeq(Must'), may |-> SetToSeq(May'), ttx |-> TtxOn']
       ELSE [sure |-> sure']
Log == hist' = Append(hist, [act |-> lastAct', exp |-> Exp])
Out(h) == PrintT(<<"TR", ToJson([mode |-> tmode, steps |-> h])>>)

\* ---- random walks
IdleKinds  == <<"begin", "begin", "begin", "begin", "begin", "begin", "fetch", "fetch", "fetch", "slot", "slot", "slot", "search", "misc", "chsw", "handlers", "prog", "prog", "progx", "progi">>
FrameKinds == <<"ttx", "ttx", "ttx", "ttx", "cc", "cc", "cc", "xds", "xds", "station", "arb", "end", "end">>
Applicable(k) == CASE k = "slot" -> slot # "none" [] k = "progx" -> NK > 0 [] k = "progi" -> ItvLens # {} /\ CcChars \ {60} # {} [] OTHER -> TRUE
Choose == /\ sel = "none" /\ prog = <<>> /\ nstep < MaxSteps - 1
          /\ LET ks == IF pc = "idle" THEN IdleKinds ELSE (IF nl < MaxLines THEN FrameKinds ELSE <<"end">>) IN
             \E i \in 1..Len(ks) : Applicable(ks[i]) /\ sel' = ks[i]
          /\ UNCHANGED <<vars, hist>>
Do == /\ sel # "none" /\ sel' = "none"
      /\ CASE sel = "begin"    -> \E dt \in DtSet : BeginFrame(dt)
            [] sel = "end"      -> EndFrame
            [] sel = "ttx"      -> TtxLines /\ UNCHANGED prog
            [] sel = "cc"       -> CcLines /\ UNCHANGED prog
            [] sel = "xds"      -> XdsLines /\ UNCHANGED prog
            [] sel = "station"  -> StationLines /\ UNCHANGED prog
            [] sel = "arb"      -> ArbLines /\ UNCHANGED prog
            [] sel = "fetch"    -> FetchCalls
            [] sel = "slot"     -> SlotCalls
            [] sel = "search"   -> SearchCalls
            [] sel = "misc"     -> MiscCalls
            [] sel = "chsw"     -> ChannelSwitched
            [] sel = "handlers" -> HandlerCalls
            [] sel = "prog"     -> PagePrograms
            [] sel = "progx"    -> XdsPrograms
            [] sel = "progi"    -> ItvPrograms
      /\ Log
ProgStep == prog # <<>> /\ nstep < MaxSteps - 1 /\ (ProgLine \/ ProgFrame) /\ Log /\ UNCHANGED sel
\* the last step of a random walk is deterministic, so that the dump below is evaluated for one state per walk
Finish == /\ nstep = MaxSteps - 1 /\ nstep' = nstep + 1 /\ lastAct' = [a |-> "Finish"]
          /\ UNCHANGED <<taV, xV, anV, evV, ccV, rdV, frV, sure, cdk, ntrip, hflags, prog, sel>> /\ Log
\* a walk starts with no handler, or with the counting handler registered for every event type
SimInit == /\ (Init \/ InitAll) /\ sel = "none"
           /\ hist = IF emask = {} THEN <<>>
                     ELSE <<[act |-> [a |-> "Register", fn |-> hrec[1].fn, ud |-> hrec[1].ud, mask |-> Types], exp |-> [sure |-> TRUE]]>>
SimNext == Choose \/ Do \/ ProgStep \/ Finish
SimSpec == SimInit /\ [][SimNext]_gvars
SimDump == nstep = MaxSteps => Out(hist)

\* ---- transition cover of the small model: one shortest history per explored transition
GInit == Init /\ hist = <<>> /\ sel = "none"
GNext == nstep < MaxSteps /\ Next /\ Log /\ UNCHANGED sel
GSpec == GInit /\ [][GNext]_gvars
CoverDump == Out(hist')
=============================================================================
