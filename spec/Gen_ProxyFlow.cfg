CONSTANTS Clients = {1, 2, 3, 4} Services = {"ttx", "wss", "x"} Supported = {"ttx", "wss"} Base = 1 S = 4 MaxFrames = 1000
  Threaded = FALSE LevelsUsed = {0, 2} Discards = {FALSE} Faulty = {2, 3}
  Prios = {1, 2} FixTokenOwner = TRUE FixFlushClosed = TRUE FixRegrant = TRUE FixHdrLen = TRUE FixPartial = TRUE
  WSrv <- GWSrv FullMatrix = TRUE
  Depth = 110 MinLost = 2 WTick = 8 WRead = 4 WPart = 2
SPECIFICATION GSpec
CONSTRAINT Dump
CHECK_DEADLOCK FALSE
