---------------------------- MODULE TtxCacheApi ----------------------------
(* The Teletext cache as the APPLICATION sees it through the service decoder (property C10, second route):
   pages arrive by transmission (vbi_decode -> store), the station changes (vbi_channel_switched() or the
   drop-out countdown of vbi_decode -> vbi_chsw_reset), and the application asks vbi_is_cached(),
   vbi_cache_hi_subno() and vbi_fetch_vt_page().

   Statement: "the cache behaves as a map from (network, page number, subpage key) to the most recently stored
   version: a lookup returns a copy-equal page iff one was stored and not evicted, wildcard subpage lookups return
   the most recently stored or looked-up version, 'is cached' and 'highest subpage' agree with that map ... a channel
   switch leaves no page of the old network reachable".  Here the map is `cached` (keys of the CURRENT network), `ver`
   the version stamp of the last store per key, `use` the logical time of the last store or look-up of a key (the
   wildcard look-up returns the key of the page with the latest use), `hi` the highest subpage number stored for a
   page since the station was tuned in (below the memory limit nothing is evicted, so "highest cached" = "highest
   stored").

   TtxCache.tla is the structural specification of the same store (lists, counters, references); this module is its
   projection onto the decoder API: Store = TtxCache!Put on the decoder's network, Switch = TtxCache!NetUnref of the
   decoder's reference followed by TtxCache!AddNet (which may RECYCLE the old network object - the application must
   not see the difference), look-ups = Get + copy + Unref.  The memory limit (1 GiB in libzvbi 0.2) is never reached. *)
EXTENDS Naturals, FiniteSets, Sequences, TLC

CONSTANTS Pages,      \* page numbers used (model values are mapped to real numbers by the check)
          HexPages,   \* those with a hexadecimal number (no Level One Pages: S1 is their subpage number, they are not fetched for display)
          Subs,       \* subpage numbers used, 0 = page without subpages
          Hows,       \* ways the station changes: "api" (vbi_channel_switched), "gap" (time stamps jump, countdown runs out)
          MaxOps

VARIABLES cached,     \* set of <<p, s>>: keys of the current network
          ver,        \* <<p, s>> -> version stamp of the stored copy (0: not stored on this station)
          use,        \* <<p, s>> -> logical time of the last store / look-up (0: none)
          hi,         \* p -> highest subpage number stored since tuning in
          nver,       \* version counter (every transmission carries its stamp in the page text)
          clock,      \* logical time
          res,        \* result of the last look-up (version stamp, 0: not found) or -1
          nops, lastAct
vars == <<cached, ver, use, hi, nver, clock, res, nops, lastAct>>
Keys == Pages \X Subs
None == 0 - 1

Init == /\ cached = {} /\ ver = [k \in Keys |-> 0] /\ use = [k \in Keys |-> 0] /\ hi = [p \in Pages |-> 0]
        /\ nver = 0 /\ clock = 0 /\ res = None /\ nops = 0 /\ lastAct = [a |-> "init"]

\* the key a wildcard look-up of page p finds: the most recently stored or looked-up one
Mru(p) == LET S == {s \in Subs : <<p, s>> \in cached} IN
          IF S = {} THEN None ELSE CHOOSE s \in S : \A t \in S : use[<<p, t>>] <= use[<<p, s>>]
(* The subpage key (EN 300 706 A.1, cache.c _vbi_cache_put_page, TtxCache!Put): a page with a decimal number transmitted with
   subcode 0 has no subpages - one version is kept, it takes the place of the version used last, whatever its number;
   subpage numbers 1..79 are keys of their own.  (For hexadecimal page numbers subcode 0 is a key like the others.) *)
Replaced(p, s) == IF <<p, s>> \in cached THEN {<<p, s>>}
                  ELSE IF s = 0 /\ p \notin HexPages /\ Mru(p) # None THEN {<<p, Mru(p)>>} ELSE {}
\* a complete transmission of page p with subpage number s (terminated: the page is stored)
Store(p, s) ==
  /\ cached' = (cached \ Replaced(p, s)) \cup {<<p, s>>}
  /\ nver' = nver + 1 /\ clock' = clock + 1
  /\ ver' = [k \in Keys |-> IF k = <<p, s>> THEN nver + 1 ELSE IF k \in Replaced(p, s) THEN 0 ELSE ver[k]]
  /\ use' = [k \in Keys |-> IF k = <<p, s>> THEN clock + 1 ELSE IF k \in Replaced(p, s) THEN 0 ELSE use[k]]
  /\ hi' = [hi EXCEPT ![p] = IF s > @ THEN s ELSE @]
  /\ res' = None
  /\ nops' = nops + 1 /\ lastAct' = [a |-> "Store", p |-> p, s |-> s, v |-> nver + 1]

\* the station changes: nothing of the old station remains reachable, the statistics start over
Switch(how) ==
  /\ cached' = {} /\ ver' = [k \in Keys |-> 0] /\ use' = [k \in Keys |-> 0] /\ hi' = [p \in Pages |-> 0]
  /\ res' = None /\ UNCHANGED <<nver, clock>>
  /\ nops' = nops + 1 /\ lastAct' = [a |-> "Switch", how |-> how]

\* exact look-up (api: "cached" = vbi_is_cached, "fetch" = vbi_fetch_vt_page): returns the stored version, and counts as use
Lookup(api, p, s) ==
  /\ res' = (IF <<p, s>> \in cached THEN ver[<<p, s>>] ELSE 0)
  /\ clock' = clock + 1
  /\ use' = IF <<p, s>> \in cached THEN [use EXCEPT ![<<p, s>>] = clock + 1] ELSE use
  /\ UNCHANGED <<cached, ver, hi, nver>>
  /\ nops' = nops + 1 /\ lastAct' = [a |-> "Lookup", api |-> api, p |-> p, s |-> s]
\* wildcard look-up (VBI_ANY_SUBNO)
LookupAny(api, p) ==
  /\ res' = (IF Mru(p) = None THEN 0 ELSE ver[<<p, Mru(p)>>])
  /\ clock' = clock + 1
  /\ use' = IF Mru(p) = None THEN use ELSE [use EXCEPT ![<<p, Mru(p)>>] = clock + 1]
  /\ UNCHANGED <<cached, ver, hi, nver>>
  /\ nops' = nops + 1 /\ lastAct' = [a |-> "LookupAny", api |-> api, p |-> p, s |-> Mru(p)]

Apis == {"cached", "fetch"}
Next == \/ \E p \in Pages, s \in Subs : Store(p, s)
        \/ \E h \in Hows : Switch(h)
        \/ \E a \in Apis, p \in Pages, s \in Subs : (a = "fetch" => p \notin HexPages) /\ Lookup(a, p, s)
        \/ \E a \in Apis, p \in Pages : (a = "fetch" => p \notin HexPages) /\ LookupAny(a, p)
Spec == Init /\ [][Next]_vars
Bounded == nops < MaxOps

-----------------------------------------------------------------------------
\* what the application can observe without disturbing the order of use (compared with the real decoder after EVERY action)
IsCachedAny(p) == \E s \in Subs : <<p, s>> \in cached
HiSubno(p) == hi[p]

TypeOK == /\ cached \subseteq Keys /\ \A k \in Keys : ver[k] \in 0..nver /\ use[k] \in 0..clock
\* the map: a key is cached iff it has a version; versions are unique; 'highest subpage' bounds every cached key
MapOK == /\ \A k \in Keys : ((k \in cached) <=> (ver[k] > 0)) /\ ((k \in cached) <=> (use[k] > 0))
         /\ \A k, l \in cached : (ver[k] = ver[l] \/ use[k] = use[l]) => k = l
         /\ \A k \in cached : k[2] <= hi[k[1]]
\* a channel switch leaves nothing reachable
SwitchEmpties == [][lastAct'.a = "Switch" => (cached' = {} /\ \A p \in Pages : hi'[p] = 0)]_vars
\* a store changes its own key and at most the one version it replaces, never another page; look-ups change no content
StoreLocal == [][lastAct'.a = "Store" => /\ \A k \in Keys : k[1] # lastAct'.p => (ver'[k] = ver[k] /\ ((k \in cached') <=> (k \in cached)))
                                         /\ Cardinality(cached \ cached') <= 1
                                         /\ (lastAct'.s # 0 \/ lastAct'.p \in HexPages) => cached \subseteq cached']_vars
LookupPure == [][lastAct'.a \in {"Lookup", "LookupAny"} => (cached' = cached /\ ver' = ver /\ hi' = hi)]_vars
\* the wildcard look-up returns the most recently stored or looked-up version
WildcardIsMru == [][lastAct'.a = "LookupAny" => (res' = 0 <=> ~IsCachedAny(lastAct'.p)) /\
                      (res' # 0 => \A s \in Subs : <<lastAct'.p, s>> \in cached => use[<<lastAct'.p, s>>] <= use[<<lastAct'.p, lastAct'.s>>])]_vars
=============================================================================
